#!/bin/bash
# usage: ./run.sh <property id> <quick|thorough>
# Static analysis only: type-checks /repo's current working tree, lowers it to SSA and
# decides the property's obligations. Never executes repository code.
cd "$(dirname "$0")"
export GOFLAGS=-mod=mod GOPROXY=off GOSUMDB=off GOTOOLCHAIN=local CGO_ENABLED=0
unset GOWORK
BIN=./checker/bin/vcheck
if [ ! -x "$BIN" ] || [ -n "$(find checker -name '*.go' -newer "$BIN" 2>/dev/null | head -1)" ]; then
  (cd checker && go build -o bin/vcheck ./cmd/vcheck) || { echo "cannot build checker"; exit 2; }
fi
exec "$BIN" -prop "$1" -tier "${2:-${VERIF_TIER:-quick}}" -repo "${VERIF_REPO:-/repo}" -verif "$(pwd)"
