package ana

import (
	"go/constant"
	"go/token"
	"go/types"
	"math/big"

	"golang.org/x/tools/go/ssa"
)

// VSA is a value-set analysis for a small tuple of tracked integer
// quantities (e.g. len(p0), a version byte) over finite ranges. For every
// basic block it computes the set of tuples with which the block may be
// reached. Branch conditions that are functions of the tracked quantities
// (through + - * / % << >> & | ^ comparisons, integer conversions and calls to
// straight-line repository helpers) filter the sets; any other condition lets
// the whole incoming set through to both successors, so the result is a sound
// over-approximation of reachability per tuple, and exact for guard chains
// that only test the tracked quantities.
type VSA struct {
	B       *Builder
	Tracked []string   // canonical term strings of the tracked values
	Ranges  [][2]int64 // inclusive ranges
	Exact   map[*ssa.BasicBlock]bool
	// Opaque counts conditions that could not be evaluated (informational)
	Opaque int
	// Derived optionally evaluates further values (by their term) as functions of the tuple.
	Derived func(t *Term, tuple []int64) (int64, bool)

	// Entry optionally restricts the tuples with which the function is entered (indices into the enumeration).
	Entry map[int]bool

	summaries map[ssa.CallInstruction]*vsaSummary

	// cur is the block whose branch condition is being evaluated; over / overLen give the value (the length) of a loop
	// phi while its loop's continue condition is replayed (loopFinal).
	cur     *ssa.BasicBlock
	over    map[*ssa.Phi]int64
	overLen map[*ssa.Phi]int64
}

// vsaSummary is the analysis of a multi-block repository helper at one call
// site, with the helper's parameters bound to the caller's argument terms, so
// that the tracked quantities mean the same in both.
type vsaSummary struct {
	sub   *VSA
	sets  map[*ssa.BasicBlock]map[int]bool
	exits []*ssa.Return
}

// exitFor returns the single return of the helper that tuple t can reach.
func (a *VSA) exitFor(call *ssa.Call, t tuple) (*VSA, *ssa.Return) {
	callee := StaticRepoCallee(&call.Call)
	if callee == nil || len(callee.Blocks) < 2 || len(a.Tracked) == 0 || len(callee.Params) != len(call.Call.Args) {
		return nil, nil
	}
	if a.summaries == nil {
		a.summaries = map[ssa.CallInstruction]*vsaSummary{}
	}
	sm := a.summaries[call]
	if sm == nil {
		hb := NewBuilder(a.B.P, callee)
		hb.Bind = map[*ssa.Parameter]*Term{}
		for i, prm := range callee.Params {
			hb.Bind[prm] = a.B.Of(call.Call.Args[i], call)
		}
		sub := &VSA{B: hb, Tracked: append([]string(nil), a.Tracked...), Ranges: a.Ranges, Derived: a.Derived}
		sm = &vsaSummary{sub: sub}
		sm.sets, _ = sub.Run()
		for _, blk := range callee.Blocks {
			if len(blk.Instrs) == 0 {
				continue
			}
			if ret, ok := blk.Instrs[len(blk.Instrs)-1].(*ssa.Return); ok {
				sm.exits = append(sm.exits, ret)
			}
		}
		a.summaries[call] = sm
	}
	// index of t in the tuple enumeration (mixed radix, first component most significant)
	idx := 0
	for i, r := range a.Ranges {
		if i >= len(t) || t[i] < r[0] || t[i] > r[1] {
			return nil, nil
		}
		idx = idx*int(r[1]-r[0]+1) + int(t[i]-r[0])
	}
	var hit *ssa.Return
	for _, ret := range sm.exits {
		if sm.sets[ret.Block()][idx] {
			if hit != nil {
				return nil, nil
			}
			hit = ret
		}
	}
	if hit == nil {
		return nil, nil
	}
	return sm.sub, hit
}

// ResultFor resolves a value that is a result of a call of a multi-exit
// repository helper, for one tuple: the builder of the helper (parameters bound
// to the arguments) and the result value of the single helper exit the tuple
// reaches. ok is false when v is not such a value or the exit is not unique.
func (a *VSA) ResultFor(v ssa.Value, t []int64) (*Builder, ssa.Value, *ssa.Return, bool) {
	var call *ssa.Call
	k := 0
	switch x := v.(type) {
	case *ssa.Extract:
		call, _ = x.Tuple.(*ssa.Call)
		k = x.Index
	case *ssa.Call:
		call = x
	case *ssa.MakeInterface:
		return a.ResultFor(x.X, t)
	case *ssa.ChangeInterface:
		return a.ResultFor(x.X, t)
	}
	if call == nil {
		return nil, nil, nil, false
	}
	sub, ret := a.exitFor(call, t)
	if ret == nil || k >= len(ret.Results) {
		return nil, nil, nil, false
	}
	// the helper may itself hand on another helper's result
	if b2, v2, r2, ok := sub.ResultFor(ret.Results[k], t); ok {
		return b2, v2, r2, true
	}
	return sub.B, ret.Results[k], ret, true
}

// nilness evaluates whether the pointer/interface value v is nil for tuple t.
func (a *VSA) nilness(v ssa.Value, t tuple, depth int) (isNil, ok bool) {
	if depth > 30 {
		return false, false
	}
	switch x := v.(type) {
	case *ssa.Const:
		return x.Value == nil, x.Value == nil
	case *ssa.MakeInterface, *ssa.Alloc, *ssa.MakeSlice, *ssa.MakeMap, *ssa.MakeClosure, *ssa.FieldAddr, *ssa.IndexAddr:
		return false, true
	case *ssa.ChangeInterface:
		return a.nilness(x.X, t, depth+1)
	case *ssa.UnOp:
		// a package-level error variable initialised once to a non-nil value (errors.New …)
		if g, isG := x.X.(*ssa.Global); isG && x.Op == token.MUL {
			if a.B.P.initNonNil(g) {
				return false, true
			}
		}
	case *ssa.Extract:
		if call, isCall := x.Tuple.(*ssa.Call); isCall {
			if sub, ret := a.exitFor(call, t); ret != nil && x.Index < len(ret.Results) {
				return sub.nilness(ret.Results[x.Index], t, depth+1)
			}
		}
	case *ssa.Call:
		if c := x.Call.StaticCallee(); c != nil && (c.String() == "fmt.Errorf" || c.String() == "errors.New") {
			return false, true
		}
		if sub, ret := a.exitFor(x, t); ret != nil && len(ret.Results) == 1 {
			return sub.nilness(ret.Results[0], t, depth+1)
		}
	}
	return false, false
}

type tuple []int64

func (a *VSA) tuples() []tuple {
	out := []tuple{{}}
	for _, r := range a.Ranges {
		var next []tuple
		for _, t := range out {
			for v := r[0]; v <= r[1]; v++ {
				nt := append(append(tuple{}, t...), v)
				next = append(next, nt)
			}
		}
		out = next
	}
	return out
}

// Run returns, per block, the indices (into Tuples()) of the tuples that may reach it.
func (a *VSA) Run() (map[*ssa.BasicBlock]map[int]bool, []tuple) {
	fn := a.B.Fn
	for i := range a.Tracked {
		a.Tracked[i] = Expand(a.Tracked[i])
	}
	tuples := a.tuples()
	sets := map[*ssa.BasicBlock]map[int]bool{}
	for _, blk := range fn.Blocks {
		sets[blk] = map[int]bool{}
	}
	for i := range tuples {
		if a.Entry == nil || a.Entry[i] {
			sets[fn.Blocks[0]][i] = true
		}
	}
	work := []*ssa.BasicBlock{fn.Blocks[0]}
	opaque := map[*ssa.If]bool{}
	for len(work) > 0 {
		blk := work[0]
		work = work[1:]
		in := sets[blk]
		push := func(s *ssa.BasicBlock, idx int) {
			if !sets[s][idx] {
				sets[s][idx] = true
				for _, w := range work {
					if w == s {
						return
					}
				}
				work = append(work, s)
			}
		}
		if len(blk.Instrs) == 0 {
			continue
		}
		ifi, isIf := blk.Instrs[len(blk.Instrs)-1].(*ssa.If)
		if !isIf {
			for _, s := range blk.Succs {
				for idx := range in {
					push(s, idx)
				}
			}
			continue
		}
		a.cur = blk
		for idx := range in {
			v, ok := a.eval(ifi.Cond, tuples[idx], 0)
			if !ok {
				opaque[ifi] = true
				push(blk.Succs[0], idx)
				push(blk.Succs[1], idx)
				continue
			}
			if v != 0 {
				push(blk.Succs[0], idx)
			} else {
				push(blk.Succs[1], idx)
			}
		}
	}
	a.Opaque = len(opaque)
	return sets, tuples
}

// Eval evaluates v as a function of the tracked tuple.
func (a *VSA) Eval(v ssa.Value, t []int64) (int64, bool) { return a.eval(v, t, 0) }

func (a *VSA) eval(v ssa.Value, t tuple, depth int) (int64, bool) {
	if depth > 30 {
		return 0, false
	}
	if c, ok := v.(*ssa.Const); ok {
		if c.Value == nil {
			return 0, false
		}
		switch c.Value.Kind() {
		case constant.Int:
			if x, ok := constant.Int64Val(c.Value); ok {
				return x, true
			}
			if x, ok := constant.Uint64Val(c.Value); ok {
				return int64(x), true
			}
		case constant.Bool:
			if constant.BoolVal(c.Value) {
				return 1, true
			}
			return 0, true
		}
		return 0, false
	}
	if p, isPhi := v.(*ssa.Phi); isPhi && p.Comment != "&&" && p.Comment != "||" {
		if x, ok := a.over[p]; ok {
			return x, true
		}
		return a.loopFinal(p, false, t, depth)
	}
	if c, isCall := v.(*ssa.Call); isCall && len(c.Call.Args) == 1 {
		if bi, isB := c.Call.Value.(*ssa.Builtin); isB && bi.Name() == "len" {
			if p, isPhi := c.Call.Args[0].(*ssa.Phi); isPhi {
				if x, ok := a.overLen[p]; ok {
					return x, true
				}
				return a.loopFinal(p, true, t, depth)
			}
		}
	}
	if len(a.Tracked) > 0 {
		if _, isParam := v.(*ssa.Parameter); isParam || isCallLike(v) || isLoad(v) {
			s := a.B.Of(v, nil).String()
			for i, tr := range a.Tracked {
				if s == tr {
					return t[i], true
				}
			}
		}
	}
	if p, isParam := v.(*ssa.Parameter); isParam && a.B.Bind != nil {
		// a parameter bound to an argument term of the call under analysis: the value of that term over the tracked quantities
		if bt := a.B.Bind[p]; bt != nil {
			if r, ok := a.evalTerm(bt, t, 0); ok {
				return r, true
			}
		}
	}
	if a.Derived != nil && isCallLike(v) {
		if r, ok := a.Derived(a.B.Of(v, nil), t); ok {
			return r, true
		}
	}
	switch x := v.(type) {
	case *ssa.BinOp:
		// s == "" / s != "" is a test of len(s) when that length is tracked
		if x.Op == token.EQL || x.Op == token.NEQ {
			for _, pair := range [][2]ssa.Value{{x.X, x.Y}, {x.Y, x.X}} {
				if c, isC := pair[1].(*ssa.Const); isC && c.Value != nil && c.Value.Kind() == constant.String && constant.StringVal(c.Value) == "" {
					want := "len(" + a.B.Of(pair[0], nil).String() + ")"
					for i, tr := range a.Tracked {
						if tr == want {
							if (t[i] == 0) == (x.Op == token.EQL) {
								return 1, true
							}
							return 0, true
						}
					}
				}
			}
		}
		if x.Op == token.EQL || x.Op == token.NEQ {
			for _, pair := range [][2]ssa.Value{{x.X, x.Y}, {x.Y, x.X}} {
				if c, isC := pair[1].(*ssa.Const); isC && c.Value == nil {
					if isNil, ok := a.nilness(pair[0], t, depth+1); ok {
						if isNil == (x.Op == token.EQL) {
							return 1, true
						}
						return 0, true
					}
					return 0, false
				}
			}
		}
		l, ok1 := a.eval(x.X, t, depth+1)
		r, ok2 := a.eval(x.Y, t, depth+1)
		if !ok1 || !ok2 {
			return 0, false
		}
		res, ok := evalBin(x.Op, l, r, x.X.Type())
		if !ok {
			return 0, false
		}
		return wrapInt(res, x.Type()), true
	case *ssa.UnOp:
		o, ok := a.eval(x.X, t, depth+1)
		if !ok {
			return 0, false
		}
		switch x.Op {
		case token.NOT:
			if o == 0 {
				return 1, true
			}
			return 0, true
		case token.SUB:
			return wrapInt(-o, x.Type()), true
		case token.XOR:
			return wrapInt(^o, x.Type()), true
		}
		return 0, false
	case *ssa.Convert:
		if !isIntType(x.Type()) || !isIntType(x.X.Type()) {
			return 0, false
		}
		o, ok := a.eval(x.X, t, depth+1)
		if !ok {
			return 0, false
		}
		return wrapInt(o, x.Type()), true
	case *ssa.ChangeType:
		return a.eval(x.X, t, depth+1)
	case *ssa.Phi:
		// short-circuit && / || used as a value
		if x.Comment != "&&" && x.Comment != "||" {
			return 0, false
		}
		blk := x.Block()
		n := len(x.Edges)
		for i := 0; i < n-1; i++ {
			cv, ok := a.eval(x.Edges[i], t, depth+1)
			if !ok {
				return 0, false
			}
			pred := blk.Preds[i]
			ifi, isIf := pred.Instrs[len(pred.Instrs)-1].(*ssa.If)
			if !isIf {
				return 0, false
			}
			c, ok := a.eval(ifi.Cond, t, depth+1)
			if !ok {
				return 0, false
			}
			if (c != 0) == (pred.Succs[0] == blk) {
				return cv, true
			}
		}
		return a.eval(x.Edges[n-1], t, depth+1)
	case *ssa.Extract:
		if call, isCall := x.Tuple.(*ssa.Call); isCall {
			if sub, ret := a.exitFor(call, t); ret != nil && x.Index < len(ret.Results) {
				return sub.eval(ret.Results[x.Index], t, depth+1)
			}
		}
		return 0, false
	case *ssa.Call:
		callee := StaticRepoCallee(&x.Call)
		if callee != nil && len(callee.Blocks) > 1 {
			if sub, ret := a.exitFor(x, t); ret != nil && len(ret.Results) == 1 {
				return sub.eval(ret.Results[0], t, depth+1)
			}
			return 0, false
		}
		if callee == nil || len(callee.Blocks) != 1 {
			return 0, false
		}
		ret, ok := callee.Blocks[0].Instrs[len(callee.Blocks[0].Instrs)-1].(*ssa.Return)
		if !ok || len(ret.Results) != 1 {
			return 0, false
		}
		var args []int64
		for _, arg := range x.Call.Args {
			av, ok := a.eval(arg, t, depth+1)
			if !ok {
				return 0, false
			}
			args = append(args, av)
		}
		sub := &VSA{B: NewBuilder(a.B.P, callee)}
		for i := range callee.Params {
			sub.Tracked = append(sub.Tracked, (&Term{Op: "param", Idx: i}).String())
		}
		return sub.eval(ret.Results[0], args, depth+1)
	}
	return 0, false
}

// evalTerm evaluates an integer term built from constants, tracked quantities and arithmetic.
func (a *VSA) evalTerm(x *Term, t tuple, depth int) (int64, bool) {
	if x == nil || depth > 12 {
		return 0, false
	}
	if k, ok := x.Int(); ok {
		return k, true
	}
	s := x.String()
	for i, tr := range a.Tracked {
		if s == tr {
			return t[i], true
		}
	}
	if x.Op == "bin" && len(x.Args) == 2 {
		l, ok1 := a.evalTerm(x.Args[0], t, depth+1)
		r, ok2 := a.evalTerm(x.Args[1], t, depth+1)
		if !ok1 || !ok2 {
			return 0, false
		}
		switch x.Name {
		case "+":
			return l + r, true
		case "-":
			return l - r, true
		case "*":
			return l * r, true
		case "/":
			if r == 0 {
				return 0, false
			}
			return l / r, true
		case "%":
			if r == 0 {
				return 0, false
			}
			return l % r, true
		}
	}
	return 0, false
}

func isCallLike(v ssa.Value) bool {
	switch v.(type) {
	case *ssa.Call, *ssa.Extract, *ssa.Field, *ssa.Index, *ssa.Lookup:
		return true
	}
	return false
}

func isLoad(v ssa.Value) bool {
	u, ok := v.(*ssa.UnOp)
	return ok && u.Op == token.MUL
}

func isIntType(t types.Type) bool {
	b, ok := t.Underlying().(*types.Basic)
	return ok && b.Info()&types.IsInteger != 0
}

// wrapInt reduces x to the range of integer type t (64-bit int/uint for the platform-sized types).
func wrapInt(x int64, t types.Type) int64 {
	b, ok := t.Underlying().(*types.Basic)
	if !ok {
		return x
	}
	switch b.Kind() {
	case types.Int8:
		return int64(int8(x))
	case types.Int16:
		return int64(int16(x))
	case types.Int32:
		return int64(int32(x))
	case types.Uint8:
		return int64(uint8(x))
	case types.Uint16:
		return int64(uint16(x))
	case types.Uint32:
		return int64(uint32(x))
	}
	return x
}

func isUnsigned(t types.Type) bool {
	b, ok := t.Underlying().(*types.Basic)
	return ok && b.Info()&types.IsUnsigned != 0
}

func evalBin(op token.Token, l, r int64, operandType types.Type) (int64, bool) {
	b2i := func(b bool) (int64, bool) {
		if b {
			return 1, true
		}
		return 0, true
	}
	uns := isUnsigned(operandType)
	switch op {
	case token.ADD:
		return l + r, true
	case token.SUB:
		return l - r, true
	case token.MUL:
		return l * r, true
	case token.QUO:
		if r == 0 {
			return 0, false
		}
		if uns {
			return int64(uint64(l) / uint64(r)), true
		}
		return l / r, true
	case token.REM:
		if r == 0 {
			return 0, false
		}
		if uns {
			return int64(uint64(l) % uint64(r)), true
		}
		return l % r, true
	case token.AND:
		return l & r, true
	case token.OR:
		return l | r, true
	case token.XOR:
		return l ^ r, true
	case token.AND_NOT:
		return l &^ r, true
	case token.SHL:
		if r < 0 || r > 63 {
			return 0, r >= 0
		}
		return l << uint(r), true
	case token.SHR:
		if r < 0 {
			return 0, false
		}
		if r > 63 {
			r = 63
		}
		if uns {
			return int64(uint64(l) >> uint(r)), true
		}
		return l >> uint(r), true
	case token.EQL:
		return b2i(l == r)
	case token.NEQ:
		return b2i(l != r)
	case token.LSS:
		if uns {
			return b2i(uint64(l) < uint64(r))
		}
		return b2i(l < r)
	case token.LEQ:
		if uns {
			return b2i(uint64(l) <= uint64(r))
		}
		return b2i(l <= r)
	case token.GTR:
		if uns {
			return b2i(uint64(l) > uint64(r))
		}
		return b2i(l > r)
	case token.GEQ:
		if uns {
			return b2i(uint64(l) >= uint64(r))
		}
		return b2i(l >= r)
	}
	return 0, false
}

// SetOf collects component k of the tuples with the given indices.
func SetOf(tuples []tuple, idx map[int]bool, k int) map[int64]bool {
	out := map[int64]bool{}
	for i := range idx {
		out[tuples[i][k]] = true
	}
	return out
}

// Tuple exposes a tuple as a slice.
func TupleOf(tuples []tuple, i int) []int64 { return tuples[i] }

// initNonNil: the package-level variable g is written exactly once in the
// repository, by its package initializer, with the result of a constructor
// call or a boxed value (errors.New(…), &T{…}): it is never nil afterwards.
func (p *Prog) initNonNil(g *ssa.Global) bool {
	n, good := 0, false
	for _, fn := range p.RepoFuncs("") {
		for _, blk := range fn.Blocks {
			for _, ins := range blk.Instrs {
				st, ok := ins.(*ssa.Store)
				if !ok || st.Addr != g {
					continue
				}
				n++
				if fn.Synthetic == "package initializer" {
					switch v := st.Val.(type) {
					case *ssa.MakeInterface, *ssa.Alloc:
						good = true
					case *ssa.Call:
						if c := v.Call.StaticCallee(); c != nil && (c.String() == "errors.New" || c.String() == "fmt.Errorf") {
							good = true
						}
					}
				}
			}
		}
	}
	return n == 1 && good
}

// loopFinal evaluates, for a branch outside its loop, the value a counter phi (or the length a front-consumed cursor
// phi) has when the loop is left through its header: the loop's continue condition is replayed from the initial
// value, step by step, for the tuple at hand. It applies only when the header's exit is the only way from the loop to
// the block under evaluation (a break or any other exit must not reach it).
func (a *VSA) loopFinal(p *ssa.Phi, isLen bool, t tuple, depth int) (int64, bool) {
	if a.cur == nil || depth > 20 {
		return 0, false
	}
	var init ssa.Value
	var step int64
	if isLen {
		in, k, ok := cursorPhi(p)
		if !ok {
			return 0, false
		}
		kv, okk := new(big.Int).SetString(k, 10)
		if !okk || !kv.IsInt64() || kv.Int64() <= 0 {
			return 0, false
		}
		init, step = in, -kv.Int64()
	} else {
		in, st, ok := inductionPhi(p)
		if !ok {
			return 0, false
		}
		sv, oks := parseStep(st)
		if !oks || !sv.IsInt64() || sv.Sign() == 0 {
			return 0, false
		}
		init, step = in, sv.Int64()
	}
	header := p.Block()
	loop := map[*ssa.BasicBlock]bool{}
	for _, e := range BackEdges(a.B.Fn) {
		if e.To == header {
			for b := range LoopBlocks(e) {
				loop[b] = true
			}
		}
	}
	if len(loop) == 0 || loop[a.cur] || len(header.Instrs) == 0 {
		return 0, false
	}
	ifi, ok := header.Instrs[len(header.Instrs)-1].(*ssa.If)
	if !ok || loop[header.Succs[0]] == loop[header.Succs[1]] {
		return 0, false
	}
	for b := range loop {
		for _, w := range b.Succs {
			if !loop[w] && b != header && ReachableFrom(w, nil)[a.cur] {
				return 0, false
			}
		}
	}
	var x int64
	if isLen {
		s := "len(" + a.B.Of(init, nil).String() + ")"
		found := false
		for i, tr := range a.Tracked {
			if tr == s {
				x, found = t[i], true
			}
		}
		if !found {
			return 0, false
		}
	} else {
		v, ok := a.eval(init, t, depth+1)
		if !ok {
			return 0, false
		}
		x = v
	}
	if a.over == nil {
		a.over, a.overLen = map[*ssa.Phi]int64{}, map[*ssa.Phi]int64{}
	}
	m := a.over
	if isLen {
		m = a.overLen
	}
	if _, busy := m[p]; busy {
		return 0, false
	}
	defer delete(m, p)
	for n := 0; n < 4096; n++ {
		m[p] = x
		c, ok := a.eval(ifi.Cond, t, depth+1)
		if !ok {
			return 0, false
		}
		if (c != 0) != loop[header.Succs[0]] {
			return x, true
		}
		x += step
	}
	return 0, false
}
