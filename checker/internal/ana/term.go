package ana

import (
	"fmt"
	"go/constant"
	"go/token"
	"go/types"
	"math/big"
	"sort"
	"strconv"
	"strings"

	"golang.org/x/tools/go/ssa"
)

// Term is a canonical provenance term of an SSA value. It carries no local
// names and no positions in its printed form; V keeps the originating value for
// reporting only.
type Term struct {
	Op   string
	Name string
	Idx  int
	Args []*Term
	V    ssa.Value
	C    constant.Value // for Op=="const"
	str  string
}

func (t *Term) String() string {
	if t == nil {
		return "_"
	}
	if t.str != "" {
		return t.str
	}
	var sb strings.Builder
	switch t.Op {
	case "param":
		fmt.Fprintf(&sb, "p%d", t.Idx)
	case "const":
		sb.WriteString(t.Name)
	case "nil":
		sb.WriteString("nil")
	case "self":
		sb.WriteString("self")
	default:
		sb.WriteString(t.Op)
		if t.Name != "" {
			sb.WriteString("<" + t.Name + ">")
		}
		if t.Op == "ext" {
			fmt.Fprintf(&sb, "#%d", t.Idx)
		}
		if len(t.Args) > 0 {
			sb.WriteString("(")
			for i, a := range t.Args {
				if i > 0 {
					sb.WriteString(", ")
				}
				sb.WriteString(a.String())
			}
			sb.WriteString(")")
		}
	}
	t.str = sb.String()
	return t.str
}

// Is reports op (and optionally name) equality.
func (t *Term) Is(op string, name ...string) bool {
	if t == nil || t.Op != op {
		return false
	}
	return len(name) == 0 || t.Name == name[0]
}

// IsParam reports whether t is parameter i of the analysed entry point.
func (t *Term) IsParam(i int) bool { return t != nil && t.Op == "param" && t.Idx == i }

// Int returns the integer value of a constant term.
func (t *Term) Int() (int64, bool) {
	if t == nil || t.Op != "const" || t.C == nil {
		return 0, false
	}
	if t.C.Kind() != constant.Int {
		return 0, false
	}
	return constant.Int64Val(t.C)
}

// IsInt reports whether t is the integer constant v.
func (t *Term) IsInt(v int64) bool {
	x, ok := t.Int()
	return ok && x == v
}

// Str returns the value of a string constant term.
func (t *Term) Str() (string, bool) {
	if t == nil || t.Op != "const" || t.C == nil || t.C.Kind() != constant.String {
		return "", false
	}
	return constant.StringVal(t.C), true
}

// Arg returns argument i or nil.
func (t *Term) Arg(i int) *Term {
	if t == nil || i < 0 || i >= len(t.Args) {
		return nil
	}
	return t.Args[i]
}

// Walk visits t and all sub-terms.
func (t *Term) Walk(f func(*Term) bool) {
	if t == nil {
		return
	}
	if !f(t) {
		return
	}
	for _, a := range t.Args {
		a.Walk(f)
	}
}

// Contains reports whether some sub-term satisfies pred.
func (t *Term) Contains(pred func(*Term) bool) bool {
	found := false
	t.Walk(func(s *Term) bool {
		if found {
			return false
		}
		if pred(s) {
			found = true
			return false
		}
		return true
	})
	return found
}

// Builder builds terms for one function.
type Builder struct {
	P     *Prog
	Fn    *ssa.Function
	Bind  map[*ssa.Parameter]*Term // caller-side terms of the parameters (optional)
	memo  map[memoKey]*Term
	busy  map[memoKey]bool
	reach map[*ssa.BasicBlock]map[*ssa.BasicBlock]bool
	// MutSummary: repository callee -> parameter indices (receiver = 0) it may write through
	mut map[*ssa.Function]map[int]bool
}

type memoKey struct {
	v  ssa.Value
	at ssa.Instruction
}

// NewBuilder makes a builder for fn.
func NewBuilder(p *Prog, fn *ssa.Function) *Builder {
	return &Builder{P: p, Fn: fn, Bind: map[*ssa.Parameter]*Term{}, memo: map[memoKey]*Term{}, busy: map[memoKey]bool{}, mut: map[*ssa.Function]map[int]bool{}}
}

// CalleeName gives a stable, type-resolved name of the callee of a call.
func CalleeName(c *ssa.CallCommon) string {
	if c.IsInvoke() {
		return "(" + types.TypeString(c.Value.Type(), nil) + ")." + c.Method.Name()
	}
	switch f := c.Value.(type) {
	case *ssa.Builtin:
		return "builtin." + f.Name()
	case *ssa.Function:
		return fullName(f)
	case *ssa.MakeClosure:
		if fn, ok := f.Fn.(*ssa.Function); ok {
			return fullName(fn)
		}
	}
	return "dynamic"
}

func fullName(f *ssa.Function) string {
	if o := f.Origin(); o != nil {
		f = o
	}
	return f.String()
}

// InRepo2 reports whether a package-level variable belongs to the repository.
func InRepo2(g *ssa.Global) bool {
	return g.Pkg != nil && g.Pkg.Pkg != nil && strings.HasPrefix(g.Pkg.Pkg.Path(), Module)
}

// StaticRepoCallee returns the repository function statically called, or nil.
func StaticRepoCallee(c *ssa.CallCommon) *ssa.Function {
	f := c.StaticCallee()
	if InRepo(f) && f.Blocks != nil {
		return f
	}
	return nil
}

func isLibObjPkg(path string) bool {
	switch path {
	case "filippo.io/edwards25519", "math/big", "filippo.io/edwards25519/field":
		return true
	}
	return false
}

// returnsReceiver: library method on *T whose first result is *T.
func returnsReceiver(c *ssa.CallCommon) bool {
	f := c.StaticCallee()
	if f == nil || f.Signature.Recv() == nil || f.Pkg == nil || !isLibObjPkg(f.Pkg.Pkg.Path()) {
		return false
	}
	res := f.Signature.Results()
	if res.Len() == 0 {
		return false
	}
	return types.Identical(res.At(0).Type(), f.Signature.Recv().Type())
}

var pureRecv = map[string]bool{
	"Bytes": true, "Equal": true, "Sum": true, "Size": true, "BlockSize": true, "String": true,
	"Cmp": true, "Sign": true, "Bit": true, "BitLen": true, "Text": true, "Uint64": true, "Int64": true,
	"IsInt64": true, "IsUint64": true, "CmpAbs": true, "FillBytes": true, "ProbablyPrime": true,
	"TrailingZeroBits": true, "Append": true, "Format": true, "BytesMontgomery": true, "Len": true,
	"Params": true, "IsOnCurve": true, "Error": true, "Unwrap": true, "Done": true, "Err": true,
	"HashFunc": true, "Public": true, "IsPrivate": true, "HmacKey": true, "Name": true,
}

var mutIfaceMethods = map[string]bool{"Write": true, "WriteString": true, "WriteByte": true, "Reset": true, "Read": true, "Close": true, "Absorb": true, "Squeeze": true}

// mutArg lists (callee, operand index in CallCommon.Args) pairs that write
// through the operand. Operand indices count CallCommon.Args, i.e. the
// receiver of a static method call is operand 0.
var mutArg = map[string][]int{
	"builtin.copy":                             {0},
	"(*math/big.Int).FillBytes":                {1},
	"(encoding/binary.bigEndian).PutUint32":    {1},
	"(encoding/binary.bigEndian).PutUint64":    {1},
	"(encoding/binary.bigEndian).PutUint16":    {1},
	"(encoding/binary.littleEndian).PutUint32": {1},
	"(encoding/binary.littleEndian).PutUint64": {1},
	"(encoding/binary.littleEndian).PutUint16": {1},
	"io.ReadFull":         {1},
	"io.WriteString":      {0},
	"fmt.Fprintf":         {0},
	"fmt.Fprint":          {0},
	"fmt.Fprintln":        {0},
	"crypto/rand.Read":    {0},
	"encoding/hex.Encode": {0},
	"encoding/hex.Decode": {0},
}

// mayMutateOperand reports whether the call may write through operand i of
// c.Args (or the receiver of an invoke when i == -1).
func (b *Builder) MayMutateOperand(c *ssa.CallCommon, i int) bool {
	name := CalleeName(c)
	if _, ok := c.Value.(*ssa.Builtin); ok && !c.IsInvoke() {
		return name == "builtin.copy" && i == 0
	}
	if c.IsInvoke() {
		if i == -1 {
			// interface receivers: only the stateful stream-like methods mutate (hash.Hash, io.Writer/Reader, strings.Builder-like)
			return mutIfaceMethods[c.Method.Name()]
		}
		// interface methods: hash.Hash.Sum appends to its argument
		if c.Method.Name() == "Sum" || c.Method.Name() == "Read" {
			return true
		}
		return false
	}
	if idx, ok := mutArg[name]; ok {
		for _, k := range idx {
			if k == i {
				return true
			}
		}
		return false
	}
	f := c.StaticCallee()
	if f == nil {
		return true // dynamic call: unknown
	}
	if (InRepo(f) || analysedDep(f)) && f.Blocks != nil {
		return b.repoMut(f)[i]
	}
	if InRepo(f) && f.Blocks == nil {
		return true // assembly routine: any pointer argument may be written through
	}
	if f.Signature.Recv() != nil && i == 0 {
		if _, ok := f.Signature.Recv().Type().(*types.Pointer); ok {
			// a compiled *regexp.Regexp is immutable through its matching methods (documented safe for concurrent use)
			if typeName(f.Signature.Recv().Type()) == "*regexp.Regexp" && f.Name() != "Longest" {
				return false
			}
			return !pureRecv[f.Name()]
		}
		return false
	}
	if _, ok := c.Value.(*ssa.Builtin); ok {
		return false
	}
	return false // library functions read their arguments unless tabled above
}

// analysedDep: dependencies whose bodies are summarised like repository code (read-only).
func analysedDep(f *ssa.Function) bool {
	return f.Pkg != nil && strings.HasPrefix(f.Pkg.Pkg.Path(), "github.com/iotaledger/iota.go/")
}

// repoMut computes which parameters a repository function may write through.
func (b *Builder) repoMut(f *ssa.Function) map[int]bool {
	if m, ok := b.mut[f]; ok {
		return m
	}
	m := map[int]bool{}
	b.mut[f] = m // recursion: optimistic, then iterate once more
	for pass := 0; pass < 2; pass++ {
		sub := NewBuilder(b.P, f)
		sub.mut = b.mut
		for _, blk := range f.Blocks {
			for _, ins := range blk.Instrs {
				switch x := ins.(type) {
				case *ssa.Store:
					if pi := paramIndex(f, sub.Root(x.Addr)); pi >= 0 {
						m[pi] = true
					}
				case *ssa.MapUpdate:
					if pi := paramIndex(f, sub.Root(x.Map)); pi >= 0 {
						m[pi] = true
					}
				case ssa.CallInstruction:
					c := x.Common()
					if c.IsInvoke() {
						if pi := paramIndex(f, sub.Root(c.Value)); pi >= 0 && sub.MayMutateOperand(c, -1) {
							m[pi] = true
						}
					}
					for i, a := range c.Args {
						if pi := paramIndex(f, sub.Root(a)); pi >= 0 && sub.MayMutateOperand(c, i) {
							m[pi] = true
						}
					}
				}
			}
		}
	}
	return m
}

func paramIndex(f *ssa.Function, v ssa.Value) int {
	for i, p := range f.Params {
		if p == v {
			return i
		}
	}
	return -1
}

// Root follows address arithmetic, slicing, representation changes and
// returns-receiver calls back to the object a value denotes.
func (b *Builder) Root(v ssa.Value) ssa.Value {
	for depth := 0; depth < 64; depth++ {
		switch x := v.(type) {
		case *ssa.ChangeType:
			v = x.X
		case *ssa.MakeInterface:
			v = x.X
		case *ssa.Slice:
			v = x.X
		case *ssa.IndexAddr:
			v = x.X
		case *ssa.FieldAddr:
			v = x.X
		case *ssa.Extract:
			if c, ok := x.Tuple.(*ssa.Call); ok && x.Index == 0 && returnsReceiver(&c.Call) {
				v = c.Call.Args[0]
			} else {
				return v
			}
		case *ssa.Call:
			if returnsReceiver(&x.Call) {
				v = x.Call.Args[0]
			} else {
				return v
			}
		case *ssa.Phi:
			// a variable that only ever holds views of one object (dst = dst[5:])
			r := b.phiRoot(x, map[*ssa.Phi]bool{})
			if r == nil {
				return v
			}
			return r
		case *ssa.UnOp:
			// load of a pointer/interface/slice held in a local cell with a single store: look through
			if x.Op == token.MUL {
				if a, ok := x.X.(*ssa.Alloc); ok {
					if s := singleStore(a); s != nil {
						v = s.Val
						continue
					}
				}
			}
			return v
		default:
			return v
		}
	}
	return v
}

// phiRoot returns the common root of all incoming values of a phi (ignoring cycles), or nil.
func (b *Builder) phiRoot(p *ssa.Phi, seen map[*ssa.Phi]bool) ssa.Value {
	if seen[p] {
		return nil
	}
	seen[p] = true
	var root ssa.Value
	for _, e := range p.Edges {
		var r ssa.Value
		// peel views manually so that cycles through this phi are detected
		cur := e
		for {
			switch y := cur.(type) {
			case *ssa.Slice:
				cur = y.X
				continue
			case *ssa.ChangeType:
				cur = y.X
				continue
			}
			break
		}
		if q, ok := cur.(*ssa.Phi); ok {
			if seen[q] {
				continue
			}
			r = b.phiRoot(q, seen)
			if r == nil {
				return nil
			}
		} else {
			r = b.Root(cur)
		}
		if root != nil && r != root {
			return nil
		}
		root = r
	}
	return root
}

// singleStore returns the only store to a local cell that is otherwise only loaded.
func singleStore(a *ssa.Alloc) *ssa.Store {
	var st *ssa.Store
	for _, r := range *a.Referrers() {
		switch x := r.(type) {
		case *ssa.Store:
			if x.Addr != a || st != nil {
				return nil
			}
			st = x
		case *ssa.UnOp:
		case *ssa.DebugRef:
		default:
			return nil
		}
	}
	return st
}

func (b *Builder) isObjectType(t types.Type) bool {
	switch u := t.Underlying().(type) {
	case *types.Pointer:
		return true
	case *types.Interface:
		_ = u
		return true
	case *types.Slice:
		return true
	}
	return false
}

// Of returns the term of v as seen at the instruction that uses it.
// For object-like values (pointers, interface values, slices of local arrays)
// the term embeds the history of mutations that precede `at`.
func (b *Builder) Of(v ssa.Value, at ssa.Instruction) *Term {
	return b.of(v, at, 0)
}

func (b *Builder) mk(op, name string, v ssa.Value, args ...*Term) *Term {
	return &Term{Op: op, Name: name, V: v, Args: args}
}

func typeName(t types.Type) string {
	return types.TypeString(t, func(p *types.Package) string { return p.Path() })
}

func (b *Builder) of(v ssa.Value, at ssa.Instruction, depth int) *Term {
	if v == nil {
		return nil
	}
	if depth > 80 {
		return b.mk("deep", "", v)
	}
	k := memoKey{v, at}
	if t, ok := b.memo[k]; ok {
		return t
	}
	t := b.of1(v, at, depth)
	if !t.Contains(func(s *Term) bool { return s.Op == "cycle" || s.Op == "deep" }) {
		b.memo[k] = t
	}
	return t
}

func (b *Builder) of1(v ssa.Value, at ssa.Instruction, depth int) *Term {
	// object histories depend on `at`, so only position-independent values are memoised
	switch x := v.(type) {
	case *ssa.Parameter:
		if t, ok := b.Bind[x]; ok {
			// the caller's object, followed by what this function has done to it so far
			if b.isObjectType(x.Type()) && at != nil {
				if h := b.history(v, at, depth); len(h) > 0 {
					if t.Op == "obj" {
						return &Term{Op: "obj", V: v, Args: append(append([]*Term{}, t.Args...), h...)}
					}
					return &Term{Op: "obj", V: v, Args: append([]*Term{t}, h...)}
				}
			}
			return t
		}
		if b.Fn != nil {
			for i, p := range b.Fn.Params {
				if p == x {
					base := &Term{Op: "param", Idx: i, Name: x.Name(), V: v}
					if b.isObjectType(x.Type()) && at != nil {
						if h := b.history(v, at, depth); len(h) > 0 {
							return &Term{Op: "obj", V: v, Args: append([]*Term{base}, h...)}
						}
					}
					return base
				}
			}
		}
		return &Term{Op: "param", Idx: -1, Name: x.Name(), V: v}
	case *ssa.Const:
		if x.Value == nil {
			if isNillable(x.Type()) {
				return &Term{Op: "nil", V: v}
			}
			return &Term{Op: "const", Name: "zero<" + typeName(x.Type()) + ">", V: v}
		}
		return &Term{Op: "const", Name: x.Value.ExactString(), C: x.Value, V: v}
	case *ssa.Global:
		return &Term{Op: "global", Name: x.Pkg.Pkg.Path() + "." + x.Name(), V: v}
	case *ssa.Function:
		return &Term{Op: "func", Name: fullName(x), V: v}
	case *ssa.Builtin:
		return &Term{Op: "builtin", Name: x.Name(), V: v}
	case *ssa.FreeVar:
		return &Term{Op: "free", Name: x.Name(), V: v}
	}
	bk := memoKey{v, at}
	if b.busy[bk] {
		return b.mk("cycle", "", v)
	}
	b.busy[bk] = true
	defer delete(b.busy, bk)

	switch x := v.(type) {
	case *ssa.ChangeType:
		return b.of(x.X, at, depth+1)
	case *ssa.MakeInterface:
		return b.of(x.X, at, depth+1)
	case *ssa.ChangeInterface:
		return b.of(x.X, at, depth+1)
	case *ssa.Convert:
		inner := b.of(x.X, at, depth+1)
		if tn := typeName(x.Type()); (tn == "[]byte" || tn == "[]uint8") && inner.Op == "bin" && inner.Name == "+" {
			// []byte(s1 + s2 + …) is the concatenation of the parts, as is append(append(empty, s1...), s2...)
			var parts []*Term
			var flat func(t *Term)
			flat = func(t *Term) {
				if t.Op == "bin" && t.Name == "+" && len(t.Args) == 2 {
					flat(t.Args[0])
					flat(t.Args[1])
					return
				}
				parts = append(parts, t)
			}
			flat(inner)
			return b.mk("concat", "", v, parts...)
		}
		if y, isConv := x.X.(*ssa.Convert); isConv && inner.Op == "conv" && len(inner.Args) == 1 {
			// T(U(v)) for v of integer type T and U an integer type of the same width (int(uint(n))): wrap-around both ways, v
			b1, _, ok1 := intKind(x.Type())
			b2, _, ok2 := intKind(y.Type())
			if ok1 && ok2 && b1 == b2 && types.Identical(x.Type(), y.X.Type()) {
				return inner.Args[0]
			}
		}
		return b.mk("conv", typeName(x.Type()), v, inner)
	case *ssa.SliceToArrayPointer:
		return b.mk("conv", typeName(x.Type()), v, b.of(x.X, at, depth+1))
	case *ssa.MultiConvert:
		return b.mk("conv", typeName(x.Type()), v, b.of(x.X, at, depth+1))
	case *ssa.BinOp:
		l, r := b.of(x.X, at, depth+1), b.of(x.Y, at, depth+1)
		op := x.Op.String()
		// constants to the right for commutative/comparison operators
		if l.Op == "const" && r.Op != "const" && !(op == "+" && !isIntType(x.X.Type())) {
			if sw, ok := swapOp[op]; ok {
				l, r, op = r, l, sw
			}
		}
		return canonBin(b.mk("bin", op, v, l, r))
	case *ssa.UnOp:
		if x.Op == token.MUL {
			return b.load(x, at, depth)
		}
		return b.mk("un", x.Op.String(), v, b.of(x.X, at, depth+1))
	case *ssa.Phi:
		if t := b.logicalPhi(x, at, depth); t != nil {
			return t
		}
		if init, step, ok := inductionPhi(x); ok {
			return b.mk("ind", step, v, b.of(init, at, depth+1))
		}
		if t := b.trimPhi(x, at, depth); t != nil {
			return t
		}
		if init, k, ok := cursorPhi(x); ok {
			// rest = rest[k:] per iteration: the view of the initial slice / string from the k-step counter on
			lo := &Term{Op: "ind", Name: "+" + k, Args: []*Term{{Op: "const", Name: "0", C: constant.MakeInt64(0)}}}
			return canonSlice(b.mk("slice", "", v, b.of(init, at, depth+1), lo, &Term{Op: "none"}))
		}
		var args []*Term
		seen := map[string]bool{}
		for _, e := range x.Edges {
			t := b.of(e, at, depth+1)
			if !seen[t.String()] {
				seen[t.String()] = true
				args = append(args, t)
			}
		}
		sort.Slice(args, func(i, j int) bool { return args[i].String() < args[j].String() })
		if len(args) == 1 && args[0].Op != "cycle" {
			return args[0]
		}
		return b.mk("phi", "", v, args...)
	case *ssa.Extract:
		if c, ok := x.Tuple.(*ssa.Call); ok && x.Index == 0 && returnsReceiver(&c.Call) {
			return b.objAt(v, at, depth)
		}
		base := &Term{Op: "ext", Idx: x.Index, V: v, Args: []*Term{b.of(x.Tuple, at, depth+1)}}
		return b.withHistory(base, v, at, depth)
	case *ssa.Call:
		if returnsReceiver(&x.Call) {
			return b.objAt(v, at, depth)
		}
		return b.withHistory(b.callTerm(x, &x.Call, depth), v, at, depth)
	case *ssa.Alloc:
		return b.objAt(v, at, depth)
	case *ssa.Slice:
		base := b.of(x.X, at, depth+1)
		lo, hi := b.ofOpt(x.Low, at, depth), b.ofOpt(x.High, at, depth)
		if x.Low == nil {
			lo = &Term{Op: "const", Name: "0", C: constant.MakeInt64(0)}
		}
		args := []*Term{base, lo, hi}
		if x.Max != nil {
			args = append(args, b.of(x.Max, at, depth+1))
		}
		return canonSlice(b.mk("slice", "", v, args...))
	case *ssa.IndexAddr:
		xt, it := b.of(x.X, at, depth+1), b.of(x.Index, at, depth+1)
		if _, isCur := x.X.(*ssa.Phi); isCur && xt.Op == "slice" && len(xt.Args) == 3 && xt.Args[1].Op == "ind" {
			// an element of a front-consumed view: rest[j] is init[i+j]
			return b.mk("iaddr", "", v, xt.Args[0], canonBin(&Term{Op: "bin", Name: "+", V: x.Index, Args: []*Term{xt.Args[1], it}}))
		}
		return b.mk("iaddr", "", v, xt, it)
	case *ssa.Index:
		xt := b.of(x.X, at, depth+1)
		if xt.Op == "load" && len(xt.Args) == 1 {
			if _, isArr := x.X.Type().Underlying().(*types.Array); isArr {
				// (*p)[i] on an array value loaded from p is p[i] (a `for i, v := range arr` copy of an unmodified array)
				return b.mk("load", "", v, b.mk("iaddr", "", nil, xt.Args[0], b.of(x.Index, at, depth+1)))
			}
		}
		if xt.Op == "slice" && len(xt.Args) == 3 {
			if bt, isB := x.X.Type().Underlying().(*types.Basic); isB && bt.Info()&types.IsString != 0 {
				// s[lo:hi][k] is s[lo+k] (a named sub-string indexed instead of the string itself)
				it := b.of(x.Index, at, depth+1)
				if lo := xt.Args[1]; lo.IsInt(0) {
					return b.mk("index", "", v, xt.Args[0], it)
				} else {
					return b.mk("index", "", v, xt.Args[0], canonBin(&Term{Op: "bin", Name: "+", V: x.Index, Args: []*Term{lo, it}}))
				}
			}
		}
		return b.mk("index", "", v, xt, b.of(x.Index, at, depth+1))
	case *ssa.Lookup:
		return b.mk("lookup", "", v, b.of(x.X, at, depth+1), b.of(x.Index, at, depth+1))
	case *ssa.FieldAddr:
		return b.mk("faddr", fieldName(x.X.Type(), x.Field), v, b.of(x.X, at, depth+1))
	case *ssa.Field:
		return b.mk("field", fieldName(x.X.Type(), x.Field), v, b.of(x.X, at, depth+1))
	case *ssa.MakeSlice:
		return b.withHistory(b.mk("makeslice", typeName(x.Type()), v, b.of(x.Len, at, depth+1), b.of(x.Cap, at, depth+1)), v, at, depth)
	case *ssa.MakeMap:
		return b.mk("makemap", typeName(x.Type()), v)
	case *ssa.MakeChan:
		return b.mk("makechan", typeName(x.Type()), v, b.of(x.Size, at, depth+1))
	case *ssa.MakeClosure:
		var args []*Term
		for _, bd := range x.Bindings {
			args = append(args, b.of(bd, at, depth+1))
		}
		return b.mk("closure", fullName(x.Fn.(*ssa.Function)), v, args...)
	case *ssa.TypeAssert:
		return b.mk("assert", typeName(x.AssertedType), v, b.of(x.X, at, depth+1))
	case *ssa.Range:
		return b.mk("range", "", v, b.of(x.X, at, depth+1))
	case *ssa.Next:
		return b.mk("next", "", v, b.of(x.Iter, at, depth+1))
	case *ssa.Select:
		return b.mk("select", "", v)
	}
	return b.mk("unknown", fmt.Sprintf("%T", v), v)
}

// logicalPhi recognises the phi go/ssa builds for a short-circuit `a && b` /
// `a || b` used as a value (e.g. a case of a tagless switch) and returns
// and(a, b, …) / or(a, b, …); nil for any other phi.
func (b *Builder) logicalPhi(x *ssa.Phi, at ssa.Instruction, depth int) *Term {
	if x.Comment != "&&" && x.Comment != "||" || len(x.Edges) < 2 {
		return nil
	}
	isAnd := x.Comment == "&&"
	blk := x.Block()
	var ops []*Term
	n := len(x.Edges)
	for i := 0; i < n-1; i++ {
		c, ok := x.Edges[i].(*ssa.Const)
		if !ok || c.Value == nil || c.Value.Kind() != constant.Bool || constant.BoolVal(c.Value) == isAnd {
			return nil
		}
		pred := blk.Preds[i]
		ifi, ok := pred.Instrs[len(pred.Instrs)-1].(*ssa.If)
		if !ok {
			return nil
		}
		k := 0
		if pred.Succs[1] == blk {
			k = 1
		} else if pred.Succs[0] != blk {
			return nil
		}
		lit := b.of(ifi.Cond, at, depth+1)
		// short-circuit to this phi happens when cond == (k==0); for && the operand is then false, for || true
		operandTrueWhenCond := (k == 0) != isAnd // && : operand false on short-circuit
		if !operandTrueWhenCond {
			lit = Negate(lit)
		}
		for lit.Op == "un" && lit.Name == "!" && len(lit.Args) == 1 && lit.Args[0].Op == "un" && lit.Args[0].Name == "!" {
			lit = lit.Args[0].Args[0]
		}
		ops = append(ops, lit)
	}
	ops = append(ops, b.of(x.Edges[n-1], at, depth+1))
	name := "or"
	if isAnd {
		name = "and"
	}
	// flatten
	var flat []*Term
	for _, o := range ops {
		if o.Op == name {
			flat = append(flat, o.Args...)
		} else {
			flat = append(flat, o)
		}
	}
	return b.mk(name, "", x, flat...)
}

// trimPhi recognises `if strings.HasPrefix(x, c) { x = x[len(c):] }` (c a constant string): the merged value is
// strings.TrimPrefix(x, c), which does exactly that. The phi must merge x from the testing block and the slice from
// the test's true successor, a block with that one predecessor.
func (b *Builder) trimPhi(p *ssa.Phi, at ssa.Instruction, depth int) *Term {
	if len(p.Edges) != 2 {
		return nil
	}
	blk := p.Block()
	for i := 0; i < 2; i++ {
		sl, ok := p.Edges[i].(*ssa.Slice)
		if !ok || sl.X != p.Edges[1-i] || sl.High != nil || sl.Max != nil || sl.Low == nil {
			continue
		}
		lo, ok := sl.Low.(*ssa.Const)
		if !ok || lo.Value == nil || lo.Value.Kind() != constant.Int {
			continue
		}
		test, taken := blk.Preds[1-i], blk.Preds[i]
		if sl.Block() != taken || len(taken.Preds) != 1 || taken.Preds[0] != test || len(test.Succs) != 2 || test.Succs[0] != taken || test.Succs[1] != blk {
			continue
		}
		ifi, ok := test.Instrs[len(test.Instrs)-1].(*ssa.If)
		if !ok {
			continue
		}
		call, ok := ifi.Cond.(*ssa.Call)
		if !ok || CalleeName(&call.Call) != "strings.HasPrefix" || len(call.Call.Args) != 2 || call.Call.Args[0] != sl.X {
			continue
		}
		c, ok := call.Call.Args[1].(*ssa.Const)
		if !ok || c.Value == nil || c.Value.Kind() != constant.String {
			continue
		}
		if n, exact := constant.Int64Val(lo.Value); !exact || n != int64(len(constant.StringVal(c.Value))) {
			continue
		}
		return b.mk("call", "strings.TrimPrefix", p, b.of(sl.X, at, depth+1), b.of(c, at, depth+1))
	}
	return nil
}

// inductionPhi recognises phi(init, phi±c): a counter with constant step.
// cursorPhi: p = phi(init, p[k:]) with a positive constant k — a slice or string consumed from the front.
func cursorPhi(p *ssa.Phi) (init ssa.Value, k string, ok bool) {
	if len(p.Edges) != 2 {
		return nil, "", false
	}
	for i, e := range p.Edges {
		sl, isSl := e.(*ssa.Slice)
		if !isSl || sl.X != ssa.Value(p) || sl.High != nil || sl.Max != nil || sl.Low == nil {
			continue
		}
		c, isC := sl.Low.(*ssa.Const)
		if !isC || c.Value == nil || c.Value.Kind() != constant.Int || constant.Sign(c.Value) <= 0 {
			continue
		}
		other := p.Edges[1-i]
		if other == ssa.Value(p) {
			return nil, "", false
		}
		if q, isPhi := other.(*ssa.Phi); isPhi && q == p {
			return nil, "", false
		}
		return other, c.Value.ExactString(), true
	}
	return nil, "", false
}

func inductionPhi(p *ssa.Phi) (init ssa.Value, step string, ok bool) {
	if len(p.Edges) < 2 {
		return nil, "", false
	}
	var inc *ssa.BinOp
	for _, e := range p.Edges {
		bo, isBin := e.(*ssa.BinOp)
		if !isBin || (bo.Op != token.ADD && bo.Op != token.SUB) || bo.X != p {
			continue
		}
		if c, isC := bo.Y.(*ssa.Const); isC && c.Value != nil {
			inc = bo
			break
		}
	}
	if inc == nil {
		return nil, "", false
	}
	for _, e := range p.Edges {
		if e == ssa.Value(inc) {
			continue
		}
		if init != nil && init != e {
			return nil, "", false
		}
		init = e
	}
	if init == nil {
		return nil, "", false
	}
	return init, inc.Op.String() + inc.Y.(*ssa.Const).Value.ExactString(), true
}

var swapOp = map[string]string{
	"==": "==", "!=": "!=", "<": ">", ">": "<", "<=": ">=", ">=": "<=",
	"+": "+", "*": "*", "&": "&", "|": "|", "^": "^",
}

func isNillable(t types.Type) bool {
	switch t.Underlying().(type) {
	case *types.Pointer, *types.Interface, *types.Slice, *types.Map, *types.Chan, *types.Signature:
		return true
	}
	if b, ok := t.Underlying().(*types.Basic); ok && b.Kind() == types.UntypedNil {
		return true
	}
	return false
}

// FieldName is the name terms use for field i of struct type t (positional for unexported repository fields).
func FieldName(t types.Type, i int) string { return fieldName(t, i) }

func fieldName(t types.Type, i int) string {
	if p, ok := t.Underlying().(*types.Pointer); ok {
		t = p.Elem()
	}
	if s, ok := t.Underlying().(*types.Struct); ok && i < s.NumFields() {
		f := s.Field(i)
		// unexported fields of repository types are named by position: renaming one is not a change of the program
		if !f.Exported() && f.Pkg() != nil && strings.HasPrefix(f.Pkg().Path(), Module) {
			return "#" + fmt.Sprint(i)
		}
		return f.Name()
	}
	return fmt.Sprint(i)
}

func (b *Builder) ofOpt(v ssa.Value, at ssa.Instruction, depth int) *Term {
	if v == nil {
		return &Term{Op: "none"}
	}
	return b.of(v, at, depth+1)
}

func (b *Builder) callTerm(v ssa.Value, c *ssa.CallCommon, depth int) *Term {
	return b.callTermAt(v, c, nil, depth)
}

// callTermAt: at is the instruction itself when the call has no value (go / defer statements).
func (b *Builder) callTermAt(v ssa.Value, c *ssa.CallCommon, at ssa.Instruction, depth int) *Term {
	if cv, isCall := v.(*ssa.Call); isCall && cv == nil {
		v = nil
	}
	if ins, ok := v.(ssa.Instruction); ok && at == nil {
		at = ins
	}
	name := CalleeName(c)
	var args []*Term
	if c.IsInvoke() {
		args = append(args, b.of(c.Value, at, depth+1))
	}
	for _, a := range c.Args {
		args = append(args, b.of(a, at, depth+1))
	}
	if name == "builtin.len" && len(args) == 1 && len(c.Args) == 1 {
		if _, isCur := c.Args[0].(*ssa.Phi); isCur && args[0].Op == "slice" && len(args[0].Args) == 3 && args[0].Args[1].Op == "ind" && args[0].Args[2].Op == "none" {
			// len(rest) of a front-consumed view is len(init) - i
			return canonBin(&Term{Op: "bin", Name: "-", V: v, Args: []*Term{{Op: "len", Args: []*Term{args[0].Args[0]}}, args[0].Args[1]}})
		}
	}
	if name == "builtin.len" && len(args) == 1 {
		// len(make([]T, n, …)) is n, whatever was stored into it since
		m := args[0]
		if m.Op == "obj" && len(m.Args) > 0 {
			m = m.Args[0]
		}
		if m.Op == "makeslice" && len(m.Args) >= 1 {
			return m.Args[0]
		}
	}
	if name == "builtin.len" || name == "builtin.cap" {
		if name == "builtin.len" && len(args) == 1 && args[0].Op == "conv" && (args[0].Name == "[]byte" || args[0].Name == "[]uint8" || args[0].Name == "string") && len(args[0].Args) == 1 {
			if tt := termType(args[0].Args[0]); tt != nil {
				if tn := typeName(tt.Underlying()); tn == "string" || tn == "[]byte" || tn == "[]uint8" {
					args = []*Term{args[0].Args[0]} // len([]byte(s)) == len(s)
				}
			}
		}
		return &Term{Op: strings.TrimPrefix(name, "builtin."), V: v, Args: args}
	}
	if name == "dynamic" {
		fv := b.of(c.Value, at, depth+1)
		if fv.Op == "func" && fv.Name != "" && len(fv.Args) == 0 {
			// a function-typed parameter bound to a named function at the call site under analysis
			name = fv.Name
		} else {
			args = append([]*Term{fv}, args...)
		}
	}
	if name == "builtin.append" && len(args) == 2 && (typeName(v.Type()) == "[]byte" || typeName(v.Type()) == "[]uint8") {
		// the value of append(a, b...) on bytes is the concatenation a ‖ b, however a was built
		// bytes of a string are the string: []byte(s) as an operand of a concatenation is s
		unconv := func(t *Term) *Term {
			if t.Op == "conv" && (t.Name == "[]byte" || t.Name == "[]uint8") && len(t.Args) == 1 {
				if tt := termType(t.Args[0]); tt != nil && typeName(tt.Underlying()) == "string" {
					return t.Args[0]
				}
				if t.Args[0].Op == "const" {
					return t.Args[0]
				}
			}
			return t
		}
		args[0], args[1] = unconv(args[0]), unconv(args[1])
		base := args[0]
		// append(make([]byte, n-len(x), …), x...) is x left-padded with zeros to n bytes (as FillBytes does)
		if base.Op == "makeslice" && len(base.Args) == 2 && base.Args[0].Op == "bin" && base.Args[0].Name == "-" && len(base.Args[0].Args) == 2 {
			if l := base.Args[0].Args[1]; l.Op == "len" && len(l.Args) == 1 && l.Args[0].String() == args[1].String() {
				return &Term{Op: "call", Name: "leftpad", V: v, Args: []*Term{args[1], base.Args[0].Args[0]}}
			}
		}
		switch {
		case base.Op == "concat":
			return &Term{Op: "concat", V: v, Args: append(append([]*Term{}, base.Args...), args[1])}
		case isEmptySlice(base):
			return &Term{Op: "concat", V: v, Args: []*Term{args[1]}}
		default:
			return &Term{Op: "concat", V: v, Args: []*Term{base, args[1]}}
		}
	}
	return canonCall(&Term{Op: "call", Name: name, V: v, Args: args})
}

// canonCall maps standard-library calls that are equal by their documentation
// to one representative (the spelling of the pinned tree).
func canonCall(t *Term) *Term {
	arg := func(i int) *Term {
		if i < len(t.Args) {
			return t.Args[i]
		}
		return nil
	}
	switch t.Name {
	case "(*strings.Builder).WriteString", "(*bytes.Buffer).WriteString":
		// writing a one-byte constant string is writing that byte
		if a := arg(1); a != nil && a.Op == "const" {
			if sv, ok := a.Str(); ok && len(sv) == 1 && sv[0] < 0x80 {
				return &Term{Op: "call", Name: strings.Replace(t.Name, "WriteString", "WriteByte", 1), V: t.V, Args: []*Term{t.Args[0], mkConst(big.NewInt(int64(sv[0])), nil)}}
			}
		}
	case "builtin.copy":
		// copy moves min(len(dst), len(src)) elements: with both lengths constant the longer operand is cut to that
		if d, sr := arg(0), arg(1); d != nil && sr != nil {
			dlo, dn, ok1 := constSliceLen(d)
			slo, sn, ok2 := constSliceLen(sr)
			if ok1 && ok2 && dn != sn {
				n := dn
				if sn < n {
					n = sn
				}
				nd, ns := d, sr
				if dn > n {
					nd = &Term{Op: "slice", V: d.V, Args: []*Term{d.Args[0], d.Args[1], mkConst(big.NewInt(dlo+n), nil)}}
				}
				if sn > n {
					ns = &Term{Op: "slice", V: sr.V, Args: []*Term{sr.Args[0], sr.Args[1], mkConst(big.NewInt(slo+n), nil)}}
				}
				return &Term{Op: "call", Name: t.Name, V: t.V, Args: []*Term{nd, ns}}
			}
		}
	case "strings.LastIndexByte", "strings.IndexByte", "bytes.IndexByte", "bytes.LastIndexByte":
		// IndexByte(s, c) == Index(s, string(c)) for an ASCII constant c
		if c, ok := isConstInt(arg(1)); ok && c.Sign() >= 0 && c.Cmp(big.NewInt(128)) < 0 && strings.HasPrefix(t.Name, "strings.") {
			lit := constant.MakeString(string(rune(c.Int64())))
			nm := strings.TrimSuffix(t.Name, "Byte")
			return &Term{Op: "call", Name: nm, V: t.V, Args: []*Term{t.Args[0], {Op: "const", Name: lit.ExactString(), C: lit}}}
		}
	case "(hash.Hash).Sum":
		// Sum(b) appends to b: with an empty b the result is the digest, as with nil
		if a := arg(1); a != nil && isEmptySlice(a) {
			return &Term{Op: "call", Name: t.Name, V: t.V, Args: []*Term{t.Args[0], {Op: "nil"}}}
		}
	case "(*math/big.Int).FillBytes":
		// x.FillBytes(make([]byte, n)) is x.Bytes() left-padded with zeros to n bytes (it panics when x does not fit)
		if buf := arg(1); buf != nil {
			bs := buf
			if bs.Op == "obj" && len(bs.Args) > 0 {
				bs = bs.Args[0]
			}
			if bs.Op == "makeslice" && len(bs.Args) == 2 && bs.Args[0].String() == bs.Args[1].String() {
				return &Term{Op: "call", Name: "leftpad", V: t.V, Args: []*Term{{Op: "call", Name: "(*math/big.Int).Bytes", Args: []*Term{t.Args[0]}}, bs.Args[0]}}
			}
		}
	case "(*math/big.Int).SetUint64":
		// SetUint64(c) and SetInt64(c) set the same value for a non-negative constant c
		if c, ok := isConstInt(arg(1)); ok && c.Sign() >= 0 && c.IsInt64() {
			return &Term{Op: "call", Name: "(*math/big.Int).SetInt64", V: t.V, Args: t.Args}
		}
	case "math/big.NewInt":
		// big.NewInt(0) is the zero value, like new(big.Int)
		if c, ok := isConstInt(arg(0)); ok && c.Sign() == 0 {
			return &Term{Op: "alloc", Name: "math/big.Int", V: t.V}
		}
	case "fmt.Fprintf":
		// fmt.Fprintf(&sb, f, args…) on a strings.Builder appends fmt.Sprintf(f, args…)
		if w := arg(0); w != nil && w.Op == "self" && len(t.Args) >= 2 {
			return &Term{Op: "call", Name: "(*strings.Builder).WriteString", V: t.V, Args: []*Term{w, {Op: "call", Name: "fmt.Sprintf", Args: t.Args[1:]}}}
		}
	case "strconv.FormatInt":
		if ten, ok := isConstInt(arg(1)); ok && ten.Cmp(big.NewInt(10)) == 0 {
			if a := arg(0); a.Op == "conv" && len(a.Args) == 1 {
				if bits, signed, ok := intKind(termType(a.Args[0])); ok && signed && bits == 0 {
					return &Term{Op: "call", Name: "strconv.Itoa", V: t.V, Args: []*Term{a.Args[0]}}
				}
			}
		}
	case "strings.FieldsFunc":
		if f := arg(1); f != nil && f.Op == "func" && f.Name == "unicode.IsSpace" {
			return &Term{Op: "call", Name: "strings.Fields", V: t.V, Args: []*Term{t.Args[0]}}
		}
	}
	return t
}

// digestSizes: constructors of fixed-size hashes.
var digestSizes = map[string]int64{"crypto/sha512.New": 64, "crypto/sha256.New": 32, "crypto/sha1.New": 20, "crypto/sha512.New512_256": 32, "crypto/sha512.New384": 48}

// canonSlice: `var d [N]byte; h.Sum(d[:0]); d[:]` holds the digest exactly like
// h.Sum(nil) when N is the digest size of h; the whole-array slice of such a
// buffer becomes call<(hash.Hash).Sum>(h, nil).
// arrayAllocLen: t is alloc<[N]T> (a local array or the backing store of make([]T, N)).
func arrayAllocLen(t *Term) (int64, bool) {
	if t.Op != "alloc" || !strings.HasPrefix(t.Name, "[") {
		return 0, false
	}
	i := strings.Index(t.Name, "]")
	if i < 2 {
		return 0, false
	}
	n, err := strconv.ParseInt(t.Name[1:i], 10, 64)
	return n, err == nil
}

// constSliceLen: the length of slice(x, lo, hi) with constant bounds.
func constSliceLen(t *Term) (lo, n int64, ok bool) {
	if t.Op != "slice" || len(t.Args) != 3 {
		return 0, 0, false
	}
	l, ok1 := isConstInt(t.Args[1])
	h, ok2 := isConstInt(t.Args[2])
	if !ok1 || !ok2 || !l.IsInt64() || !h.IsInt64() || h.Int64() < l.Int64() {
		return 0, 0, false
	}
	return l.Int64(), h.Int64() - l.Int64(), true
}

func canonSlice(t *Term) *Term {
	if len(t.Args) != 3 {
		return t
	}
	// x[a:h1][b:h2] is x[a+b : h1] (h2 absent) or x[a+b : a+h2]
	if in := t.Args[0]; in.Op == "slice" && len(in.Args) == 3 {
		add := func(x, y *Term) *Term {
			if c, ok := isConstInt(x); ok && c.Sign() == 0 {
				return y
			}
			if c, ok := isConstInt(y); ok && c.Sign() == 0 {
				return x
			}
			v := x.V
			if v == nil {
				v = y.V
			}
			return canonBin(&Term{Op: "bin", Name: "+", V: v, Args: []*Term{x, y}})
		}
		lo := add(in.Args[1], t.Args[1])
		hi := in.Args[2]
		if t.Args[2].Op != "none" {
			hi = add(in.Args[1], t.Args[2])
		}
		return canonSlice(&Term{Op: "slice", V: t.V, Args: []*Term{in.Args[0], lo, hi}})
	}
	base := t.Args[0]
	// x[lo:len(x)] is x[lo:]
	if h := t.Args[2]; h.Op == "len" && len(h.Args) == 1 && h.Args[0].String() == base.String() {
		t = &Term{Op: "slice", V: t.V, Args: []*Term{t.Args[0], t.Args[1], {Op: "none"}}}
	}
	// a[lo:N] of an array [N]T is a[lo:]
	if hi, isC := isConstInt(t.Args[2]); isC {
		root := base
		if root.Op == "obj" && len(root.Args) > 0 {
			root = root.Args[0]
		}
		if n, ok := arrayAllocLen(root); ok && hi.IsInt64() && hi.Int64() == n {
			t = &Term{Op: "slice", V: t.V, Args: []*Term{t.Args[0], t.Args[1], {Op: "none"}}}
		}
	}
	if base.Op != "obj" || len(base.Args) != 2 || base.Args[0].Op != "alloc" {
		return t
	}
	ev := base.Args[1]
	if ev.Op != "call" || ev.Name != "(hash.Hash).Sum" || len(ev.Args) != 2 {
		return t
	}
	dst := ev.Args[1]
	if dst.Op != "nil" { // (an empty slice of the array itself is already canonicalised to nil in the event)
		if dst.Op != "slice" || len(dst.Args) != 3 || dst.Args[0].Op != "self" {
			return t
		}
		if lo, ok := isConstInt(dst.Args[1]); !ok || lo.Sign() != 0 {
			return t
		}
		if hi, ok := isConstInt(dst.Args[2]); !ok || hi.Sign() != 0 {
			return t
		}
	}
	h := ev.Args[0]
	ctor := h
	if ctor.Op == "obj" && len(ctor.Args) > 0 {
		ctor = ctor.Args[0]
	}
	n, known := digestSizes[ctor.Name]
	if ctor.Op != "call" || !known || base.Args[0].Name != fmt.Sprintf("[%d]byte", n) && base.Args[0].Name != fmt.Sprintf("[%d]uint8", n) {
		return t
	}
	if lo, ok := isConstInt(t.Args[1]); !ok || lo.Sign() != 0 {
		return t
	}
	if hi, ok := isConstInt(t.Args[2]); t.Args[2].Op != "none" && (!ok || hi.Int64() != n) {
		return t
	}
	return &Term{Op: "call", Name: "(hash.Hash).Sum", V: ev.V, Args: []*Term{h, {Op: "nil"}}}
}

func isEmptySlice(t *Term) bool {
	base := t
	if base.Op == "obj" && len(base.Args) > 0 {
		base = base.Args[0]
	}
	switch base.Op {
	case "makeslice":
		if n, ok := isConstInt(base.Args[0]); ok && n.Sign() == 0 {
			return true
		}
	case "slice":
		if len(base.Args) >= 3 {
			if hi, ok := isConstInt(base.Args[2]); ok && hi.Sign() == 0 {
				return true
			}
		}
	}
	return false
}

// CallTermAt is the term of a call instruction (also for go/defer).
func (b *Builder) CallTermAt(ci ssa.CallInstruction) *Term {
	return b.callTermAt(ci.Value(), ci.Common(), ci, 0)
}

// ConstGlobal returns the initial value term of an unexported package-level
// variable of the repository that is written exactly once, by its package
// initialiser with a value built from constants, and is never the target of a
// store or possibly-mutating call elsewhere — a named constant in all but
// syntax. Loads of such a variable are replaced by that term, so renaming it,
// or turning it into a const / literal, does not change any term. nil otherwise.
func (p *Prog) ConstGlobal(g *ssa.Global) *Term {
	if !p.cgDone {
		p.cgDone = true
		p.constGlobals = map[*ssa.Global]*Term{}
		type info struct {
			initStore *ssa.Store
			initFn    *ssa.Function
			writes    int
		}
		infos := map[*ssa.Global]*info{}
		for _, fn := range p.RepoFuncs("") {
			fb := NewBuilder(p, fn)
			isInit := fn.Synthetic == "package initializer"
			for _, blk := range fn.Blocks {
				for _, ins := range blk.Instrs {
					switch x := ins.(type) {
					case *ssa.Store:
						root := fb.Root(x.Addr)
						gg, ok := root.(*ssa.Global)
						if !ok {
							if ld, isLd := root.(*ssa.UnOp); isLd && ld.Op == token.MUL {
								gg, ok = fb.Root(ld.X).(*ssa.Global)
							}
						}
						if !ok {
							continue
						}
						in := infos[gg]
						if in == nil {
							in = &info{}
							infos[gg] = in
						}
						in.writes++
						if isInit && x.Addr == ssa.Value(gg) {
							in.initStore, in.initFn = x, fn
						}
					case ssa.CallInstruction:
						cc := x.Common()
						for i, a := range cc.Args {
							root := fb.Root(a)
							gg, ok := root.(*ssa.Global)
							if !ok {
								if ld, isLd := root.(*ssa.UnOp); isLd && ld.Op == token.MUL {
									gg, ok = fb.Root(ld.X).(*ssa.Global)
								}
							}
							if ok && fb.MayMutateOperand(cc, i) {
								in := infos[gg]
								if in == nil {
									in = &info{}
									infos[gg] = in
								}
								in.writes += 2
							}
						}
					}
				}
			}
		}
		for gg, in := range infos {
			if in.writes != 1 || in.initStore == nil || !InRepo(in.initFn) || token.IsExported(gg.Name()) {
				continue
			}
			t := NewBuilder(p, in.initFn).Of(in.initStore.Val, in.initStore)
			// only plain values: constants, byte-slice literals, big integers made from constants — not objects with an
			// identity of their own (compiled regexps, tables built by a function, curve points)
			if len(t.String()) > 160 || t.Contains(func(s *Term) bool {
				switch s.Op {
				case "const", "slice", "obj", "alloc", "store", "iaddr", "self", "none", "conv":
					return false
				case "call":
					return !(s.Name == "math/big.NewInt" || s.Name == "(*math/big.Int).SetUint64" || s.Name == "(*math/big.Int).SetInt64")
				}
				return true
			}) {
				continue
			}
			p.constGlobals[gg] = t
		}
	}
	return p.constGlobals[g]
}

func (b *Builder) load(x *ssa.UnOp, at ssa.Instruction, depth int) *Term {
	if g, ok := x.X.(*ssa.Global); ok && InRepo2(g) {
		if t := b.P.ConstGlobal(g); t != nil {
			return t
		}
	}
	// a local cell with a single store behaves like the stored value
	if a, ok := x.X.(*ssa.Alloc); ok {
		if s := singleStore(a); s != nil {
			return b.of(s.Val, at, depth+1)
		}
	}
	at2 := b.of(x.X, x, depth+1)
	// []byte(s)[i] is s[i]
	if at2.Op == "iaddr" && len(at2.Args) == 2 && at2.Args[0].Op == "conv" && (at2.Args[0].Name == "[]byte" || at2.Args[0].Name == "[]uint8") && len(at2.Args[0].Args) == 1 {
		if tt := termType(at2.Args[0].Args[0]); tt != nil {
			if bt, ok := tt.Underlying().(*types.Basic); ok && bt.Info()&types.IsString != 0 {
				return b.mk("index", "", x, at2.Args[0].Args[0], at2.Args[1])
			}
		}
	}
	return b.mk("load", "", x, at2)
}

// withHistory wraps base with the mutation history of the object v denotes.
func (b *Builder) withHistory(base *Term, v ssa.Value, at ssa.Instruction, depth int) *Term {
	if at == nil || !b.isObjectType(v.Type()) {
		return base
	}
	if h := b.history(v, at, depth); len(h) > 0 {
		h = splitHashWrites(h)
		return canonObj(&Term{Op: "obj", V: v, Args: append([]*Term{base}, h...)})
	}
	return base
}

// canonObj: b := make([]byte, n); copy(b[n-len(x):], x) is x left-padded with zeros to n bytes.
func canonObj(t *Term) *Term {
	if t.Op != "obj" || len(t.Args) != 2 {
		return t
	}
	base, ev := t.Args[0], t.Args[1]
	if base.Op != "makeslice" || (base.Name != "[]byte" && base.Name != "[]uint8") || len(base.Args) != 2 || base.Args[0].String() != base.Args[1].String() {
		return t
	}
	// buf := make([]byte, n); x.FillBytes(buf) is x.Bytes() left-padded to n bytes
	if ev.Op == "call" && ev.Name == "(*math/big.Int).FillBytes" && len(ev.Args) == 2 && ev.Args[1].Op == "self" {
		return &Term{Op: "call", Name: "leftpad", V: t.V, Args: []*Term{{Op: "call", Name: "(*math/big.Int).Bytes", Args: []*Term{ev.Args[0]}}, base.Args[0]}}
	}
	if ev.Op != "call" || ev.Name != "builtin.copy" || len(ev.Args) != 2 {
		return t
	}
	d, src := ev.Args[0], ev.Args[1]
	if d.Op == "slice" && len(d.Args) == 3 && d.Args[0].Op == "self" && d.Args[2].Op == "none" && d.Args[1].Op == "bin" && d.Args[1].Name == "-" && len(d.Args[1].Args) == 2 {
		if n, l := d.Args[1].Args[0], d.Args[1].Args[1]; n.String() == base.Args[0].String() && l.Op == "len" && len(l.Args) == 1 && l.Args[0].String() == src.String() {
			return &Term{Op: "call", Name: "leftpad", V: t.V, Args: []*Term{src, n}}
		}
	}
	return t
}

// objAt renders the object v denotes with the mutation history preceding `at`.
func (b *Builder) objAt(v ssa.Value, at ssa.Instruction, depth int) *Term {
	root := b.Root(v)
	var base *Term
	switch r := root.(type) {
	case *ssa.Alloc:
		base = &Term{Op: "alloc", Name: typeName(r.Type().(*types.Pointer).Elem()), V: r}
		if base.Name == "filippo.io/edwards25519.Scalar" {
			// new(edwards25519.Scalar) and edwards25519.NewScalar() are both the zero scalar (documented: "the zero value is a valid zero element")
			base = &Term{Op: "call", Name: "filippo.io/edwards25519.NewScalar", V: r}
		}
	case *ssa.Call:
		base = b.callTerm(r, &r.Call, depth+1)
	default:
		if root == v {
			base = b.mk("unknown", fmt.Sprintf("%T", v), v)
		} else {
			base = b.of(root, nil, depth+1)
		}
	}
	if at == nil {
		return base
	}
	h := b.history(root, at, depth)
	if len(h) == 0 {
		return base
	}
	h = splitHashWrites(h)
	if base.Op == "alloc" && base.Name == "math/big.Int" {
		// a scratch big.Int that is set anew: what it held before does not matter (x.SetInt64(a); …; x.SetInt64(b))
		for i := len(h) - 1; i > 0; i-- {
			if e := h[i]; e.Op == "call" && (e.Name == "(*math/big.Int).SetInt64" || e.Name == "(*math/big.Int).SetUint64" || e.Name == "(*math/big.Int).SetBytes") && len(e.Args) == 2 && e.Args[0].Op == "self" {
				h = h[i:]
				break
			}
		}
		// new(big.Int).SetInt64(v) is big.NewInt(v)
		if h[0].Op == "call" && h[0].Name == "(*math/big.Int).SetInt64" && len(h[0].Args) == 2 && h[0].Args[0].Op == "self" {
			if _, isC := isConstInt(h[0].Args[1]); !isC && !(h[0].Args[1].Op == "conv" && lengthLike(h[0].Args[1].Args[0])) {
				base = &Term{Op: "call", Name: "math/big.NewInt", V: base.V, Args: []*Term{h[0].Args[1]}}
				h = h[1:]
				if len(h) == 0 {
					return base
				}
			}
		}
	}
	// new(big.Int).SetUint64(uint64(n)) / .SetInt64(int64(n)) for a length n is big.NewInt(int64(n))
	if base.Op == "alloc" && base.Name == "math/big.Int" && h[0].Op == "call" && (h[0].Name == "(*math/big.Int).SetUint64" || h[0].Name == "(*math/big.Int).SetInt64") && len(h[0].Args) == 2 && h[0].Args[0].Op == "self" {
		if c0, isC := isConstInt(h[0].Args[1]); isC && c0.Sign() >= 0 && c0.IsInt64() {
			// new(big.Int).SetInt64(c) is big.NewInt(c)
			base = &Term{Op: "call", Name: "math/big.NewInt", V: base.V, Args: []*Term{h[0].Args[1]}}
			h = h[1:]
			if len(h) == 0 {
				return base
			}
		} else if a := h[0].Args[1]; a.Op == "conv" && len(a.Args) == 1 && (a.Name == "uint64" || a.Name == "int64") && lengthLike(a.Args[0]) {
			conv := a
			if a.Name == "uint64" {
				conv = &Term{Op: "conv", Name: "int64", V: a.V, Args: a.Args}
			}
			base = &Term{Op: "call", Name: "math/big.NewInt", V: base.V, Args: []*Term{conv}}
			h = h[1:]
			if len(h) == 0 {
				return base
			}
		}
	}
	return canonObj(&Term{Op: "obj", V: v, Args: append([]*Term{base}, h...)})
}

// splitHashWrites: a hash is a stream, so Write(a ‖ b ‖ c) is Write(a), Write(b), Write(c).
func splitHashWrites(h []*Term) []*Term {
	var out []*Term
	changed := false
	for _, e := range h {
		inner, maybe := e, false
		if e.Op == "maybe" && len(e.Args) == 1 {
			inner, maybe = e.Args[0], true
		}
		if inner.Op == "call" && (inner.Name == "(hash.Hash).Write" || inner.Name == "(io.Writer).Write") && len(inner.Args) == 2 && inner.Args[0].Op == "self" && inner.Args[1].Op == "concat" && len(inner.Args[1].Args) > 1 && !maybe {
			for _, part := range inner.Args[1].Args {
				out = append(out, &Term{Op: "call", Name: inner.Name, V: inner.V, Args: []*Term{inner.Args[0], part}})
			}
			changed = true
			continue
		}
		out = append(out, e)
	}
	if !changed {
		return h
	}
	return out
}

// lengthLike: len(x), cap(x), or such a value plus / times non-negative constants.
func lengthLike(t *Term) bool {
	switch t.Op {
	case "len", "cap":
		return true
	case "bin":
		if (t.Name == "+" || t.Name == "*") && len(t.Args) == 2 {
			if c, ok := isConstInt(t.Args[1]); ok && c.Sign() >= 0 {
				return lengthLike(t.Args[0])
			}
		}
	}
	return false
}

// history lists, in dominance order, the mutations of the object rooted at
// root that precede `at`. Mutations that may but need not precede are wrapped
// in "maybe".
func (b *Builder) history(root ssa.Value, at ssa.Instruction, depth int) []*Term {
	if b.Fn == nil {
		return nil
	}
	if depth > 60 {
		return []*Term{b.mk("deep", "", nil)}
	}
	root = b.Root(root)
	var must, may []ev
	for _, blk := range b.Fn.Blocks {
		for _, ins := range blk.Instrs {
			if ins == at {
				continue
			}
			var t *Term
			switch x := ins.(type) {
			case *ssa.Store:
				if b.Root(x.Addr) != root {
					continue
				}
				if _, isAlloc := x.Addr.(*ssa.Alloc); isAlloc && x.Addr == root {
					if singleStore(x.Addr.(*ssa.Alloc)) != nil {
						continue
					}
				}
				t = b.mk("store", "", nil, b.pathTerm(x.Addr, root, depth), b.of(x.Val, ins, depth+2))
			case *ssa.MapUpdate:
				if b.Root(x.Map) != root {
					continue
				}
				t = b.mk("mapupdate", "", nil, b.of(x.Key, ins, depth+2), b.of(x.Value, ins, depth+2))
			case ssa.CallInstruction:
				c := x.Common()
				hit := false
				if c.IsInvoke() && b.Root(c.Value) == root && b.MayMutateOperand(c, -1) {
					hit = true
				}
				for i, a := range c.Args {
					if b.Root(a) == root && b.MayMutateOperand(c, i) {
						hit = true
					}
				}
				if !hit {
					continue
				}
				if n := CalleeName(c); n == "(*strings.Builder).Grow" || n == "(*bytes.Buffer).Grow" {
					continue // capacity only: the contents are unchanged
				}
				t = b.selfCall(x, root, depth)
			default:
				continue
			}
			if InstrDominates(ins, at) {
				must = append(must, ev{ins, t})
			} else if b.canReach(ins, at) {
				may = append(may, ev{ins, t})
			}
		}
	}
	must, may = b.clearedByReset(must, may, at)
	// order: an event precedes another if it dominates it, or can reach it but not vice versa
	type oev struct {
		ev
		may bool
	}
	var all []oev
	for _, e := range must {
		all = append(all, oev{e, false})
	}
	for _, e := range may {
		all = append(all, oev{e, true})
	}
	before := func(x, y ev) bool {
		if InstrDominates(x.ins, y.ins) {
			return true
		}
		if InstrDominates(y.ins, x.ins) {
			return false
		}
		return b.canReach(x.ins, y.ins) && !b.canReach(y.ins, x.ins)
	}
	var out []*Term
	for len(all) > 0 {
		pick := 0
		for i := range all {
			blocked := false
			for j := range all {
				if i != j && before(all[j].ev, all[i].ev) {
					blocked = true
					break
				}
			}
			if !blocked {
				pick = i
				break
			}
		}
		e := all[pick]
		all = append(all[:pick], all[pick+1:]...)
		if e.may {
			if un := b.unrollEach(e.ins, e.term, at, depth); un != nil {
				out = append(out, un...)
				continue
			}
			out = append(out, b.mk("maybe", "", nil, e.term))
		} else {
			out = append(out, e.term)
		}
	}
	return out
}

// unrollEach: an event in the body of `for _, x := range X` that runs in every
// iteration of a loop left only through its header, where X is a slice literal
// with statically known elements (typically the variadic arguments of the
// call, bound by the caller), is the sequence of the event for x = X[0], X[1], ….
func (b *Builder) unrollEach(ins ssa.Instruction, ev *Term, at ssa.Instruction, depth int) []*Term {
	blk := ins.Block()
	for _, be := range BackEdges(b.Fn) {
		loop := LoopBlocks(be)
		if !loop[blk] || loop[at.Block()] {
			continue
		}
		hdr := be.To
		ifi, ok := hdr.Instrs[len(hdr.Instrs)-1].(*ssa.If)
		if !ok || !loop[hdr.Succs[0]] || loop[hdr.Succs[1]] {
			continue
		}
		// one back edge to this header; no exit but the header's; the event runs in every iteration
		nBack := 0
		for _, o := range BackEdges(b.Fn) {
			if o.To == hdr {
				nBack++
			}
		}
		if nBack != 1 || !blk.Dominates(be.From) {
			return nil
		}
		// the history is taken at a point that is reached only by leaving the loop through its header: every other way
		// out of the loop (an error return from the body, a panic) must not lead there
		for x := range loop {
			if x == hdr {
				continue
			}
			for _, sx := range x.Succs {
				if !loop[sx] && (sx == at.Block() || ReachableFrom(sx, nil)[at.Block()]) {
					return nil
				}
			}
		}
		bd, m := Match("bin<<>(ind<+1>(0), len($c))", b.of(ifi.Cond, ifi, depth+1))
		if !m {
			return nil
		}
		coll := bd["$c"]
		elems := literalElems(coll)
		if elems == nil {
			return nil
		}
		cur := (&Term{Op: "load", Args: []*Term{{Op: "iaddr", Args: []*Term{coll, {Op: "ind", Name: "+1", Args: []*Term{{Op: "const", Name: "0"}}}}}}}).String()
		var out []*Term
		for _, el := range elems {
			out = append(out, substTerm(ev, cur, el))
		}
		return out
	}
	return nil
}

// literalElems returns the elements of slice(obj(alloc<[N]T>, store(iaddr(self,0),e0), …, store(iaddr(self,N-1),eN-1)), 0, none|N).
func literalElems(t *Term) []*Term {
	if t.Op != "slice" || len(t.Args) < 3 {
		return nil
	}
	if lo, ok := isConstInt(t.Args[1]); !ok || lo.Sign() != 0 {
		return nil
	}
	base := t.Args[0]
	if base.Op != "obj" || len(base.Args) < 2 || base.Args[0].Op != "alloc" || !strings.HasPrefix(base.Args[0].Name, "[") {
		return nil
	}
	n := len(base.Args) - 1
	if hi, ok := isConstInt(t.Args[2]); t.Args[2].Op != "none" && (!ok || hi.Int64() != int64(n)) {
		return nil
	}
	if !strings.HasPrefix(base.Args[0].Name, fmt.Sprintf("[%d]", n)) {
		return nil
	}
	var out []*Term
	for k := 0; k < n; k++ {
		st := base.Args[k+1]
		if st.Op != "store" || len(st.Args) != 2 {
			return nil
		}
		a := st.Args[0]
		if a.Op != "iaddr" || len(a.Args) != 2 || a.Args[0].Op != "self" {
			return nil
		}
		if idx, ok := isConstInt(a.Args[1]); !ok || idx.Int64() != int64(k) {
			return nil
		}
		out = append(out, st.Args[1])
	}
	return out
}

// substTerm replaces every sub-term printing as old by repl.
func substTerm(t *Term, old string, repl *Term) *Term {
	if t == nil {
		return nil
	}
	if t.String() == old {
		return repl
	}
	if len(t.Args) == 0 {
		return t
	}
	n := &Term{Op: t.Op, Name: t.Name, Idx: t.Idx, V: t.V, C: t.C}
	changed := false
	for _, a := range t.Args {
		na := substTerm(a, old, repl)
		if na != a {
			changed = true
		}
		n.Args = append(n.Args, na)
	}
	if !changed {
		return t
	}
	return n
}

type ev struct {
	ins  ssa.Instruction
	term *Term
}

// clearedByReset canonicalises the history of a hash.Hash: what was written before a Reset that lies on every
// way to `at` does not matter, and a Reset with nothing left before it is a no-op. `h.Reset()` at the top of a
// retry loop, at its bottom, or a fresh hash per iteration then give the same state at `h.Sum`.
func (b *Builder) clearedByReset(must, may []ev, at ssa.Instruction) ([]ev, []ev) {
	isReset := func(e ev) bool {
		return e.term != nil && e.term.Op == "call" && e.term.Name == "(hash.Hash).Reset" && len(e.term.Args) == 1 && e.term.Args[0].Op == "self"
	}
	hasReset := false
	for _, e := range append(append([]ev{}, must...), may...) {
		if isReset(e) {
			hasReset = true
		}
	}
	if !hasReset {
		return must, may
	}
	reachAvoid := func(from, to ssa.Instruction, avoid ssa.Instruction) bool {
		fb, tb, ab := from.Block(), to.Block(), avoid.Block()
		if fb == tb && instrIndex(from) < instrIndex(to) {
			// straight down the block: passes `avoid` only if it lies in between
			if !(ab == fb && instrIndex(avoid) > instrIndex(from) && instrIndex(avoid) < instrIndex(to)) {
				return true
			}
		}
		if ab == fb && instrIndex(avoid) > instrIndex(from) {
			return false // the rest of from's block contains avoid
		}
		seen := map[*ssa.BasicBlock]bool{}
		var dfs func(x *ssa.BasicBlock) bool
		dfs = func(x *ssa.BasicBlock) bool {
			for _, sx := range x.Succs {
				if sx == tb {
					// entering to's block: avoid lies before `to` there?
					if ab == tb && instrIndex(avoid) < instrIndex(to) {
						continue
					}
					return true
				}
				if sx == ab || seen[sx] {
					continue
				}
				seen[sx] = true
				if dfs(sx) {
					return true
				}
			}
			return false
		}
		return dfs(fb)
	}
	all := append(append([]ev{}, must...), may...)
	cleared := map[ssa.Instruction]bool{}
	for _, r := range all {
		if !isReset(r) {
			continue
		}
		for _, e := range all {
			if e.ins == r.ins || isReset(e) {
				continue
			}
			if b.canReach(e.ins, r.ins) && !reachAvoid(e.ins, at, r.ins) {
				cleared[e.ins] = true
			}
		}
	}
	// a Reset is dropped when every way from it to `at` re-executes all surviving events (it only precedes them),
	// or when it dominates `at` and nothing survives before it
	var nm, ny []ev
	for _, e := range must {
		if !cleared[e.ins] {
			nm = append(nm, e)
		}
	}
	for _, e := range may {
		if !cleared[e.ins] {
			ny = append(ny, e)
		}
	}
	dropReset := func(r ev, others []ev) bool {
		for _, o := range others {
			if o.ins == r.ins {
				continue
			}
			if isReset(o) {
				continue
			}
			if reachAvoid(r.ins, at, o.ins) && !InstrDominates(r.ins, o.ins) {
				return false
			}
			if InstrDominates(o.ins, r.ins) && InstrDominates(r.ins, at) {
				return false // something definitely precedes this definite Reset: keep it (it clears nothing we dropped? it would have)
			}
		}
		return true
	}
	others := append(append([]ev{}, nm...), ny...)
	var fm, fy []ev
	for _, e := range nm {
		if isReset(e) && dropReset(e, others) {
			continue
		}
		fm = append(fm, e)
	}
	for _, e := range ny {
		if isReset(e) && dropReset(e, others) {
			continue
		}
		fy = append(fy, e)
	}
	return fm, fy
}

// pathTerm prints the address path from root to addr (fields, indices).
func (b *Builder) pathTerm(addr, root ssa.Value, depth int) *Term {
	if addr == root {
		return &Term{Op: "self"}
	}
	switch x := addr.(type) {
	case *ssa.IndexAddr:
		base, idx := b.pathTerm(x.X, root, depth), b.of(x.Index, x, depth+2)
		// element k of the view self[lo:…] is element lo+k of the object
		if base.Op == "slice" && len(base.Args) == 3 && base.Args[0].Op == "self" {
			if lo, ok := isConstInt(base.Args[1]); ok {
				if k, okK := isConstInt(idx); okK {
					return b.mk("iaddr", "", nil, base.Args[0], mkConst(new(big.Int).Add(lo, k), nil))
				}
				if lo.Sign() == 0 {
					return b.mk("iaddr", "", nil, base.Args[0], idx)
				}
			}
		}
		return b.mk("iaddr", "", nil, base, idx)
	case *ssa.FieldAddr:
		return b.mk("faddr", fieldName(x.X.Type(), x.Field), nil, b.pathTerm(x.X, root, depth))
	case *ssa.Slice:
		lo := b.ofOpt(x.Low, x, depth+1)
		if x.Low == nil {
			lo = &Term{Op: "const", Name: "0", C: constant.MakeInt64(0)}
		}
		hi := b.ofOpt(x.High, x, depth+1)
		if x.High == nil {
			// a[lo:] of an array is a[lo:N] (make([]T, N) is lowered to exactly that)
			if pt, ok := x.X.Type().Underlying().(*types.Pointer); ok {
				if at, ok := pt.Elem().Underlying().(*types.Array); ok {
					hi = mkConst(big.NewInt(at.Len()), nil)
				}
			}
		}
		return b.mk("slice", "", nil, b.pathTerm(x.X, root, depth), lo, hi)
	case *ssa.ChangeType:
		return b.pathTerm(x.X, root, depth)
	}
	if b.Root(addr) == root {
		return &Term{Op: "self"}
	}
	return b.of(addr, nil, depth+2)
}

// selfCall renders a call with operands denoting the history's object printed as self.
func (b *Builder) selfCall(ci ssa.CallInstruction, root ssa.Value, depth int) *Term {
	c := ci.Common()
	var args []*Term
	arg := func(a ssa.Value) *Term {
		if b.Root(a) == root {
			return b.pathTerm(a, root, depth)
		}
		return b.of(a, ci, depth+2)
	}
	if c.IsInvoke() {
		args = append(args, arg(c.Value))
	}
	for _, a := range c.Args {
		args = append(args, arg(a))
	}
	return canonCall(&Term{Op: "call", Name: CalleeName(c), Args: args, V: ci.Value()})
}

// InstrDominates reports whether a is executed before b on every path to b.
func InstrDominates(a, b ssa.Instruction) bool {
	ba, bb := a.Block(), b.Block()
	if ba == nil || bb == nil {
		return false
	}
	if ba == bb {
		return instrIndex(a) < instrIndex(b)
	}
	return ba.Dominates(bb)
}

func instrIndex(i ssa.Instruction) int {
	for k, x := range i.Block().Instrs {
		if x == i {
			return k
		}
	}
	return -1
}

func (b *Builder) canReach(from, to ssa.Instruction) bool {
	fb, tb := from.Block(), to.Block()
	if fb == tb && instrIndex(from) < instrIndex(to) {
		return true
	}
	if b.reach == nil {
		b.reach = map[*ssa.BasicBlock]map[*ssa.BasicBlock]bool{}
	}
	r, ok := b.reach[fb]
	if !ok {
		r = map[*ssa.BasicBlock]bool{}
		var dfs func(*ssa.BasicBlock)
		dfs = func(x *ssa.BasicBlock) {
			for _, s := range x.Succs {
				if !r[s] {
					r[s] = true
					dfs(s)
				}
			}
		}
		dfs(fb)
		b.reach[fb] = r
	}
	return r[tb]
}
