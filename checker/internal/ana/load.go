// Package ana holds the repository-independent part of the checker: loading
// the type-checked program, lowering to SSA, resolving callees, building
// canonical provenance terms and CFG edge queries.
package ana

import (
	"fmt"
	"go/ast"
	"go/token"
	"go/types"
	"os"
	"sort"
	"strings"

	"golang.org/x/tools/go/packages"
	"golang.org/x/tools/go/ssa"
	"golang.org/x/tools/go/ssa/ssautil"
)

// Module is the import path prefix of the repository under analysis.
const Module = "github.com/wollac/iota-crypto-demo"

// Config selects one build configuration of /repo.
type Config struct {
	Dir    string   // repository root
	Tags   []string // extra build tags
	GOARCH string   // "" = host
}

func (c Config) String() string {
	arch := c.GOARCH
	if arch == "" {
		arch = "amd64"
	}
	s := "GOARCH=" + arch
	if len(c.Tags) > 0 {
		s += " tags=" + strings.Join(c.Tags, ",")
	}
	return s
}

// Prog is a loaded, type-checked and SSA-lowered configuration.
type Prog struct {
	Cfg    Config
	Fset   *token.FileSet
	Pkgs   []*packages.Package          // root packages (./...)
	ByPath map[string]*packages.Package // every package incl. dependencies
	SSA    *ssa.Program
	SPkg   map[string]*ssa.Package

	constGlobals map[*ssa.Global]*Term // see ConstGlobal
	cgDone       bool
}

// ExpectedPackages is the number of packages `./...` must yield in the root
// module; a different count means part of the build was not parsed.
const ExpectedPackages = 29

// Load type-checks ./... of cfg.Dir with full syntax for dependencies and
// builds SSA for everything. Any type error is fatal.
func Load(cfg Config) (*Prog, error) {
	env := append(os.Environ(), "GOFLAGS=-mod=mod", "GOPROXY=off", "GOSUMDB=off", "GOTOOLCHAIN=local", "GOWORK=off")
	if cfg.GOARCH != "" {
		env = append(env, "GOARCH="+cfg.GOARCH)
	}
	// type aliases are transparent to every rule: `type state = [729]uint` must not rename what terms and signatures
	// print (go/types then records no Alias nodes; read when a type checker is created)
	if gd := os.Getenv("GODEBUG"); !strings.Contains(gd, "gotypesalias=") {
		if gd != "" {
			gd += ","
		}
		os.Setenv("GODEBUG", gd+"gotypesalias=0")
	}
	WordBits = 64
	switch cfg.GOARCH {
	case "386", "arm", "mips", "mipsle", "wasm":
		WordBits = 32
	}
	pc := &packages.Config{
		Mode: packages.LoadAllSyntax,
		Dir:  cfg.Dir,
		Env:  env,
	}
	if len(cfg.Tags) > 0 {
		pc.BuildFlags = []string{"-tags=" + strings.Join(cfg.Tags, ",")}
	}
	pkgs, err := packages.Load(pc, "./...")
	if err != nil {
		return nil, fmt.Errorf("load: %w", err)
	}
	if len(pkgs) == 0 {
		return nil, fmt.Errorf("load: no packages")
	}
	var errs []string
	byPath := map[string]*packages.Package{}
	packages.Visit(pkgs, nil, func(p *packages.Package) {
		byPath[p.PkgPath] = p
		for _, e := range p.Errors {
			errs = append(errs, p.PkgPath+": "+e.Error())
		}
	})
	if len(errs) > 0 {
		sort.Strings(errs)
		return nil, fmt.Errorf("type errors (%d): %s", len(errs), strings.Join(errs, "; "))
	}
	sort.Slice(pkgs, func(i, j int) bool { return pkgs[i].PkgPath < pkgs[j].PkgPath })
	prog, _ := ssautil.AllPackages(pkgs, ssa.InstantiateGenerics)
	prog.Build()
	p := &Prog{Cfg: cfg, Fset: pkgs[0].Fset, Pkgs: pkgs, ByPath: byPath, SSA: prog, SPkg: map[string]*ssa.Package{}}
	for _, sp := range prog.AllPackages() {
		p.SPkg[sp.Pkg.Path()] = sp
	}
	return p, nil
}

// Pos renders a position relative to the repository root.
func (p *Prog) Pos(pos token.Pos) string {
	if !pos.IsValid() {
		return "-"
	}
	ps := p.Fset.Position(pos)
	f := ps.Filename
	if strings.HasPrefix(f, p.Cfg.Dir+"/") {
		f = f[len(p.Cfg.Dir)+1:]
	} else if i := strings.Index(f, "/pkg/mod/"); i >= 0 {
		f = f[i+len("/pkg/mod/"):]
	}
	return fmt.Sprintf("%s:%d", f, ps.Line)
}

// Pkg returns the repository package with the given path relative to the module.
func (p *Prog) Pkg(rel string) *ssa.Package {
	if rel == "" {
		return p.SPkg[Module]
	}
	if sp, ok := p.SPkg[Module+"/"+rel]; ok {
		return sp
	}
	return p.SPkg[rel]
}

// Func finds a package-level function or a method by API name. name is
// "Func", "Type.Method" or "(*Type).Method"; for "Type.Method" both the value
// and the pointer method set are searched.
func (p *Prog) Func(rel, name string) *ssa.Function {
	sp := p.Pkg(rel)
	if sp == nil {
		return nil
	}
	name = strings.TrimPrefix(name, "(*")
	name = strings.Replace(name, ").", ".", 1)
	if i := strings.Index(name, "."); i >= 0 {
		tn, mn := name[:i], name[i+1:]
		obj := sp.Pkg.Scope().Lookup(tn)
		if obj == nil && !token.IsExported(tn) {
			// an unexported type may have been renamed: the only unexported named type of the package that has the method
			var cands []types.Object
			for _, n := range sp.Pkg.Scope().Names() {
				o, isT := sp.Pkg.Scope().Lookup(n).(*types.TypeName)
				if !isT || token.IsExported(n) {
					continue
				}
				for _, tt := range []types.Type{o.Type(), types.NewPointer(o.Type())} {
					ms := p.SSA.MethodSets.MethodSet(tt)
					found := false
					for i := 0; i < ms.Len(); i++ {
						if ms.At(i).Obj().Name() == mn && ms.At(i).Obj().Pkg() == sp.Pkg {
							found = true
						}
					}
					if found {
						cands = append(cands, o)
						break
					}
				}
			}
			if len(cands) == 1 {
				obj = cands[0]
			}
		}
		if obj == nil {
			return nil
		}
		t := obj.Type()
		for _, tt := range []types.Type{t, types.NewPointer(t)} {
			ms := p.SSA.MethodSets.MethodSet(tt)
			for i := 0; i < ms.Len(); i++ {
				if ms.At(i).Obj().Name() == mn && (ms.At(i).Obj().Exported() || ms.At(i).Obj().Pkg() == sp.Pkg) {
					if fn := p.SSA.MethodValue(ms.At(i)); fn != nil {
						// unwrap the promoted/pointer wrapper to the declared method
						if fn.Synthetic != "" {
							if o, ok := ms.At(i).Obj().(*types.Func); ok {
								if d := p.SSA.FuncValue(o); d != nil {
									return d
								}
							}
						}
						return fn
					}
				}
			}
		}
		return nil
	}
	return sp.Func(name)
}

// InRepo reports whether fn is declared in the repository module.
func InRepo(fn *ssa.Function) bool {
	return fn != nil && fn.Pkg != nil && (fn.Pkg.Pkg.Path() == Module || strings.HasPrefix(fn.Pkg.Pkg.Path(), Module+"/"))
}

// RepoFuncs lists every source function (incl. anonymous) of the repository
// packages matched by prefix rel ("" = all), sorted by position.
func (p *Prog) RepoFuncs(rel string) []*ssa.Function {
	var out []*ssa.Function
	for fn := range ssautil.AllFunctions(p.SSA) {
		if !InRepo(fn) || fn.Synthetic != "" && fn.Synthetic != "package initializer" && fn.Parent() == nil {
			continue
		}
		if fn.Blocks == nil {
			continue
		}
		path := fn.Pkg.Pkg.Path()
		if rel != "" && path != Module+"/"+rel && !strings.HasPrefix(path, Module+"/"+rel+"/") {
			continue
		}
		out = append(out, fn)
	}
	sort.Slice(out, func(i, j int) bool {
		if out[i].Pos() != out[j].Pos() {
			return out[i].Pos() < out[j].Pos()
		}
		return out[i].String() < out[j].String()
	})
	return out
}

// FileOf returns the syntax file that contains pos in a root package.
func (p *Prog) FileOf(pos token.Pos) *ast.File {
	for _, pk := range p.Pkgs {
		for _, f := range pk.Syntax {
			if f.Pos() <= pos && pos <= f.End() {
				return f
			}
		}
	}
	return nil
}

// ShortFunc names a function without the module prefix.
func ShortFunc(fn *ssa.Function) string {
	if fn == nil {
		return "<nil>"
	}
	return strings.ReplaceAll(fn.String(), Module+"/", "")
}
