package ana

import (
	"go/constant"
	"go/token"
	"go/types"
	"math/big"
	"sort"
	"strconv"
	"strings"

	"golang.org/x/tools/go/ssa"
)

// Canonical forms of integer expressions and comparisons.
//
// Rules are written against one spelling of a condition; the code may spell it
// in any equivalent way (`len(x) < 1` / `len(x) == 0`, `b&224 != 0` /
// `b>>5 != 0` / `b > 31`, `a+6 > n` / `n-a < 6`, `x/32` / `x>>5`). Every bin
// term is rewritten here into a canonical representative of its equivalence
// class before any pattern sees it:
//
//  1. a comparison whose only non-constant leaf is one 8-bit value is decided
//     for all 256 values; threshold / point sets become `x >= t`, `x < t`,
//     `x == v`, `x != v`;
//  2. a single-bit test `x&(1<<i) ⋚ 0` becomes `(x>>i)&1 ⋚ 0`; `x&m == m` for a
//     one-bit constant m becomes `x&m != 0`;
//  3. comparisons of signed machine integers are linearised (Σ cᵢ·aᵢ ⋚ k, atoms
//     sorted, leading coefficient positive, only ==, !=, <, >=); for unsigned
//     operands only the operator is normalised (no terms change side, since
//     unsigned subtraction wraps); a non-negative atom (len, cap, unsigned)
//     compared with 0/1 becomes `== 0` / `!= 0`;
//  4. for unsigned x: x / 2ⁿ → x >> n, x % 2ⁿ → x & (2ⁿ−1);
//  5. (i + k) for a counter i = ind<+k>(c) → ind<+k>(c+k): the index of a
//     `range` loop and of a three-clause loop get the same term.
//
// Signed linearisation assumes no overflow in the length / index arithmetic it
// is applied to (operands are lengths, indices and small constants).

func intKind(t types.Type) (bits int, signed, ok bool) {
	if t == nil {
		return 0, false, false
	}
	b, isB := t.Underlying().(*types.Basic)
	if !isB || b.Info()&types.IsInteger == 0 {
		return 0, false, false
	}
	switch b.Kind() {
	case types.Int8:
		return 8, true, true
	case types.Int16:
		return 16, true, true
	case types.Int32:
		return 32, true, true
	case types.Int64:
		return 64, true, true
	case types.Int:
		return 0, true, true // word size: treated as "wide"
	case types.Uint8:
		return 8, false, true
	case types.Uint16:
		return 16, false, true
	case types.Uint32:
		return 32, false, true
	case types.Uint64:
		return 64, false, true
	case types.Uint, types.Uintptr:
		return 0, false, true
	case types.UntypedInt:
		return 0, true, true
	}
	return 0, false, false
}

func termType(t *Term) types.Type {
	if t == nil || t.V == nil {
		return nil
	}
	return t.V.Type()
}

func isConstInt(t *Term) (*big.Int, bool) {
	if t == nil || t.Op != "const" || t.C == nil || t.C.Kind() != constant.Int {
		return nil, false
	}
	v, ok := new(big.Int).SetString(t.C.ExactString(), 10)
	return v, ok
}

func mkConst(v *big.Int, like ssa.Value) *Term {
	c := constant.MakeFromLiteral(v.String(), token.INT, 0)
	return &Term{Op: "const", Name: c.ExactString(), C: c, V: like}
}

var cmpOps = map[string]bool{"==": true, "!=": true, "<": true, "<=": true, ">": true, ">=": true}

// canonBin is applied to every freshly built bin term.
func canonBin(t *Term) *Term {
	if t.Op != "bin" || len(t.Args) != 2 {
		return t
	}
	l, r := t.Args[0], t.Args[1]
	if (t.Name == "==" || t.Name == "!=") && r.Op == "const" && r.Name == `""` {
		// s == "" is len(s) == 0
		return &Term{Op: "bin", Name: t.Name, V: t.V, Args: []*Term{{Op: "len", V: nil, Args: []*Term{l}}, mkConst(big.NewInt(0), nil)}}
	}
	if cmpOps[t.Name] {
		if _, _, ok := intKind(termType(l)); !ok {
			if _, _, ok2 := intKind(termType(r)); !ok2 && l.Op != "len" && l.Op != "cap" {
				return t
			}
		}
		if c := canonByteCmp(t); c != nil {
			return c
		}
		if c := canonIndQuotCmp(t); c != nil {
			return c
		}
		t = canonBitTest(t)
		t = canonLinearCmp(t)
		if len(t.Args) == 2 && cmpOps[t.Name] {
			if c := canonIndCmp(t); c != nil {
				return c
			}
		}
		return t
	}
	bits, signed, ok := intKind(termType(t))
	_ = bits
	if !ok {
		return t
	}
	if cv, isC := isConstInt(r); isC && !signed && cv.Sign() > 0 {
		if n := log2(cv); n >= 0 {
			switch t.Name {
			case "/":
				return &Term{Op: "bin", Name: ">>", V: t.V, Args: []*Term{l, mkConst(big.NewInt(int64(n)), nil)}}
			case "%":
				return &Term{Op: "bin", Name: "&", V: t.V, Args: []*Term{l, mkConst(new(big.Int).Sub(cv, big.NewInt(1)), r.V)}}
			}
		}
	}
	if c := canonIndShift(t); c != nil {
		return c
	}
	// a counter scaled by a positive constant is the counter of the multiples: ind<+s>(a)·c = ind<+s·c>(a·c)
	if t.Name == "*" && l.Op == "ind" && len(l.Args) == 1 {
		if cv, ok := isConstInt(r); ok && cv.Sign() > 0 {
			if step, ok := parseStep(l.Name); ok && step.Sign() > 0 {
				if a, ok := isConstInt(l.Args[0]); ok {
					return &Term{Op: "ind", Name: "+" + new(big.Int).Mul(step, cv).String(), V: t.V, Args: []*Term{mkConst(new(big.Int).Mul(a, cv), l.Args[0].V)}}
				}
			}
		}
	}
	// an ascending counter over multiples of c divided by c is the counter of the quotients: ind<+s>(a)/c = ind<+s/c>(a/c)
	if t.Name == "/" && l.Op == "ind" && len(l.Args) == 1 {
		if cv, ok := isConstInt(r); ok && cv.Sign() > 0 {
			if step, ok := parseStep(l.Name); ok && step.Sign() > 0 && new(big.Int).Mod(step, cv).Sign() == 0 {
				if a, ok := isConstInt(l.Args[0]); ok && a.Sign() >= 0 && new(big.Int).Mod(a, cv).Sign() == 0 {
					ns := new(big.Int).Quo(step, cv)
					return &Term{Op: "ind", Name: "+" + ns.String(), V: t.V, Args: []*Term{mkConst(new(big.Int).Quo(a, cv), l.Args[0].V)}}
				}
			}
		}
	}
	// (y * a) / b with a | b  →  y / (b/a)   (lengths and sizes: no overflow)
	if t.Name == "/" && l.Op == "bin" && l.Name == "*" {
		if bv, ok := isConstInt(r); ok && bv.Sign() > 0 {
			if av, ok := isConstInt(l.Args[1]); ok && av.Sign() > 0 && new(big.Int).Mod(bv, av).Sign() == 0 {
				q := new(big.Int).Quo(bv, av)
				if q.Cmp(big.NewInt(1)) == 0 {
					return l.Args[0]
				}
				return canonBin(&Term{Op: "bin", Name: "/", V: t.V, Args: []*Term{l.Args[0], mkConst(q, r.V)}})
			}
		}
	}
	// c − LeadingZeros(x) = Len(x) + (c − W)
	if t.Name == "-" && r.Op == "call" && r.Name == "math/bits.LeadingZeros" {
		if w, ok := isConstInt(l); ok {
			ln := &Term{Op: "call", Name: "math/bits.Len", V: t.V, Args: r.Args}
			d := w.Int64() - int64(WordBits)
			switch {
			case d == 0:
				return ln
			case d < 0:
				return &Term{Op: "bin", Name: "-", V: t.V, Args: []*Term{ln, mkConst(big.NewInt(-d), nil)}}
			default:
				return &Term{Op: "bin", Name: "+", V: t.V, Args: []*Term{ln, mkConst(big.NewInt(d), nil)}}
			}
		}
	}
	// sums are sorted and flattened; the ring identities used hold modulo 2^n as well, so unsigned values qualify
	if t.Name == "+" || t.Name == "-" || t.Name == "*" {
		if c := canonLinearVal(t); c != nil {
			return c
		}
	}
	return t
}

func parseStep(s string) (*big.Int, bool) {
	if len(s) < 2 {
		return nil, false
	}
	v, ok := new(big.Int).SetString(s[1:], 10)
	if !ok {
		return nil, false
	}
	if s[0] == '-' {
		v.Neg(v)
	} else if s[0] != '+' {
		return nil, false
	}
	return v, true
}

func log2(v *big.Int) int {
	if v.Sign() <= 0 {
		return -1
	}
	n := v.BitLen() - 1
	if new(big.Int).Lsh(big.NewInt(1), uint(n)).Cmp(v) == 0 {
		return n
	}
	return -1
}

// ---- 1. single 8-bit atom: decide by enumeration

type byteAtom struct {
	t      *Term
	signed bool
}

// findByteAtom returns the unique non-constant leaf of the evaluable fragment, if it is an 8-bit value.
func findByteAtom(t *Term, atom **Term, ok *bool) {
	if !*ok {
		return
	}
	switch t.Op {
	case "const":
		if _, isC := isConstInt(t); !isC {
			*ok = false
		}
		return
	case "bin":
		switch t.Name {
		case "+", "-", "*", "/", "%", "&", "|", "^", "&^", "<<", ">>", "==", "!=", "<", "<=", ">", ">=":
			if _, _, isInt := intKind(termType(t)); !isInt && !cmpOps[t.Name] {
				*ok = false
				return
			}
			findByteAtom(t.Args[0], atom, ok)
			findByteAtom(t.Args[1], atom, ok)
			return
		}
	case "un":
		if t.Name == "-" || t.Name == "^" {
			findByteAtom(t.Args[0], atom, ok)
			return
		}
	case "conv":
		if _, _, isInt := intKind(termType(t)); isInt {
			if _, _, srcInt := intKind(termType(t.Args[0])); srcInt {
				findByteAtom(t.Args[0], atom, ok)
				return
			}
		}
	}
	// leaf
	bits, _, isInt := intKind(termType(t))
	if !isInt || bits != 8 {
		*ok = false
		return
	}
	if *atom != nil && (*atom).String() != t.String() {
		*ok = false
		return
	}
	*atom = t
}

func wrap(v *big.Int, ty types.Type) *big.Int {
	bits, signed, ok := intKind(ty)
	if !ok || bits == 0 {
		if ok && !signed && bits == 0 {
			bits = 64 // uint: evaluate with 64 bits (the 8-bit fragment never reaches the difference)
		} else {
			return v
		}
	}
	m := new(big.Int).Lsh(big.NewInt(1), uint(bits))
	r := new(big.Int).Mod(v, m)
	if signed && r.Bit(bits-1) == 1 {
		r.Sub(r, m)
	}
	return r
}

func evalInt(t *Term, atom *Term, val *big.Int) (*big.Int, bool) {
	if atom != nil && t.String() == atom.String() {
		return val, true
	}
	switch t.Op {
	case "const":
		v, ok := isConstInt(t)
		return v, ok
	case "conv":
		x, ok := evalInt(t.Args[0], atom, val)
		if !ok {
			return nil, false
		}
		return wrap(x, termType(t)), true
	case "un":
		x, ok := evalInt(t.Args[0], atom, val)
		if !ok {
			return nil, false
		}
		switch t.Name {
		case "-":
			return wrap(new(big.Int).Neg(x), termType(t)), true
		case "^":
			return wrap(new(big.Int).Not(x), termType(t)), true
		}
	case "bin":
		x, ok1 := evalInt(t.Args[0], atom, val)
		y, ok2 := evalInt(t.Args[1], atom, val)
		if !ok1 || !ok2 {
			return nil, false
		}
		z := new(big.Int)
		switch t.Name {
		case "+":
			z.Add(x, y)
		case "-":
			z.Sub(x, y)
		case "*":
			z.Mul(x, y)
		case "/":
			if y.Sign() == 0 {
				return nil, false
			}
			z.Quo(x, y)
		case "%":
			if y.Sign() == 0 {
				return nil, false
			}
			z.Rem(x, y)
		case "&":
			z.And(x, y)
		case "|":
			z.Or(x, y)
		case "^":
			z.Xor(x, y)
		case "&^":
			z.AndNot(x, y)
		case "<<":
			if y.Sign() < 0 || y.BitLen() > 7 {
				return nil, false
			}
			z.Lsh(x, uint(y.Int64()))
		case ">>":
			if y.Sign() < 0 || y.BitLen() > 7 {
				return nil, false
			}
			z.Rsh(x, uint(y.Int64()))
		default:
			return nil, false
		}
		return wrap(z, termType(t)), true
	}
	return nil, false
}

func evalCmp(op string, x, y *big.Int) bool {
	c := x.Cmp(y)
	switch op {
	case "==":
		return c == 0
	case "!=":
		return c != 0
	case "<":
		return c < 0
	case "<=":
		return c <= 0
	case ">":
		return c > 0
	}
	return c >= 0
}

func canonByteCmp(t *Term) *Term {
	var atom *Term
	ok := true
	findByteAtom(t.Args[0], &atom, &ok)
	findByteAtom(t.Args[1], &atom, &ok)
	if !ok || atom == nil {
		return nil
	}
	// already canonical: atom ⋚ const
	_, signed, _ := intKind(termType(atom))
	lo, hi := int64(0), int64(255)
	if signed {
		lo, hi = -128, 127
	}
	var truth []bool
	n := 0
	for v := lo; v <= hi; v++ {
		x, ok1 := evalInt(t.Args[0], atom, big.NewInt(v))
		y, ok2 := evalInt(t.Args[1], atom, big.NewInt(v))
		if !ok1 || !ok2 {
			return nil
		}
		tv := evalCmp(t.Name, x, y)
		truth = append(truth, tv)
		if tv {
			n++
		}
	}
	mk := func(op string, c int64) *Term {
		return &Term{Op: "bin", Name: op, V: t.V, Args: []*Term{atom, mkConst(big.NewInt(c), atom.V)}}
	}
	total := len(truth)
	switch {
	case n == 0 || n == total:
		return nil
	case n == 1:
		for i, tv := range truth {
			if tv {
				return mk("==", lo+int64(i))
			}
		}
	case n == total-1:
		for i, tv := range truth {
			if !tv {
				return mk("!=", lo+int64(i))
			}
		}
	}
	// threshold sets
	flips, at := 0, 0
	for i := 1; i < total; i++ {
		if truth[i] != truth[i-1] {
			flips++
			at = i
		}
	}
	if flips == 1 {
		if truth[total-1] {
			return mk(">=", lo+int64(at))
		}
		return mk("<", lo+int64(at))
	}
	return nil
}

// ---- 2. bit tests

func canonBitTest(t *Term) *Term {
	if t.Name != "==" && t.Name != "!=" {
		return t
	}
	l, r := t.Args[0], t.Args[1]
	rc, isC := isConstInt(r)
	// ^x ⋚ c  →  x ⋚ ^c (in the width of x)
	if isC && l.Op == "un" && l.Name == "^" && len(l.Args) == 1 {
		if bits, signed, ok := intKind(termType(l)); ok && !signed {
			if bits == 0 {
				bits = WordBits
			}
			m := new(big.Int).Sub(new(big.Int).Lsh(big.NewInt(1), uint(bits)), big.NewInt(1))
			nc := new(big.Int).Xor(new(big.Int).And(rc, m), m)
			return &Term{Op: "bin", Name: t.Name, V: t.V, Args: []*Term{l.Args[0], mkConst(nc, r.V)}}
		}
	}
	if !isC || l.Op != "bin" || l.Name != "&" {
		return t
	}
	x, m := l.Args[0], l.Args[1]
	// x & 2^(w-1) ⋚ 0 for an unsigned w-bit x: the top-bit test is the threshold test x ⋚ 2^(w-1)
	if mc, ok := isConstInt(m); ok && rc.Sign() == 0 {
		if bits, signed, okT := intKind(termType(x)); okT && !signed && bits > 0 && log2(mc) == bits-1 {
			op := ">="
			if t.Name == "==" {
				op = "<"
			}
			return &Term{Op: "bin", Name: op, V: t.V, Args: []*Term{x, mkConst(mc, m.V)}}
		}
	}
	// x & (1<<i) ⋚ 0  →  (x>>i)&1 ⋚ 0
	if rc.Sign() == 0 {
		for k := 0; k < 2; k++ {
			if m.Op == "bin" && m.Name == "<<" {
				if one, ok := isConstInt(m.Args[0]); ok && one.Cmp(big.NewInt(1)) == 0 {
					sh := &Term{Op: "bin", Name: ">>", V: x.V, Args: []*Term{x, stripIntConv(m.Args[1])}}
					and := &Term{Op: "bin", Name: "&", V: l.V, Args: []*Term{sh, mkConst(big.NewInt(1), nil)}}
					return &Term{Op: "bin", Name: t.Name, V: t.V, Args: []*Term{and, r}}
				}
			}
			x, m = m, x
		}
		// normalise the shift amount's integer conversion on the canonical side as well
		if x2, m2 := l.Args[0], l.Args[1]; x2.Op == "bin" && x2.Name == ">>" {
			if one, ok := isConstInt(m2); ok && one.Cmp(big.NewInt(1)) == 0 {
				sh := &Term{Op: "bin", Name: ">>", V: x2.V, Args: []*Term{x2.Args[0], stripIntConv(x2.Args[1])}}
				and := &Term{Op: "bin", Name: "&", V: l.V, Args: []*Term{sh, m2}}
				return &Term{Op: "bin", Name: t.Name, V: t.V, Args: []*Term{and, r}}
			}
		}
		return t
	}
	// x & m == m (m a single bit)  →  x & m != 0
	if mc, ok := isConstInt(m); ok && mc.Cmp(rc) == 0 && log2(mc) >= 0 {
		op := "!="
		if t.Name == "!=" {
			op = "=="
		}
		return &Term{Op: "bin", Name: op, V: t.V, Args: []*Term{l, mkConst(big.NewInt(0), r.V)}}
	}
	return t
}

func stripIntConv(t *Term) *Term {
	for t.Op == "conv" && len(t.Args) == 1 {
		if _, _, ok := intKind(termType(t)); !ok {
			break
		}
		if _, _, ok := intKind(termType(t.Args[0])); !ok && t.Args[0].Op != "len" {
			break
		}
		t = t.Args[0]
	}
	return t
}

// ---- 3. linear comparisons

type linear struct {
	coef  map[string]*big.Int
	atoms map[string]*Term
	k     *big.Int
	ring  bool // value context: unsigned operands are linearised too (identities of the ring Z/2^n)
}

// WordBits is the size of int/uint of the loaded configuration (set by Load).
var WordBits = 64

func newLinear() *linear {
	return &linear{coef: map[string]*big.Int{}, atoms: map[string]*Term{}, k: new(big.Int)}
}

func (ln *linear) add(t *Term, c *big.Int) {
	if v, ok := isConstInt(t); ok {
		ln.k.Add(ln.k, new(big.Int).Mul(v, c))
		return
	}
	_, signed, isInt := intKind(termType(t))
	if ln.ring {
		signed = true
	}
	if t.Op == "bin" && isInt && signed {
		switch t.Name {
		case "+":
			ln.add(t.Args[0], c)
			ln.add(t.Args[1], c)
			return
		case "-":
			ln.add(t.Args[0], c)
			ln.add(t.Args[1], new(big.Int).Neg(c))
			return
		case "*":
			if v, ok := isConstInt(t.Args[1]); ok {
				ln.add(t.Args[0], new(big.Int).Mul(c, v))
				return
			}
			if v, ok := isConstInt(t.Args[0]); ok {
				ln.add(t.Args[1], new(big.Int).Mul(c, v))
				return
			}
		}
	}
	if t.Op == "un" && t.Name == "-" && isInt && signed {
		ln.add(t.Args[0], new(big.Int).Neg(c))
		return
	}
	// an ascending counter started at a constant is the counter started at 0 plus that constant: j+6 <= n and j <= n-6 are one literal
	if t.Op == "ind" && len(t.Args) == 1 && strings.HasPrefix(t.Name, "+") && isInt && signed {
		if v, ok := isConstInt(t.Args[0]); ok && v.Sign() != 0 {
			ln.k.Add(ln.k, new(big.Int).Mul(v, c))
			t = &Term{Op: "ind", Name: t.Name, V: t.V, Args: []*Term{mkConst(big.NewInt(0), t.Args[0].V)}}
		}
	}
	key := t.String()
	if ln.coef[key] == nil {
		ln.coef[key] = new(big.Int)
		ln.atoms[key] = t
	}
	ln.coef[key].Add(ln.coef[key], c)
}

func nonNegative(t *Term) bool {
	if t.Op == "len" || t.Op == "cap" {
		return true
	}
	if _, signed, ok := intKind(termType(t)); ok && !signed {
		return true
	}
	return false
}

func canonLinearCmp(t *Term) *Term {
	l, r := t.Args[0], t.Args[1]
	op := t.Name
	_, lsigned, lok := intKind(termType(l))
	_, rsigned, rok := intKind(termType(r))
	if l.Op == "len" || l.Op == "cap" {
		lsigned, lok = true, true
	}
	if r.Op == "len" || r.Op == "cap" {
		rsigned, rok = true, true
	}
	if _, isC := isConstInt(r); isC {
		rsigned, rok = lsigned, lok
	}
	if _, isC := isConstInt(l); isC {
		lsigned, lok = rsigned, rok
	}
	if !lok || !rok {
		return t
	}
	if lsigned && rsigned {
		ln := newLinear()
		ln.add(l, big.NewInt(1))
		ln.add(r, big.NewInt(-1))
		var keys []string
		for k, c := range ln.coef {
			if c.Sign() != 0 {
				keys = append(keys, k)
			}
		}
		if len(keys) == 0 {
			return t
		}
		sort.Strings(keys)
		k := new(big.Int).Neg(ln.k) // Σ c a  op  k
		if ln.coef[keys[0]].Sign() < 0 {
			for _, key := range keys {
				ln.coef[key].Neg(ln.coef[key])
			}
			k.Neg(k)
			op = map[string]string{"==": "==", "!=": "!=", "<": ">", "<=": ">=", ">": "<", ">=": "<="}[op]
		}
		// common factor
		g := new(big.Int)
		for _, key := range keys {
			g.GCD(nil, nil, g, new(big.Int).Abs(ln.coef[key]))
		}
		if g.Cmp(big.NewInt(1)) > 0 && (op == "==" || op == "!=") && new(big.Int).Mod(k, g).Sign() == 0 {
			for _, key := range keys {
				ln.coef[key].Quo(ln.coef[key], g)
			}
			k.Quo(k, g)
		}
		switch op {
		case "<=":
			op, k = "<", new(big.Int).Add(k, big.NewInt(1))
		case ">":
			op, k = ">=", new(big.Int).Add(k, big.NewInt(1))
		}
		// build Σ
		var sum *Term
		for _, key := range keys {
			a := ln.atoms[key]
			c := ln.coef[key]
			term := a
			abs := new(big.Int).Abs(c)
			if abs.Cmp(big.NewInt(1)) != 0 {
				term = &Term{Op: "bin", Name: "*", V: a.V, Args: []*Term{a, mkConst(abs, nil)}}
			}
			switch {
			case sum == nil:
				sum = term
			case c.Sign() > 0:
				sum = &Term{Op: "bin", Name: "+", V: a.V, Args: []*Term{sum, term}}
			default:
				sum = &Term{Op: "bin", Name: "-", V: a.V, Args: []*Term{sum, term}}
			}
		}
		if len(keys) == 1 && ln.coef[keys[0]].Cmp(big.NewInt(1)) == 0 && nonNegative(ln.atoms[keys[0]]) {
			op, k = nonNegOp(op, k)
		}
		if len(keys) == 1 && ln.coef[keys[0]].Cmp(big.NewInt(1)) == 0 && zeroOrOne(ln.atoms[keys[0]]) {
			// a constant-time comparison yields 0 or 1: x == 0 ⟺ x != 1, x < 1 ⟺ x != 1, x >= 1 ⟺ x == 1
			switch {
			case op == "==" && k.Sign() == 0, op == "<" && k.Cmp(big.NewInt(1)) == 0:
				op, k = "!=", big.NewInt(1)
			case op == "!=" && k.Sign() == 0, op == ">=" && k.Cmp(big.NewInt(1)) == 0:
				op, k = "==", big.NewInt(1)
			}
		}
		if len(keys) == 1 && ln.coef[keys[0]].Cmp(big.NewInt(1)) == 0 && minusOneOrMore(ln.atoms[keys[0]]) && k.Sign() == 0 {
			// x < 0 ⟺ x == -1 and x >= 0 ⟺ x != -1 for a result that is -1 or an index
			switch op {
			case "<":
				op, k = "==", big.NewInt(-1)
			case ">=":
				op, k = "!=", big.NewInt(-1)
			}
		}
		// two atoms a − b: a direct relation between the atoms
		if len(keys) == 2 && ln.coef[keys[0]].Cmp(big.NewInt(1)) == 0 && ln.coef[keys[1]].Cmp(big.NewInt(-1)) == 0 {
			a, bb := ln.atoms[keys[0]], ln.atoms[keys[1]]
			switch {
			case k.Sign() == 0:
				return &Term{Op: "bin", Name: op, V: t.V, Args: []*Term{a, bb}}
			case k.Cmp(big.NewInt(1)) == 0 && op == ">=": // a − b >= 1  ⟺  b < a
				return &Term{Op: "bin", Name: "<", V: t.V, Args: []*Term{bb, a}}
			case k.Cmp(big.NewInt(1)) == 0 && op == "<": // a − b < 1  ⟺  b >= a
				return &Term{Op: "bin", Name: ">=", V: t.V, Args: []*Term{bb, a}}
			}
		}
		return &Term{Op: "bin", Name: op, V: t.V, Args: []*Term{sum, mkConst(k, r.V)}}
	}
	// unsigned (or mixed), no constant: a fixed operand order (a < b and b > a are one literal)
	if _, lc := isConstInt(l); !lc {
		if _, rc := isConstInt(r); !rc && l.String() > r.String() {
			flip := map[string]string{"==": "==", "!=": "!=", "<": ">", "<=": ">=", ">": "<", ">=": "<="}[op]
			l, r, op = r, l, flip
		}
	}
	if _, isC := isConstInt(r); !isC {
		// only < and >= (and ==, !=): a <= b is !(b < a) = b >= a … expressed with swapped operands
		switch op {
		case "<=":
			l, r, op = r, l, ">="
		case ">":
			l, r, op = r, l, "<"
		}
		return &Term{Op: "bin", Name: op, V: t.V, Args: []*Term{l, r}}
	}
	// unsigned (or mixed): only operator normalisation against a constant
	if k, isC := isConstInt(r); isC {
		switch op {
		case "<=":
			op, k = "<", new(big.Int).Add(k, big.NewInt(1))
		case ">":
			op, k = ">=", new(big.Int).Add(k, big.NewInt(1))
		}
		if nonNegative(l) {
			op, k = nonNegOp(op, k)
		}
		return &Term{Op: "bin", Name: op, V: t.V, Args: []*Term{l, mkConst(k, r.V)}}
	}
	return t
}

// zeroOrOne: results of the constant-time comparison routines are 0 or 1.
func zeroOrOne(t *Term) bool {
	if t.Op != "call" {
		return false
	}
	switch t.Name {
	case "(*filippo.io/edwards25519.Scalar).Equal", "(*filippo.io/edwards25519.Point).Equal", "(*filippo.io/edwards25519/field.Element).Equal",
		"crypto/subtle.ConstantTimeCompare", "crypto/subtle.ConstantTimeEq", "crypto/subtle.ConstantTimeByteEq", "crypto/subtle.ConstantTimeLessOrEq":
		return true
	}
	return false
}

// minusOneOrMore: results of the Index family are -1 or a valid index.
func minusOneOrMore(t *Term) bool {
	if t.Op != "call" {
		return false
	}
	switch t.Name {
	case "strings.Index", "strings.LastIndex", "strings.IndexByte", "strings.LastIndexByte", "strings.IndexAny", "strings.IndexRune", "strings.IndexFunc",
		"bytes.Index", "bytes.LastIndex", "bytes.IndexByte", "bytes.LastIndexByte":
		return true
	}
	return false
}

func nonNegOp(op string, k *big.Int) (string, *big.Int) {
	if op == "<" && k.Cmp(big.NewInt(1)) == 0 {
		return "==", big.NewInt(0)
	}
	if op == ">=" && k.Cmp(big.NewInt(1)) == 0 {
		return "!=", big.NewInt(0)
	}
	return op, k
}

var _ = strconv.Itoa
var _ ssa.Value

// canonLinearVal rewrites a signed sum into Σ(+atoms) − Σ(−atoms) ± k with
// sorted atoms, so `243-(s-1)`, `243-s+1` and `244-s` are one term.
func canonLinearVal(t *Term) *Term {
	if t.Name == "*" {
		// only products by a constant of a sum are worth distributing
		if _, ok := isConstInt(t.Args[1]); !ok || !(t.Args[0].Op == "ind" || t.Args[0].Op == "bin" && (t.Args[0].Name == "+" || t.Args[0].Name == "-")) {
			return nil
		}
	}
	ln := newLinear()
	ln.ring = true
	ln.add(t, big.NewInt(1))
	// a scaled counter c·ind<s>(X) (c ≠ ±1) is c·ind<s>(0) + c·X, so (i+1)·40 and i·40+40 agree;
	// a unit counter absorbs the constant: ind<s>(X) + d = ind<s>(X+d)
	for k, c := range ln.coef {
		a := ln.atoms[k]
		if c.Sign() == 0 || a.Op != "ind" || len(a.Args) != 1 || new(big.Int).Abs(c).Cmp(big.NewInt(1)) == 0 {
			continue
		}
		if c0, ok := isConstInt(a.Args[0]); ok && c0.Sign() == 0 {
			continue
		}
		if _, okS := parseStep(a.Name); !okS {
			continue
		}
		coef := new(big.Int).Set(c)
		delete(ln.coef, k)
		delete(ln.atoms, k)
		base := &Term{Op: "ind", Name: a.Name, V: a.V, Args: []*Term{mkConst(big.NewInt(0), nil)}}
		ln.add(base, coef)
		ln.add(a.Args[0], coef)
	}
	var indKey string
	nAtoms := 0
	for k, c := range ln.coef {
		if c.Sign() != 0 {
			nAtoms++
			if ln.atoms[k].Op == "ind" && c.Cmp(big.NewInt(1)) == 0 {
				indKey = k
			}
		}
	}
	if nAtoms == 1 && indKey != "" && ln.k.Sign() != 0 {
		ind := ln.atoms[indKey]
		if sh := canonIndShift(&Term{Op: "bin", Name: "+", V: t.V, Args: []*Term{ind, mkConst(ln.k, nil)}}); sh != nil {
			return sh
		}
	}
	return ln.build(t)
}

// build renders the linear form: positive atoms, negative atoms, constant; sorted.
func (ln *linear) build(t *Term) *Term {
	var pos, neg []string
	for k, c := range ln.coef {
		switch c.Sign() {
		case 1:
			pos = append(pos, k)
		case -1:
			neg = append(neg, k)
		}
	}
	sort.Strings(pos)
	sort.Strings(neg)
	if len(pos)+len(neg) == 0 {
		return mkConst(ln.k, t.V)
	}
	scaled := func(key string) *Term {
		a := ln.atoms[key]
		abs := new(big.Int).Abs(ln.coef[key])
		if abs.Cmp(big.NewInt(1)) == 0 {
			return a
		}
		// an ascending counter times a constant is the counter with the scaled step and start: i·6 for i = 0,1,… is 0,6,…
		if a.Op == "ind" && len(a.Args) == 1 && strings.HasPrefix(a.Name, "+") && abs.IsInt64() {
			if st, okS := parseStep(a.Name); okS && st.Sign() > 0 {
				if k0, okK := isConstInt(a.Args[0]); okK && k0.IsInt64() {
					ns := new(big.Int).Mul(st, abs)
					nk := new(big.Int).Mul(k0, abs)
					if ns.IsInt64() && nk.IsInt64() {
						return &Term{Op: "ind", Name: "+" + ns.String(), V: a.V, Args: []*Term{mkConst(nk, a.Args[0].V)}}
					}
				}
			}
		}
		return &Term{Op: "bin", Name: "*", V: t.V, Args: []*Term{a, mkConst(abs, nil)}}
	}
	var acc *Term
	k := ln.k
	if len(pos) > 0 {
		acc = scaled(pos[0])
		for _, key := range pos[1:] {
			acc = &Term{Op: "bin", Name: "+", V: t.V, Args: []*Term{acc, scaled(key)}}
		}
	} else {
		acc = mkConst(k, t.V)
		k = new(big.Int)
	}
	for _, key := range neg {
		acc = &Term{Op: "bin", Name: "-", V: t.V, Args: []*Term{acc, scaled(key)}}
	}
	switch k.Sign() {
	case 1:
		acc = &Term{Op: "bin", Name: "+", V: t.V, Args: []*Term{acc, mkConst(k, nil)}}
	case -1:
		acc = &Term{Op: "bin", Name: "-", V: t.V, Args: []*Term{acc, mkConst(new(big.Int).Neg(k), nil)}}
	}
	if acc.Op != "bin" {
		return acc
	}
	acc.V = t.V
	return acc
}

// canonIndShift: (i ± d) for a counter i = ind<s>(init) and a constant d is the
// counter ind<s>(init ± d): `for i := n; i >= 1; i-- { x[i-1] }` and
// `for i := n-1; i >= 0; i-- { x[i] }` index with the same term.
func canonIndShift(t *Term) *Term {
	if t.Name != "+" && t.Name != "-" {
		return nil
	}
	l, r := t.Args[0], t.Args[1]
	d, isC := isConstInt(r)
	if l.Op != "ind" || len(l.Args) != 1 || !isC {
		return nil
	}
	if _, ok := parseStep(l.Name); !ok {
		return nil
	}
	if t.Name == "-" {
		d = new(big.Int).Neg(d)
	}
	init := l.Args[0]
	var ninit *Term
	if c0, ok := isConstInt(init); ok {
		ninit = mkConst(new(big.Int).Add(c0, d), init.V)
	} else {
		_, signed, ok := intKind(termType(init))
		if !ok || !signed {
			return nil
		}
		sum := &Term{Op: "bin", Name: "+", V: init.V, Args: []*Term{init, mkConst(d, nil)}}
		ninit = canonLinearVal(sum)
		if ninit == nil {
			ninit = sum
		}
	}
	return &Term{Op: "ind", Name: l.Name, V: t.V, Args: []*Term{ninit}}
}

// canonIndQuotCmp: a counter of groups compared with the number of whole groups. For X >= 0 and a constant c > 0,
// i < X/c  <=>  c·(i+1) <= X  <=>  c·i − X < −(c−1): the comparison `j <= X−c` of the counter j = c·i of the group starts.
func canonIndQuotCmp(t *Term) *Term {
	if t.Name != "<" && t.Name != ">=" {
		return nil
	}
	l, r := t.Args[0], t.Args[1]
	if l.Op != "ind" || len(l.Args) != 1 || r.Op != "bin" || r.Name != "/" || len(r.Args) != 2 {
		return nil
	}
	cv, ok := isConstInt(r.Args[1])
	if !ok || cv.Sign() <= 0 || cv.Cmp(big.NewInt(1)) == 0 || !nonNegative(r.Args[0]) {
		return nil
	}
	step, ok := parseStep(l.Name)
	a, okA := isConstInt(l.Args[0])
	if !ok || !okA || step.Sign() <= 0 {
		return nil
	}
	j := &Term{Op: "ind", Name: "+" + new(big.Int).Mul(step, cv).String(), V: l.V, Args: []*Term{mkConst(new(big.Int).Mul(a, cv), l.Args[0].V)}}
	diff := &Term{Op: "bin", Name: "-", V: l.V, Args: []*Term{j, r.Args[0]}}
	k := new(big.Int).Sub(big.NewInt(1), cv) // −(c−1)
	return canonLinearCmp(&Term{Op: "bin", Name: t.Name, V: t.V, Args: []*Term{diff, mkConst(k, nil)}})
}

// canonIndCmp: a descending counter compared with a non-zero constant k is the shifted counter compared with 0.
func canonIndCmp(t *Term) *Term {
	l, r := t.Args[0], t.Args[1]
	k, isC := isConstInt(r)
	if !isC || k.Sign() == 0 || l.Op != "ind" || len(l.Args) != 1 {
		return nil
	}
	step, ok := parseStep(l.Name)
	if !ok || step.Sign() >= 0 {
		return nil
	}
	sh := canonIndShift(&Term{Op: "bin", Name: "-", V: l.V, Args: []*Term{l, r}})
	if sh == nil {
		return nil
	}
	return &Term{Op: "bin", Name: t.Name, V: t.V, Args: []*Term{sh, mkConst(big.NewInt(0), r.V)}}
}
