package ana

import (
	"go/token"
	"math/big"

	"golang.org/x/tools/go/ssa"
)

// Edge is a CFG edge.
type Edge struct{ From, To *ssa.BasicBlock }

// CondEdge is a branch edge labelled with the literal that holds on it.
type CondEdge struct {
	Edge
	If    *ssa.If
	Lit   *Term // normalised literal true on this edge: bin<op>(l, r) | un<!>(x) | x
	Taken bool  // true = the `then` successor of the If
}

// Pos is the source position of the branch condition.
func (ce CondEdge) Pos() token.Pos {
	if ce.If.Cond.Pos().IsValid() {
		return ce.If.Cond.Pos()
	}
	// fall back to any positioned instruction of the branching block
	for i := len(ce.From.Instrs) - 1; i >= 0; i-- {
		if p := ce.From.Instrs[i].Pos(); p.IsValid() {
			return p
		}
	}
	return token.NoPos
}

var negOp = map[string]string{"==": "!=", "!=": "==", "<": ">=", ">=": "<", ">": "<=", "<=": ">"}

// Negate returns the literal that holds when lit does not.
func Negate(lit *Term) *Term {
	if lit.Op == "bin" {
		if n, ok := negOp[lit.Name]; ok {
			return &Term{Op: "bin", Name: n, Args: lit.Args, V: lit.V}
		}
	}
	if lit.Op == "un" && lit.Name == "!" {
		return lit.Args[0]
	}
	if lit.Op == "and" || lit.Op == "or" {
		n := &Term{Op: map[string]string{"and": "or", "or": "and"}[lit.Op], V: lit.V}
		for _, a := range lit.Args {
			n.Args = append(n.Args, Negate(a))
		}
		return n
	}
	return &Term{Op: "un", Name: "!", Args: []*Term{lit}, V: lit.V}
}

// CondEdges lists both out-edges of every If of the builder's function with
// the literal that holds on each. `!x` conditions are folded into polarity.
func (b *Builder) CondEdges() []CondEdge {
	var out []CondEdge
	for _, blk := range b.Fn.Blocks {
		if len(blk.Instrs) == 0 {
			continue
		}
		ifi, ok := blk.Instrs[len(blk.Instrs)-1].(*ssa.If)
		if !ok {
			continue
		}
		lit := b.Of(ifi.Cond, ifi)
		// a condition computed as !x (tagless switch cases, stored booleans): the positive literal is x on the other edge
		s0, s1 := blk.Succs[0], blk.Succs[1]
		for lit.Op == "un" && lit.Name == "!" {
			lit = Negate(lit)
			s0, s1 = s1, s0
		}
		out = append(out,
			CondEdge{Edge{blk, s0}, ifi, lit, s0 == blk.Succs[0]},
			CondEdge{Edge{blk, s1}, ifi, Negate(lit), s1 == blk.Succs[0]})
	}
	return out
}

// ReachableAvoiding returns the blocks reachable from the entry when the given
// edges are removed from the CFG.
func ReachableAvoiding(fn *ssa.Function, removed []Edge) map[*ssa.BasicBlock]bool {
	rm := map[Edge]bool{}
	for _, e := range removed {
		rm[e] = true
	}
	seen := map[*ssa.BasicBlock]bool{}
	if len(fn.Blocks) == 0 {
		return seen
	}
	var dfs func(*ssa.BasicBlock)
	dfs = func(x *ssa.BasicBlock) {
		seen[x] = true
		for _, s := range x.Succs {
			if rm[Edge{x, s}] || seen[s] {
				continue
			}
			dfs(s)
		}
	}
	dfs(fn.Blocks[0])
	return seen
}

// ReachableFrom returns blocks reachable from start (inclusive) avoiding edges.
func ReachableFrom(start *ssa.BasicBlock, removed []Edge) map[*ssa.BasicBlock]bool {
	rm := map[Edge]bool{}
	for _, e := range removed {
		rm[e] = true
	}
	seen := map[*ssa.BasicBlock]bool{}
	var dfs func(*ssa.BasicBlock)
	dfs = func(x *ssa.BasicBlock) {
		seen[x] = true
		for _, s := range x.Succs {
			if rm[Edge{x, s}] || seen[s] {
				continue
			}
			dfs(s)
		}
	}
	dfs(start)
	return seen
}

// Exit is a return or panic of a function.
type Exit struct {
	// Instr is the return or panic instruction — or, for one case of a merged return (see Exits), the terminator of
	// the predecessor block that selects the case, so that Instr.Block() is the block whose execution means "this exit".
	Instr   ssa.Instruction
	Ret     *ssa.Return // the return instruction (nil for a panic)
	Panic   bool
	Results []ssa.Value // for returns
	Via     *Edge       // one case of a merged return: the edge into the block that only merges results and returns
}

// Exits lists all returns and panics of fn. A return block that does nothing
// but merge result variables (phis) and return — `res := a; if c { res = b };
// return res`, named results assigned on several paths — is listed as one exit
// per incoming edge with that edge's values, exactly as if each path had its
// own return statement.
func Exits(fn *ssa.Function) []Exit {
	var out []Exit
	for _, e := range rawExits(fn) {
		if e.Panic {
			out = append(out, e)
			continue
		}
		blk := e.Ret.Block()
		pure, hasPhi := len(blk.Preds) >= 2, false
		for _, ins := range blk.Instrs {
			switch x := ins.(type) {
			case *ssa.Phi:
				if x.Comment == "&&" || x.Comment == "||" {
					pure = false // `return a && b` is one exit returning a boolean expression (an and/or term)
				}
				for _, r := range e.Results {
					if r == ssa.Value(x) {
						hasPhi = true
					}
				}
			case *ssa.DebugRef, *ssa.Return:
			default:
				pure = false
			}
		}
		if !pure || !hasPhi {
			out = append(out, e)
			continue
		}
		for i, p := range blk.Preds {
			if len(p.Instrs) == 0 {
				continue
			}
			res := make([]ssa.Value, len(e.Results))
			for k, r := range e.Results {
				if phi, ok := r.(*ssa.Phi); ok && phi.Block() == blk {
					res[k] = phi.Edges[i]
				} else {
					res[k] = r
				}
			}
			out = append(out, Exit{Instr: p.Instrs[len(p.Instrs)-1], Ret: e.Ret, Results: res, Via: &Edge{From: p, To: blk}})
		}
	}
	return out
}

func rawExits(fn *ssa.Function) []Exit {
	var out []Exit
	for _, blk := range fn.Blocks {
		if len(blk.Instrs) == 0 {
			continue
		}
		switch x := blk.Instrs[len(blk.Instrs)-1].(type) {
		case *ssa.Return:
			out = append(out, Exit{Instr: x, Ret: x, Results: x.Results})
		case *ssa.Panic:
			out = append(out, Exit{Instr: x, Panic: true})
		}
	}
	return out
}

// ReturnCases expands returns whose result i is a phi into one case per
// incoming edge: (block the value comes from, value). This makes
// `return cond1 && cond2`-style and merged returns analysable per path.
type ReturnCase struct {
	Ret   *ssa.Return
	Block *ssa.BasicBlock // block whose execution selects this value (the phi predecessor, or the return block)
	Val   ssa.Value
	To    *ssa.BasicBlock // the block of the phi the value flows into (nil when the result is not a phi): Block→To is the selecting edge
}

func ReturnCases(fn *ssa.Function, result int) []ReturnCase {
	var out []ReturnCase
	for _, e := range rawExits(fn) {
		if e.Panic || result >= len(e.Results) {
			continue
		}
		ret := e.Ret
		var expand func(v ssa.Value, blk, to *ssa.BasicBlock, depth int)
		expand = func(v ssa.Value, blk, to *ssa.BasicBlock, depth int) {
			if phi, ok := v.(*ssa.Phi); ok && depth < 8 {
				for i, ev := range phi.Edges {
					expand(ev, phi.Block().Preds[i], phi.Block(), depth+1)
				}
				return
			}
			out = append(out, ReturnCase{ret, blk, v, to})
		}
		expand(e.Results[result], ret.Block(), nil, 0)
	}
	return out
}

// IsConstBool reports whether v is the boolean constant val.
func IsConstBool(v ssa.Value, val bool) bool {
	c, ok := v.(*ssa.Const)
	if !ok || c.Value == nil {
		return false
	}
	return c.Value.String() == map[bool]string{true: "true", false: "false"}[val]
}

// IsNilConst reports whether v is a nil constant.
func IsNilConst(v ssa.Value) bool {
	c, ok := v.(*ssa.Const)
	return ok && c.Value == nil && isNillable(c.Type())
}

// Calls lists the call instructions (call, go, defer) of fn in block order.
func Calls(fn *ssa.Function) []ssa.CallInstruction {
	var out []ssa.CallInstruction
	for _, blk := range fn.Blocks {
		for _, ins := range blk.Instrs {
			if ci, ok := ins.(ssa.CallInstruction); ok {
				out = append(out, ci)
			}
		}
	}
	return out
}

// CallsTo lists calls in fn whose resolved callee name equals one of names.
func CallsTo(fn *ssa.Function, names ...string) []ssa.CallInstruction {
	var out []ssa.CallInstruction
	for _, ci := range Calls(fn) {
		n := CalleeName(ci.Common())
		for _, want := range names {
			if n == want {
				out = append(out, ci)
			}
		}
	}
	return out
}

// BackEdges returns the edges u->v where v dominates u (natural loop back edges).
func BackEdges(fn *ssa.Function) []Edge {
	var out []Edge
	for _, blk := range fn.Blocks {
		for _, s := range blk.Succs {
			if s.Dominates(blk) {
				out = append(out, Edge{blk, s})
			}
		}
	}
	return out
}

// LoopBlocks returns the natural loop of back edge e.
func LoopBlocks(e Edge) map[*ssa.BasicBlock]bool {
	loop := map[*ssa.BasicBlock]bool{e.To: true}
	var stack []*ssa.BasicBlock
	if !loop[e.From] {
		loop[e.From] = true
		stack = append(stack, e.From)
	}
	for len(stack) > 0 {
		x := stack[len(stack)-1]
		stack = stack[:len(stack)-1]
		for _, p := range x.Preds {
			if !loop[p] {
				loop[p] = true
				stack = append(stack, p)
			}
		}
	}
	return loop
}

// IsCmp reports whether lit is bin<op>(l, r) and returns the parts.
func IsCmp(lit *Term) (op string, l, r *Term, ok bool) {
	if lit == nil || lit.Op != "bin" || len(lit.Args) != 2 {
		return "", nil, nil, false
	}
	switch lit.Name {
	case "==", "!=", "<", "<=", ">", ">=":
		return lit.Name, lit.Args[0], lit.Args[1], true
	}
	return "", nil, nil, false
}

// LitMatches reports whether passing an edge labelled lit establishes a fact
// matching one of the patterns: a conjunction establishes each of its
// conjuncts; a disjunction only what every disjunct establishes.
func LitMatches(lit *Term, patterns ...string) bool {
	if lit == nil {
		return false
	}
	if _, ok := MatchAny(lit, patterns...); ok {
		return true
	}
	switch lit.Op {
	case "and":
		for _, a := range lit.Args {
			if LitMatches(a, patterns...) {
				return true
			}
		}
	case "or":
		for _, a := range lit.Args {
			if !LitMatches(a, patterns...) {
				return false
			}
		}
		return len(lit.Args) > 0
	}
	return false
}

var _ = token.NoPos

// evalByteLit evaluates a branch literal that is a function of one unsigned 8-bit atom alone (comparisons of integer
// expressions over that atom and constants, combined with and / or / !) for the atom value v.
func evalByteLit(lit *Term, isAtom func(*Term) bool, v int64) (truth, ok bool) {
	switch lit.Op {
	case "and", "or":
		res := lit.Op == "and"
		for _, a := range lit.Args {
			t, ok := evalByteLit(a, isAtom, v)
			if !ok {
				return false, false
			}
			if lit.Op == "and" {
				res = res && t
			} else {
				res = res || t
			}
		}
		return res, true
	case "un":
		if lit.Name == "!" && len(lit.Args) == 1 {
			t, ok := evalByteLit(lit.Args[0], isAtom, v)
			return !t, ok
		}
	case "bin":
		if !cmpOps[lit.Name] || len(lit.Args) != 2 {
			return false, false
		}
		var atom *Term
		good := true
		findByteAtom(lit.Args[0], &atom, &good)
		findByteAtom(lit.Args[1], &atom, &good)
		if !good || atom == nil || !isAtom(atom) {
			return false, false
		}
		if _, signed, _ := intKind(termType(atom)); signed {
			return false, false
		}
		x, ok1 := evalInt(lit.Args[0], atom, big.NewInt(v))
		y, ok2 := evalInt(lit.Args[1], atom, big.NewInt(v))
		if !ok1 || !ok2 {
			return false, false
		}
		return evalCmp(lit.Name, x, y), true
	}
	return false, false
}

// ByteReach decides a per-element predicate written as control flow: for every value v of the unsigned 8-bit atom
// recognised by isAtom it returns the blocks reachable from the entry on the CFG without back edges (one generic
// iteration of every loop) after removing each conditional edge whose literal is a function of that atom alone and is
// false for v. Every other branch passes both ways (over-approximation). lits is the number of such literals.
func (b *Builder) ByteReach(isAtom func(*Term) bool) (reach [256]map[*ssa.BasicBlock]bool, lits int) {
	back := BackEdges(b.Fn)
	ces := b.CondEdges()
	for v := 0; v < 256; v++ {
		removed := append([]Edge{}, back...)
		for _, ce := range ces {
			if t, ok := evalByteLit(ce.Lit, isAtom, int64(v)); ok {
				if v == 0 {
					lits++
				}
				if !t {
					removed = append(removed, ce.Edge)
				}
			}
		}
		reach[v] = ReachableAvoiding(b.Fn, removed)
	}
	return reach, lits
}
