package ana

import (
	"fmt"
	"go/types"
	"math/big"
	"strconv"
	"strings"

	"golang.org/x/tools/go/ssa"
)

// Pattern language over canonical terms. Syntax = Term.String() syntax plus
//   $x   binds (or, when already bound, must equal) a sub-term
//   _    matches any sub-term
//   ...  as last argument: matches any remaining arguments
// Package aliases in names are expanded before parsing (see Aliases).

var Aliases = map[string]string{
	"ed.":   "filippo.io/edwards25519.",
	"repo/": Module + "/",
}

type pat struct {
	op, name string
	idx      int
	hasIdx   bool
	args     []*pat
	wild     string // "$x" or "_" or "..."
	lit      string // const / pN / nil / self / none literal text
}

type patParser struct {
	s string
	i int
}

// Expand replaces package aliases (ed., repo/) in a term or pattern string.
func Expand(s string) string { return expandAliases(s) }

// GlobalRenames maps the pinned full name of an unexported package-level variable to its current full name
// (filled by the rules' anchor resolution); patterns are rewritten accordingly.
var GlobalRenames = map[string]string{}

func expandAliases(s string) string {
	for k, v := range Aliases {
		s = strings.ReplaceAll(s, k, v)
	}
	for k, v := range GlobalRenames {
		s = strings.ReplaceAll(s, "global<"+k+">", "global<"+v+">")
	}
	return s
}

// ParsePat parses a pattern; it panics on syntax errors (patterns are checker source).
func ParsePat(s string) *pat {
	raw := strings.HasPrefix(s, "raw:") // raw: the pattern is not canonicalised (comparisons of non-integers)
	s = strings.TrimPrefix(s, "raw:")
	p := &patParser{s: expandAliases(s)}
	r := p.term()
	p.ws()
	if p.i != len(p.s) {
		panic(fmt.Sprintf("pattern: trailing input at %d in %q", p.i, p.s))
	}
	if raw {
		return r
	}
	return canonPat(r)
}

func patInt(p *pat) (*big.Int, bool) {
	if p == nil || p.lit == "" {
		return nil, false
	}
	v, ok := new(big.Int).SetString(p.lit, 10)
	return v, ok
}

// canonPat applies to patterns the part of canonBin (canon.go) that needs no
// type information, so rule texts may keep the spelling of the pinned source:
// operator normalisation against constants, len/cap compared with 0/1, the
// range-loop index, single-bit tests. Type-dependent forms (signed
// linearisation, unsigned division) must be written canonically in the rule.
func canonPat(p *pat) *pat {
	if p == nil {
		return p
	}
	for i, a := range p.args {
		p.args[i] = canonPat(a)
	}
	if p.op == "slice" && len(p.args) == 3 && p.args[2].lit != "" {
		// a[lo:N] of an array [N]T is a[lo:] (as in canonSlice)
		root := p.args[0]
		if root.op == "obj" && len(root.args) > 0 {
			root = root.args[0]
		}
		if root.op == "alloc" && strings.HasPrefix(root.name, "[") {
			if i := strings.Index(root.name, "]"); i > 1 && root.name[1:i] == p.args[2].lit {
				p.args[2] = &pat{lit: "none"}
			}
		}
		return p
	}
	if p.op != "bin" || len(p.args) != 2 {
		return p
	}
	l, r := p.args[0], p.args[1]
	if (p.name == "==" || p.name == "!=") && r.lit == `""` {
		return &pat{op: "bin", name: p.name, args: []*pat{{op: "len", args: []*pat{l}}, {lit: "0"}}}
	}
	if cmpOps[p.name] {
		if _, lc := patInt(l); lc {
			if _, rc := patInt(r); !rc {
				l, r = r, l
				p.args[0], p.args[1] = l, r
				p.name = swapOp[p.name]
			}
		}
		k, isC := patInt(r)
		if isC {
			switch p.name {
			case "<=":
				p.name, k = "<", new(big.Int).Add(k, big.NewInt(1))
			case ">":
				p.name, k = ">=", new(big.Int).Add(k, big.NewInt(1))
			}
			if l.op == "len" || l.op == "cap" {
				p.name, k = nonNegOp(p.name, k)
			}
			p.args[1] = &pat{lit: k.String()}
			// bit tests
			if (p.name == "==" || p.name == "!=") && l.op == "bin" && l.name == "&" && len(l.args) == 2 {
				x, m := l.args[0], l.args[1]
				if k.Sign() == 0 {
					for n := 0; n < 2; n++ {
						if m.op == "bin" && m.name == "<<" && len(m.args) == 2 {
							if one, ok := patInt(m.args[0]); ok && one.Cmp(big.NewInt(1)) == 0 {
								sh := &pat{op: "bin", name: ">>", args: []*pat{x, m.args[1]}}
								p.args[0] = &pat{op: "bin", name: "&", args: []*pat{sh, &pat{lit: "1"}}}
								return p
							}
						}
						x, m = m, x
					}
				} else if mc, ok := patInt(l.args[1]); ok && mc.Cmp(k) == 0 && log2(mc) >= 0 {
					if p.name == "==" {
						p.name = "!="
					} else {
						p.name = "=="
					}
					p.args[1] = &pat{lit: "0"}
				}
			}
		}
		return p
	}
	if p.name == "/" && l.op == "bin" && l.name == "*" && len(l.args) == 2 {
		if bv, ok := patInt(r); ok && bv.Sign() > 0 {
			if av, ok := patInt(l.args[1]); ok && av.Sign() > 0 && new(big.Int).Mod(bv, av).Sign() == 0 {
				q := new(big.Int).Quo(bv, av)
				if q.Cmp(big.NewInt(1)) == 0 {
					return l.args[0]
				}
				return &pat{op: "bin", name: "/", args: []*pat{l.args[0], {lit: q.String()}}}
			}
		}
	}
	if (p.name == "+" || p.name == "-") && l.op == "ind" && len(l.args) == 1 {
		if _, ok := parseStep(l.name); ok {
			if k, isC := patInt(r); isC {
				if c0, isC0 := patInt(l.args[0]); isC0 {
					if p.name == "-" {
						k = new(big.Int).Neg(k)
					}
					return &pat{op: "ind", name: l.name, args: []*pat{{lit: new(big.Int).Add(c0, k).String()}}}
				}
			}
		}
	}
	return p
}

func (p *patParser) ws() {
	for p.i < len(p.s) && (p.s[p.i] == ' ' || p.s[p.i] == '\n' || p.s[p.i] == '\t') {
		p.i++
	}
}

func (p *patParser) term() *pat {
	p.ws()
	if p.i >= len(p.s) {
		panic("pattern: unexpected end in " + p.s)
	}
	c := p.s[p.i]
	switch {
	case c == '$':
		j := p.i + 1
		for j < len(p.s) && (isIdent(p.s[j])) {
			j++
		}
		w := p.s[p.i:j]
		p.i = j
		return &pat{wild: w}
	case c == '_':
		p.i++
		return &pat{wild: "_"}
	case strings.HasPrefix(p.s[p.i:], "..."):
		p.i += 3
		return &pat{wild: "..."}
	case c == '"':
		j := p.i + 1
		for j < len(p.s) && p.s[j] != '"' {
			if p.s[j] == '\\' {
				j++
			}
			j++
		}
		lit := p.s[p.i : j+1]
		p.i = j + 1
		return &pat{lit: lit}
	case c == '-' || (c >= '0' && c <= '9'):
		j := p.i + 1
		for j < len(p.s) && (isIdent(p.s[j]) || p.s[j] == '.' || p.s[j] == '/') {
			j++
		}
		lit := p.s[p.i:j]
		p.i = j
		return &pat{lit: lit}
	}
	j := p.i
	for j < len(p.s) && isIdent(p.s[j]) {
		j++
	}
	op := p.s[p.i:j]
	p.i = j
	if op == "" {
		panic(fmt.Sprintf("pattern: unexpected %q at %d in %q", c, p.i, p.s))
	}
	switch op {
	case "nil", "self", "none", "true", "false":
		return &pat{lit: op}
	}
	if len(op) >= 2 && op[0] == 'p' {
		if _, err := strconv.Atoi(op[1:]); err == nil {
			return &pat{lit: op}
		}
	}
	r := &pat{op: op}
	if (op == "bin" || op == "un") && p.i < len(p.s) && p.s[p.i] == '<' {
		k := strings.Index(p.s[p.i+1:], ">(")
		if k < 0 {
			panic("pattern: unterminated operator name in " + p.s)
		}
		r.name = p.s[p.i+1 : p.i+1+k]
		p.i = p.i + 1 + k + 1
	} else if p.i < len(p.s) && p.s[p.i] == '<' {
		depth, j := 0, p.i
		for ; j < len(p.s); j++ {
			if p.s[j] == '<' {
				depth++
			} else if p.s[j] == '>' {
				depth--
				if depth == 0 {
					break
				}
			}
		}
		r.name = p.s[p.i+1 : j]
		p.i = j + 1
	}
	if p.i < len(p.s) && p.s[p.i] == '#' {
		j := p.i + 1
		for j < len(p.s) && p.s[j] >= '0' && p.s[j] <= '9' {
			j++
		}
		r.idx, _ = strconv.Atoi(p.s[p.i+1 : j])
		r.hasIdx = true
		p.i = j
	}
	if p.i < len(p.s) && p.s[p.i] == '(' {
		p.i++
		for {
			p.ws()
			if p.s[p.i] == ')' {
				p.i++
				break
			}
			r.args = append(r.args, p.term())
			p.ws()
			if p.s[p.i] == ',' {
				p.i++
			}
		}
	}
	return r
}

func isIdent(c byte) bool {
	return c == '_' || c >= 'a' && c <= 'z' || c >= 'A' && c <= 'Z' || c >= '0' && c <= '9'
}

// Binds is the result of a successful match.
type Binds map[string]*Term

// xProg, when set (MatchX / FindX), lets a failing sub-match retry on the term
// with the repository helper call at that position expanded: expansion is
// guided by the pattern, so helper calls the pattern itself names stay calls.
var xProg *Prog

func (p *pat) match(t *Term, b Binds) bool {
	if p.match1(t, b) {
		return true
	}
	if xProg == nil || p.wild != "" || t == nil {
		return false
	}
	for depth := 0; depth < 3; depth++ {
		nt := expandAt(xProg, t)
		if nt == nil && t.Op == "bin" && len(t.Args) == 2 {
			// an operand computed by a helper: with it expanded the expression may take another canonical form
			// (the pattern is canonicalised the same way), e.g. helper()/32 with helper = len(x)*8
			l, r := expandAt(xProg, t.Args[0]), expandAt(xProg, t.Args[1])
			if l != nil || r != nil {
				if l == nil {
					l = t.Args[0]
				}
				if r == nil {
					r = t.Args[1]
				}
				nt = canonBin(&Term{Op: "bin", Name: t.Name, V: t.V, Args: []*Term{l, r}})
				if nt.String() == t.String() {
					nt = nil
				}
			}
		}
		if nt == nil {
			return false
		}
		nb := Binds{}
		for k, v := range b {
			nb[k] = v
		}
		if p.match1(nt, nb) {
			for k, v := range nb {
				b[k] = v
			}
			return true
		}
		t = nt
	}
	return false
}

// expandAt expands t itself if it is (an extract of) a call of a single-exit repository helper.
func expandAt(p *Prog, t *Term) *Term {
	if t.Op == "assert" && len(t.Args) == 1 {
		// x.(T) of a helper's result: the asserted value is the result itself
		if nt := expandAt(p, t.Args[0]); nt != nil {
			return nt
		}
		return nil
	}
	base := t
	if base.Op == "obj" && len(base.Args) > 0 {
		// an object returned by a helper and mutated further: splice the helper's history in front
		nb := expandAt(p, base.Args[0])
		if nb == nil {
			return nil
		}
		if nb.Op == "obj" {
			return &Term{Op: "obj", V: t.V, Args: append(append([]*Term{}, nb.Args...), t.Args[1:]...)}
		}
		return &Term{Op: "obj", V: t.V, Args: append([]*Term{nb}, t.Args[1:]...)}
	}
	if base.Op == "ext" && len(base.Args) == 1 {
		inner := base.Args[0]
		if inner.Op == "obj" && len(inner.Args) > 0 {
			inner = inner.Args[0]
		}
		if inner.Op == "call" {
			if res := expandCallTerm(p, inner); res != nil && base.Idx < len(res) {
				return res[base.Idx]
			}
		}
		return nil
	}
	if base.Op == "call" {
		if res := expandCallTerm(p, base); len(res) == 1 {
			return res[0]
		}
	}
	return nil
}

func expandCallTerm(p *Prog, call *Term) []*Term {
	if cv, isCall := call.V.(*ssa.Call); isCall && cv == nil {
		return nil // the call of a go / defer statement has no value
	}
	c, ok := call.V.(ssa.CallInstruction)
	if !ok {
		return nil
	}
	h := c.Common().StaticCallee()
	if h == nil || h.Blocks == nil || !InRepo(h) || len(h.Params) != len(call.Args) {
		return nil
	}
	hb := NewBuilder(p, h)
	hb.Bind = map[*ssa.Parameter]*Term{}
	for i, prm := range h.Params {
		hb.Bind[prm] = call.Args[i]
	}
	var rets []Exit
	for _, e := range Exits(h) {
		if !e.Panic {
			rets = append(rets, e)
		}
	}
	if len(rets) == 0 {
		return nil
	}
	nres := len(rets[0].Results)
	if len(rets) == 1 {
		var out []*Term
		for _, r := range rets[0].Results {
			out = append(out, hb.Of(r, rets[0].Instr))
		}
		return out
	}
	// several exits: a (values…, error) helper. The value results are those of the single exit whose error is nil
	// (callers use them under err == nil); the error result is the common term of the failing exits (used under err != nil).
	errIdx := -1
	for k := 0; k < nres; k++ {
		if types.Identical(h.Signature.Results().At(k).Type(), types.Universe.Lookup("error").Type()) {
			errIdx = k
		}
	}
	if errIdx < 0 {
		// a (values…, ok) helper: the values are those of the single exit that reports true
		okIdx := nres - 1
		if nres < 2 || !types.Identical(h.Signature.Results().At(okIdx).Type().Underlying(), types.Typ[types.Bool]) {
			return nil
		}
		var succ *Exit
		for i := range rets {
			switch hb.Of(rets[i].Results[okIdx], rets[i].Instr).String() {
			case "true":
				if succ != nil {
					return nil
				}
				succ = &rets[i]
			case "false":
			default:
				return nil
			}
		}
		if succ == nil {
			return nil
		}
		out := make([]*Term, nres)
		for k := 0; k < nres; k++ {
			if k == okIdx {
				out[k] = &Term{Op: "ext", Idx: k, V: nil, Args: []*Term{call}}
				continue
			}
			out[k] = hb.Of(succ.Results[k], succ.Instr)
		}
		return out
	}
	var succ *Exit
	var failTerm *Term
	failSame := true
	for i := range rets {
		e := rets[i]
		et := hb.Of(e.Results[errIdx], e.Instr)
		if et.Op == "nil" {
			if succ != nil {
				return nil
			}
			succ = &rets[i]
			continue
		}
		if failTerm != nil && failTerm.String() != et.String() {
			failSame = false
		}
		failTerm = et
	}
	if succ == nil {
		return nil
	}
	out := make([]*Term, nres)
	for k := 0; k < nres; k++ {
		if k == errIdx {
			if failSame && failTerm != nil {
				out[k] = failTerm
			} else {
				out[k] = &Term{Op: "ext", Idx: k, V: nil, Args: []*Term{call}}
			}
			continue
		}
		out[k] = hb.Of(succ.Results[k], succ.Instr)
	}
	return out
}

func (p *pat) match1(t *Term, b Binds) bool {
	if t == nil {
		return false
	}
	if p.wild != "" {
		if p.wild == "_" || p.wild == "..." {
			return true
		}
		if old, ok := b[p.wild]; ok {
			return old.String() == t.String()
		}
		b[p.wild] = t
		return true
	}
	if p.lit != "" {
		return t.String() == p.lit
	}
	if p.op == "alt" { // alt(p1, p2, …): any of the alternatives
		for _, a := range p.args {
			nb := Binds{}
			for k, v := range b {
				nb[k] = v
			}
			if a.match(t, nb) {
				for k, v := range nb {
					b[k] = v
				}
				return true
			}
		}
		return false
	}
	if t.Op != p.op {
		return false
	}
	if p.name != "" && p.name != "*" && t.Name != p.name {
		if !strings.Contains(p.name, "|") { // name alternatives: call<a|b>
			return false
		}
		found := false
		for _, n := range strings.Split(p.name, "|") {
			if n == t.Name {
				found = true
			}
		}
		if !found {
			return false
		}
	}
	if p.hasIdx && t.Idx != p.idx {
		return false
	}
	n := len(p.args)
	if n > 0 && p.args[n-1].wild == "..." {
		if len(t.Args) < n-1 {
			return false
		}
		for i := 0; i < n-1; i++ {
			if !p.args[i].match(t.Args[i], b) {
				return false
			}
		}
		return true
	}
	if len(t.Args) != n {
		return false
	}
	try := func(order []int) bool {
		nb := Binds{}
		for k, v := range b {
			nb[k] = v
		}
		for i := range p.args {
			if !p.args[i].match(t.Args[order[i]], nb) {
				return false
			}
		}
		for k, v := range nb {
			b[k] = v
		}
		return true
	}
	if n == 2 && t.Op == "bin" && commutative[t.Name] && !(t.Name == "+" && (isStringTerm(t) || isStringTerm(t.Args[0]))) {
		// sums and products are kept sorted by the canonicaliser; a pattern with wildcards cannot know the order
		return try([]int{0, 1}) || try([]int{1, 0})
	}
	order := make([]int, n)
	for i := range order {
		order[i] = i
	}
	return try(order)
}

func isStringTerm(t *Term) bool {
	if t == nil {
		return false
	}
	if t.Op == "const" && strings.HasPrefix(t.Name, "\"") {
		return true
	}
	if tt := termType(t); tt != nil {
		if b, ok := tt.Underlying().(*types.Basic); ok && b.Info()&types.IsString != 0 {
			return true
		}
	}
	return false
}

var commutative = map[string]bool{"+": true, "*": true, "&": true, "|": true, "^": true, "==": true, "!=": true}

var patCache = map[string]*pat{}

// ResetPatterns drops parsed patterns (after GlobalRenames changed).
func ResetPatterns() { patCache = map[string]*pat{} }

// DefaultProg, when set by the driver, makes every Match pattern-guided
// expansion-aware (see MatchX): a value computed inline or by an unexported
// single-exit helper gives the same match.
var DefaultProg *Prog

// Match matches t against the pattern text.
func Match(pattern string, t *Term) (Binds, bool) {
	if xProg == nil && DefaultProg != nil {
		xProg = DefaultProg
		defer func() { xProg = nil }()
	}
	p, ok := patCache[pattern]
	if !ok {
		p = ParsePat(pattern)
		patCache[pattern] = p
	}
	b := Binds{}
	if p.match(t, b) {
		return b, true
	}
	return nil, false
}

// MatchAny tries the patterns in order.
func MatchAny(t *Term, patterns ...string) (Binds, bool) {
	// every alternative is parsed, also those behind the first match: a malformed pattern must surface on the
	// pinned tree, not on the first tree that needs it
	for _, p := range patterns {
		if _, ok := patCache[p]; !ok {
			patCache[p] = ParsePat(p)
		}
	}
	for _, p := range patterns {
		if b, ok := Match(p, t); ok {
			return b, true
		}
	}
	return nil, false
}

// Find returns the first sub-term of t matching the pattern.
func Find(pattern string, t *Term) (*Term, Binds) {
	var res *Term
	var rb Binds
	t.Walk(func(s *Term) bool {
		if res != nil {
			return false
		}
		if b, ok := Match(pattern, s); ok {
			res, rb = s, b
			return false
		}
		return true
	})
	return res, rb
}

// Explain returns a description of the first mismatch between pattern and t ("" if it matches).
func Explain(pattern string, t *Term) string {
	p := ParsePat(pattern)
	return p.explain(t, Binds{}, "")
}

func (p *pat) explain(t *Term, b Binds, path string) string {
	if t == nil {
		return path + ": term missing"
	}
	if p.wild != "" {
		if p.wild == "_" || p.wild == "..." {
			return ""
		}
		if old, ok := b[p.wild]; ok && old.String() != t.String() {
			return fmt.Sprintf("%s: %s bound to %.80s but found %.80s", path, p.wild, old, t)
		}
		b[p.wild] = t
		return ""
	}
	if p.lit != "" {
		if t.String() != p.lit {
			return fmt.Sprintf("%s: want %s, found %.100s", path, p.lit, t)
		}
		return ""
	}
	if t.Op != p.op || (p.name != "" && p.name != "*" && t.Name != p.name) {
		return fmt.Sprintf("%s: want %s<%s>, found %.140s", path, p.op, p.name, t)
	}
	n := len(p.args)
	var pa []*pat = p.args
	if n > 0 && p.args[n-1].wild == "..." {
		pa = p.args[:n-1]
		if len(t.Args) < n-1 {
			return fmt.Sprintf("%s: too few arguments in %.100s", path, t)
		}
	} else if len(t.Args) != n {
		return fmt.Sprintf("%s: %s<%s> has %d arguments, pattern has %d: %.200s", path, t.Op, t.Name, len(t.Args), n, t)
	}
	for i := range pa {
		if m := pa[i].explain(t.Args[i], b, fmt.Sprintf("%s/%s<%s>[%d]", path, p.op, short(p.name, 30), i)); m != "" {
			return m
		}
	}
	return ""
}

func short(s string, n int) string {
	if len(s) > n {
		return s[len(s)-n:]
	}
	return s
}

// ExpandCalls replaces, one level deep, every call<H>(args) of a repository
// function H that has a body and a single returning exit by H's result term
// with H's parameters bound to the argument terms (ext#k(call) picks result k).
// Extracting an expression into a helper, or not, gives the same expanded term.
func ExpandCalls(p *Prog, t *Term) (*Term, bool) {
	changed := false
	var rec func(t *Term) *Term
	expandCall := func(call *Term) []*Term {
		// single-exit helpers, and (values…, error) helpers with one successful exit
		return expandCallTerm(p, call)
	}
	rec = func(t *Term) *Term {
		if t == nil {
			return t
		}
		if t.Op == "ext" && len(t.Args) == 1 && t.Args[0].Op == "call" {
			if res := expandCall(t.Args[0]); res != nil && t.Idx < len(res) {
				changed = true
				return res[t.Idx]
			}
		}
		if t.Op == "call" {
			if res := expandCall(t); len(res) == 1 {
				changed = true
				return res[0]
			}
		}
		if len(t.Args) == 0 {
			return t
		}
		n := &Term{Op: t.Op, Name: t.Name, Idx: t.Idx, V: t.V, C: t.C}
		same := true
		for _, a := range t.Args {
			na := rec(a)
			if na != a {
				same = false
			}
			n.Args = append(n.Args, na)
		}
		if same {
			return t
		}
		return n
	}
	r := rec(t)
	return r, changed
}

// MatchX is Match with pattern-guided expansion of repository helper calls:
// wherever the pattern does not match a sub-term that is a call of a
// single-exit repository helper, the helper's result term (parameters bound to
// the arguments) is tried instead, up to three levels.
func MatchX(p *Prog, pattern string, t *Term) (Binds, bool) {
	xProg = p
	defer func() { xProg = nil }()
	return Match(pattern, t)
}

// FindX is Find with the same expansion.
func FindX(p *Prog, pattern string, t *Term) (*Term, Binds) {
	xProg = p
	defer func() { xProg = nil }()
	if r, b := Find(pattern, t); r != nil {
		return r, b
	}
	// the sub-term may sit inside a helper's result: expand the whole term level by level
	for i := 0; i < 3; i++ {
		nt, changed := ExpandCalls(p, t)
		if !changed {
			break
		}
		if r, b := Find(pattern, nt); r != nil {
			return r, b
		}
		t = nt
	}
	return nil, nil
}
