package props

import (
	"golang.org/x/tools/go/ssa"
	"strings"

	"verif/checker/internal/ana"
)

// C01 — Ed25519 Verify accepts exactly the ZIP-215 signature set.

const (
	patLenSigEq  = "bin<==>(len(p2), 64)"
	patLenSigNe  = "bin<!=>(len(p2), 64)"
	patDecA      = "ext#1(obj(_, call<(*ed.Point).SetBytes>(self, p0)))"
	patDecR      = "ext#1(obj(_, call<(*ed.Point).SetBytes>(self, slice(p2, 0, 32))))"
	patDecS      = "ext#1(obj(_, call<(*ed.Scalar).SetCanonicalBytes>(self, slice(p2, 32, none))))"
	patDecS2     = "ext#1(obj(_, call<(*ed.Scalar).SetCanonicalBytes>(self, slice(p2, 32, 64))))"
	patKHash     = "obj(call<ed.NewScalar>, call<(*ed.Scalar).SetUniformBytes>(self, call<(hash.Hash).Sum>(obj(call<crypto/sha512.New>, call<(hash.Hash).Write>(self, slice(p2, 0, 32)), call<(hash.Hash).Write>(self, p0), call<(hash.Hash).Write>(self, p1)), _)))"
	patKErr      = "ext#1(obj(call<ed.NewScalar>, call<(*ed.Scalar).SetUniformBytes>(self, call<(hash.Hash).Sum>(obj(call<crypto/sha512.New>, ...), _))))"
	patANeg      = "obj(_, call<(*ed.Point).SetBytes>(self, p0), call<(*ed.Point).Negate>(self, self))"
	patSObj      = "obj(call<ed.NewScalar>, call<(*ed.Scalar).SetCanonicalBytes>(self, slice(p2, 32, none)))"
	patSObj2     = "obj(call<ed.NewScalar>, call<(*ed.Scalar).SetCanonicalBytes>(self, slice(p2, 32, 64)))"
	patRchk      = "obj(_, call<(*ed.Point).SetBytes>(self, slice(p2, 0, 32)))"
	patIdentity  = "load(global<repo/pkg/ed25519.identity>)"
	patVTDSBM    = "obj(_, call<(*ed.Point).VarTimeDoubleScalarBaseMult>(self, $k, $A, $S))"
	patEquation1 = "bin<==>(call<(*ed.Point).Equal>(obj(_, call<(*ed.Point).Subtract>(self, $X, $Y), call<(*ed.Point).MultByCofactor>(self, self)), $I), 1)"
	patEquation2 = "bin<==>(call<(*ed.Point).Equal>($I, obj(_, call<(*ed.Point).Subtract>(self, $X, $Y), call<(*ed.Point).MultByCofactor>(self, self))), 1)"
)

func init() {
	register(&Prop{
		ID:    "C01",
		Level: "other",
		Explanation: "Static (SSA dataflow) decision of the structural clauses of ZIP-215 verification in ed25519.Verify: the complete exit inventory " +
			"(every non-false return must pass the four decode gates; every `return false` and every panic must be reached only through an edge from a closed list of reject reasons), " +
			"the raw-byte provenance of everything decoded or hashed (k = SHA-512(sig[:32] ‖ publicKey ‖ message) via SetUniformBytes), callee identity of the three decoders " +
			"(permissive Point.SetBytes for A and R, strict Scalar.SetCanonicalBytes for S), and the shape of the returned value ([8](R'−R) == identity with R' = [k](−A)+[S]B). " +
			"Relative to the documented semantics of filippo.io/edwards25519 this is the ZIP-215 rule set in both directions. It does not decide the arithmetic of the library.",
		Run: runC01,
	})
}

func runC01(c *Ctx) {
	r := c.R
	r.Rule("C01.accept-gates", "every return of Verify whose value is not the constant false passes, on every path, the edges len(sig)==64, err==nil of Point.SetBytes(publicKey), err==nil of Point.SetBytes(sig[0:32]), err==nil of Scalar.SetCanonicalBytes(sig[32:])")
	r.Rule("C01.reject-closed", "every `return false` and every panic is reachable only through an edge of the closed list {len(sig)!=64, sig[63]&m!=0 with m⊆0xE0, err!=nil of the three decoders; panics: len(publicKey)!=32, err of SetUniformBytes on a SHA-512 sum}")
	r.Rule("C01.decoders", "on the accept path no call other than len, the three decoders and hash.Write receives publicKey/sig bytes (no extra canonicity or small-order test)")
	r.Rule("C01.k-hash", "k = NewScalar().SetUniformBytes(SHA512: Write(sig[0:32]), Write(publicKey), Write(message)) — raw bytes, this order")
	r.Rule("C01.equation", "returned value is Equal(MultByCofactor(Subtract(R', Rchk)), identity)==1 with R'=VarTimeDoubleScalarBaseMult(k, Negate(SetBytes(publicKey)), SetCanonicalBytes(sig[32:])), Rchk=SetBytes(sig[0:32]); identity has no writer but its initialiser")
	r.Assume("filippo.io/edwards25519 v1.0.0: Point.SetBytes accepts non-canonical encodings, Scalar.SetCanonicalBytes rejects s >= L, SetUniformBytes reduces 64 bytes mod L, MultByCofactor multiplies by 8")
	r.NotDec("arithmetic of filippo.io/edwards25519 and SHA-512 (library semantics trusted)")

	f := c.fn("pkg/ed25519", "Verify")
	if f == nil {
		return
	}
	fn := f.Function
	b := ana.NewBuilder(c.P, fn)
	pos := func(i ssa.Instruction) string { return c.P.Pos(i.Pos()) }
	if len(fn.Params) != 3 {
		r.Undec("C01.anchor.Verify-signature", c.P.Pos(fn.Pos()), "Verify has %d parameters, rule template expects (publicKey, message, sig)", len(fn.Params))
		return
	}

	// --- exits
	cases := ana.ReturnCases(fn, 0)
	var accepts, rejects []ana.ReturnCase
	for _, rc := range cases {
		if ana.IsConstBool(rc.Val, false) {
			rejects = append(rejects, rc)
		} else {
			accepts = append(accepts, rc)
		}
	}
	var panics []ana.Exit
	for _, e := range ana.Exits(fn) {
		if e.Panic {
			panics = append(panics, e)
		}
	}
	r.Floor("C01.floor.exits", len(rejects), 1, "false-returns")
	r.Floor("C01.floor.accepts", len(accepts), 1, "non-false returns")
	r.Sites(len(ana.Calls(fn)))

	// --- accept gates
	gates := []struct {
		name string
		pats []string
	}{
		{"len-sig-64", []string{patLenSigEq}},
		{"decode-A", []string{"bin<==>(" + patDecA + ", nil)"}},
		{"decode-R", []string{"bin<==>(" + patDecR + ", nil)"}},
		{"decode-S-canonical", []string{"bin<==>(" + patDecS + ", nil)", "bin<==>(" + patDecS2 + ", nil)"}},
	}
	for _, rc := range accepts {
		for _, g := range gates {
			es := edgesMatching(b, g.pats...)
			key := "C01.accept-gates." + g.name
			if len(es) == 0 {
				r.Viol(key, pos(rc.Ret), "no branch on %s found in Verify; a non-false return is not protected by this gate", g.pats[0])
				continue
			}
			r.Check(mustPass(fn, rc.Block, plainEdges(es)), key, pos(rc.Ret),
				"non-false return must pass edge %s (branch at %s)", g.pats[0], c.P.Pos(es[0].Pos()))
		}
	}

	// --- reject closed list
	var rejectEdges []ana.Edge
	rejectEdges = append(rejectEdges, plainEdges(edgesMatching(b, patLenSigNe,
		"bin<!=>("+patDecA+", nil)", "bin<!=>("+patDecR+", nil)", "bin<!=>("+patDecS+", nil)", "bin<!=>("+patDecS2+", nil)"))...)
	// top-bits pre-check: any rejecting test of sig[63] alone is sound iff every rejected value has one of the top
	// three bits set (L < 2^253). Terms are canonical (ana/canon.go): a threshold test in any spelling
	// (b&0xE0 != 0, b>>5 != 0, b > 0x1f) arrives as `b >= t`; other masks stay `b&m != 0`.
	for _, ce := range b.CondEdges() {
		key := "C01.reject-closed.top-bits-mask"
		if bd, ok := ana.Match("bin<>=>(load(iaddr(p2, 63)), $t)", ce.Lit); ok {
			t, isInt := bd["$t"].Int()
			if r.Check(isInt && t >= 32, key, c.P.Pos(ce.Pos()), "sig[63] >= %d rejects; sound iff the threshold is >= 32 = 2^5 (only the top three bits are implied by S < L < 2^253)", t) {
				rejectEdges = append(rejectEdges, ce.Edge)
			}
		} else if bd, ok := ana.Match("bin<==>(load(iaddr(p2, 63)), $t)", ce.Lit); ok {
			t, isInt := bd["$t"].Int()
			if r.Check(isInt && t >= 32, key, c.P.Pos(ce.Pos()), "sig[63] == %d rejects; sound iff the value is >= 32", t) {
				rejectEdges = append(rejectEdges, ce.Edge)
			}
		} else if bd, ok := ana.Match("bin<!=>(bin<&>(load(iaddr(p2, 63)), $m), 0)", ce.Lit); ok {
			m, isInt := bd["$m"].Int()
			if !isInt {
				r.Undec(key, c.P.Pos(ce.Pos()), "mask is not a constant: %s", bd["$m"])
				continue
			}
			if r.Check(m != 0 && m&^0xE0 == 0, key, c.P.Pos(ce.Pos()), "sig[63]&%#x != 0 rejects; sound iff mask ⊆ 0xE0 (L < 2^253, so only the top three bits are implied by canonicity)", m) {
				rejectEdges = append(rejectEdges, ce.Edge)
			}
		}
	}
	// `if !equation { return false }; return true` is the same program as `return equation`: the failing
	// equation is then a legitimate way to a `return false`
	negEq := func(p string) string { return "bin<!=>(" + strings.TrimPrefix(p, "bin<==>(") }
	rejectEdges = append(rejectEdges, plainEdges(edgesMatching(b, negEq(patEquation1), negEq(patEquation2)))...)
	avoid := ana.ReachableAvoiding(fn, rejectEdges)
	for _, rc := range rejects {
		r.Check(!avoid[rc.Block], "C01.reject-closed.return-false", pos(rc.Ret),
			"`return false` at %s must be reachable only through a listed reject edge", pos(rc.Ret))
	}
	panicEdges := plainEdges(edgesMatching(b, "bin<!=>(len(p0), 32)", "bin<!=>("+patKErr+", nil)"))
	avoidP := ana.ReachableAvoiding(fn, panicEdges)
	for _, e := range panics {
		r.Check(!avoidP[e.Instr.Block()], "C01.reject-closed.panic", pos(e.Instr),
			"panic must be reachable only under len(publicKey)!=32 or the (impossible) error of SetUniformBytes on a 64-byte SHA-512 sum")
	}
	// implicit panics: index expressions on sig must be protected by the length gate
	for _, blk := range fn.Blocks {
		for _, ins := range blk.Instrs {
			if ia, ok := ins.(*ssa.IndexAddr); ok {
				t := b.Of(ia, ia)
				if bd, ok := ana.Match("iaddr(p2, $i)", t); ok {
					i, isInt := bd["$i"].Int()
					es := edgesMatching(b, patLenSigEq)
					r.Check(isInt && i >= 0 && i < 64 && mustPass(fn, blk, plainEdges(es)), "C01.reject-closed.index-guarded", pos(ia),
						"sig[%s] is evaluated only under len(sig)==64", bd["$i"])
				}
			}
		}
	}

	// --- decoders: closed list of consumers of key/sig bytes on the accept path
	acceptBlocks := map[*ssa.BasicBlock]bool{}
	for _, rc := range accepts {
		for _, blk := range fn.Blocks {
			if canReachBlock(blk, rc.Block) {
				acceptBlocks[blk] = true
			}
		}
	}
	allowed := map[string]bool{
		"builtin.len": true, "(hash.Hash).Write": true,
		"(*filippo.io/edwards25519.Point).SetBytes": true, "(*filippo.io/edwards25519.Scalar).SetCanonicalBytes": true,
	}
	nDec := 0
	// consumers of the key / signature bytes, looking through repository helpers that are handed the bytes
	var scan func(f *ssa.Function, fb *ana.Builder, tracked map[ssa.Value]bool, inAccept func(*ssa.BasicBlock) bool, depth int)
	scan = func(f *ssa.Function, fb *ana.Builder, tracked map[ssa.Value]bool, inAccept func(*ssa.BasicBlock) bool, depth int) {
		for _, ci := range ana.Calls(f) {
			if !inAccept(ci.Block()) {
				continue
			}
			cc := ci.Common()
			var hit []int
			for i, a := range cc.Args {
				if tracked[fb.Root(a)] {
					hit = append(hit, i)
				}
			}
			if len(hit) == 0 {
				continue
			}
			name := ana.CalleeName(cc)
			if h := ana.StaticRepoCallee(cc); h != nil && depth < 3 && !allowed[name] {
				sub := map[ssa.Value]bool{}
				for _, i := range hit {
					if i < len(h.Params) {
						sub[h.Params[i]] = true
					}
				}
				r.Fn(ana.ShortFunc(h))
				scan(h, ana.NewBuilder(c.P, h), sub, func(*ssa.BasicBlock) bool { return true }, depth+1)
				continue
			}
			nDec++
			r.Check(allowed[name], "C01.decoders.consumer."+name, pos(ci), "call %s receives publicKey/sig bytes on the accept path; allowed consumers: len, hash.Write, Point.SetBytes, Scalar.SetCanonicalBytes", name)
		}
	}
	scan(fn, b, map[ssa.Value]bool{fn.Params[0]: true, fn.Params[2]: true}, func(blk *ssa.BasicBlock) bool { return acceptBlocks[blk] }, 0)
	r.Floor("C01.floor.consumers", nDec, 2, "consumers of key/sig bytes")

	// --- equation & k-hash
	freshIdentity := false
	for _, rc := range accepts {
		t := b.Of(rc.Val, rc.Ret)
		if ana.IsConstBool(rc.Val, true) {
			// `return true` guarded by the equation: the guard literal takes the place of the returned expression
			var guards []ana.CondEdge
			for _, ce := range edgesMatching(b, patEquation1, patEquation2) {
				guards = append(guards, ce)
			}
			if len(guards) > 0 && mustPass(fn, rc.Block, plainEdges(guards)) {
				t = guards[0].Lit
				for _, g := range guards[1:] {
					if g.Lit.String() != t.String() {
						t = b.Of(rc.Val, rc.Ret)
					}
				}
			}
		}
		bd, ok := ana.MatchAny(t, patEquation1, patEquation2)
		if !ok {
			r.Undec("C01.equation.shape", pos(rc.Ret), "returned value is not Equal(MultByCofactor(Subtract(·,·)), identity)==1: %s", short(t.String(), 400))
			continue
		}
		r.OK("C01.equation.shape", pos(rc.Ret), "return value = Equal([8](X−Y), I)==1")
		_, okI := ana.Match(patIdentity, bd["$I"])
		if _, fresh := ana.Match("call<ed.NewIdentityPoint>", bd["$I"]); fresh {
			okI, freshIdentity = true, true // constructed at the comparison: nothing shared to protect
		}
		r.Check(okI, "C01.equation.identity-operand", pos(rc.Ret), "comparison operand is the package's identity point: %s", short(bd["$I"].String(), 120))
		x, y := bd["$X"], bd["$Y"]
		if _, isR := ana.Match(patVTDSBM, x); !isR {
			x, y = y, x
		}
		vb, okV := ana.Match(patVTDSBM, x)
		if !okV {
			r.Viol("C01.equation.Rprime", pos(rc.Ret), "neither Subtract operand is VarTimeDoubleScalarBaseMult(k, −A, S): %s", short(x.String(), 300))
			continue
		}
		_, okRc := ana.Match(patRchk, y)
		r.Check(okRc, "C01.equation.Rchk", pos(rc.Ret), "other Subtract operand is Point.SetBytes(sig[0:32]) with no further mutation: %s", short(y.String(), 200))
		_, okA := ana.Match(patANeg, vb["$A"])
		r.Check(okA, "C01.equation.A-negated", pos(rc.Ret), "A operand history must be [SetBytes(publicKey), Negate(self)]: %s", short(vb["$A"].String(), 300))
		_, okS := ana.MatchAny(vb["$S"], patSObj, patSObj2)
		r.Check(okS, "C01.equation.S-canonical", pos(rc.Ret), "S operand is NewScalar().SetCanonicalBytes(sig[32:]): %s", short(vb["$S"].String(), 200))
		_, okK := ana.MatchX(c.P, patKHash, vb["$k"])
		r.Check(okK, "C01.k-hash.raw-bytes-order", pos(rc.Ret), "k must be SetUniformBytes(SHA512(sig[0:32] ‖ publicKey ‖ message)) over the bytes as given: %s", short(vb["$k"].String(), 500))
	}

	pureScan(c, "C01.pure.no-package-state", fn)

	// identity: who may write
	if g := c.gvar("pkg/ed25519", "identity"); g != nil {
		writers, initOK := 0, false
		for _, rf := range c.P.RepoFuncs("pkg/ed25519") {
			sb := ana.NewBuilder(c.P, rf)
			for _, blk := range rf.Blocks {
				for _, ins := range blk.Instrs {
					switch x := ins.(type) {
					case *ssa.Store:
						if x.Addr == g {
							writers++
							if rf.Name() == "init" {
								if _, ok := ana.Match("call<ed.NewIdentityPoint>", sb.Of(x.Val, nil)); ok {
									initOK = true
								}
							}
						}
					case ssa.CallInstruction:
						cc := x.Common()
						for i, a := range cc.Args {
							if ld, ok := sb.Root(a).(*ssa.UnOp); ok && ld.X == g && sbMayMutate(sb, cc, i) {
								r.Viol("C01.equation.identity-immutable", pos(x), "call %s may mutate the shared identity point", ana.CalleeName(cc))
							}
						}
					}
				}
			}
		}
		r.Check(writers == 1 && initOK, "C01.equation.identity-immutable", c.P.Pos(g.Pos()), "identity is written once, by its initialiser, with NewIdentityPoint() (writers=%d)", writers)
	} else if freshIdentity {
		r.OK("C01.equation.identity-immutable", "", "the identity operand is a fresh NewIdentityPoint() at the comparison; there is no shared identity variable")
	} else {
		r.Undec("C01.equation.identity-immutable", "", "package variable identity not found")
	}
}

func sbMayMutate(b *ana.Builder, c *ssa.CallCommon, i int) bool { return b.MayMutateOperand(c, i) }
