package props

import (
	"crypto/sha256"
	"encoding/hex"
	"strings"

	"golang.org/x/text/unicode/norm"
	"golang.org/x/tools/go/ssa"

	"verif/checker/internal/ana"
)

// C03 — BIP-39 entropy and mnemonic sentences are exact inverses.

// SHA-256 of join(words, "\n")+"\n" of the official BIP-39 files (bitcoin/bips bip-0039/*.txt).
const (
	sha256English  = "2f5eed53a4727b4bf8880d8f3f199efc90e58503646d9ff8eff3a2ed3b24dbda"
	sha256Japanese = "2eed0aef492291e061633d7ad8117f1a2b03eb80a29d0e4e3117ac2528d05ffd"
)

func init() {
	register(&Prop{
		ID:    "C03",
		Level: "other",
		Explanation: "Static decision of the BIP-39 codec mechanism: accept sets of entropy sizes and word counts by value-set analysis of the guards; the checksum gate and that the hashed bytes are the returned bytes; " +
			"the repository-wide fixed-width rule for (*big.Int).Bytes() (minimal-length big-endian bytes must be left-padded before they are returned, hashed or compared as fixed-size data); " +
			"bit layout constants and loop directions of both directions; and the built-in word lists as constants: 2048 distinct NFKD-stable words, index = position, SHA-256 equal to the official BIP-39 files. " +
			"SHA-256 itself and the big-integer arithmetic identity are library semantics.",
		Run: runC03,
	})
}

func runC03(c *Ctx) {
	r := c.R
	r.Rule("C03.entropy-sizes", "EntropyToMnemonic succeeds only past a size guard whose accept set over len(entropy) ∈ 0..80 is exactly {16,20,…,64}; rejects wrap ErrInvalidEntropySize")
	r.Rule("C03.word-counts", "MnemonicToEntropy succeeds only past a guard whose accept set over len(mnemonic) ∈ 0..60 is exactly {12,15,…,48}, and ForAll words: wordList.Contains(word), before any Index call; rejects wrap ErrInvalidMnemonic")
	r.Rule("C03.checksum-gate", "every success return of MnemonicToEntropy passes Cmp(checksumFromWords, computeChecksum(E, ENT/32))==0 where E is the returned byte slice; checksum = SetBytes(SHA256(bytes)) >> (256-numBits)")
	r.Rule("C03.fixed-width", "a slice from (*big.Int).Bytes() that reaches a return value, a hash or a fixed-size consumer is first left-padded to the fixed width; consumers reading it as a big-endian integer (SetBytes, ScalarBaseMult, ScalarMult) are exempt")
	r.Rule("C03.bit-layout", "IndexBits=11, Count=2048, mask 2^11-1; encoder fills words from last to first taking the low 11 bits then shifting right by 11; decoder reads words first to last, shifting left by 11 and OR-ing the index; checksum bits = ENT/32")
	r.Rule("C03.wordlists", "each built-in list constant splits into 2048 distinct NFKD-stable words whose SHA-256 (newline-joined) equals the official BIP-39 file's; index = position; registered as english/japanese; default english")
	r.Assume("crypto/sha256, math/big (Bytes() is minimal-length big-endian; SetBytes/Lsh/Rsh/Or/And as documented)")
	r.NotDec("the arithmetic identity of the big-integer split for entropies without leading zero bytes (pinned by the 48 vectors); SHA-256")

	pureScan(c, "C03.pure.no-package-state", c.P.Func("pkg/bip39", "EntropyToMnemonic"), c.P.Func("pkg/bip39", "MnemonicToEntropy"), c.P.Func("pkg/bip39/internal/wordlists", "English"), c.P.Func("pkg/bip39/internal/wordlists", "Japanese"), c.P.Func("pkg/bip39/internal/wordlists", "wordList.Index"), c.P.Func("pkg/bip39/internal/wordlists", "wordList.Contains"), c.P.Func("pkg/bip39/internal/wordlists", "wordList.Word"))
	c03Sizes(c)
	c03Decode(c)
	c03FixedWidth(c)
	c03Encode(c)
	c03Wordlists(c)
}

func stepSet(lo, hi, step int64) []int64 {
	var out []int64
	for v := lo; v <= hi; v += step {
		out = append(out, v)
	}
	return out
}

// guardAcceptSet runs the value-set analysis of validator fn over len(p0) and
// returns the values that can reach a nil-error return / any non-nil-error return.
func guardSets(c *Ctx, fn *ssa.Function, hi int64) (acc, rej map[int64]bool, exact bool) {
	return guardSetsB(c, fn, ana.NewBuilder(c.P, fn), hi)
}

// guardSetsB: the same with the validator's parameters bound to the arguments of its call (len(p0) is then the
// caller's quantity, whatever the validator is handed).
func guardSetsB(c *Ctx, fn *ssa.Function, b *ana.Builder, hi int64) (acc, rej map[int64]bool, exact bool) {
	v := &ana.VSA{B: b, Tracked: []string{"len(p0)"}, Ranges: [][2]int64{{0, hi}}}
	sets, tuples := v.Run()
	acc, rej = map[int64]bool{}, map[int64]bool{}
	for _, e := range ana.Exits(fn) {
		if e.Panic {
			continue
		}
		errT := b.Of(e.Results[len(e.Results)-1], e.Instr)
		for idx := range sets[e.Instr.Block()] {
			if errT.Is("nil") {
				acc[ana.TupleOf(tuples, idx)[0]] = true
			} else {
				rej[ana.TupleOf(tuples, idx)[0]] = true
			}
		}
	}
	return acc, rej, v.Opaque == 0
}

func c03Sizes(c *Ctx) {
	r := c.R
	f := c.fn("pkg/bip39", "EntropyToMnemonic")
	if f == nil {
		return
	}
	fn := f.Function
	b := ana.NewBuilder(c.P, fn)
	// the validator is handed the entropy, or its bit count
	acc := edgesMatching(b, "bin<==>(alt(call<*>(p0), ext#1(call<*>(p0)), ext#2(call<*>(p0)), call<*>(bin<*>(len(p0), 8))), nil)")
	if len(acc) != 1 {
		r.Undec("C03.entropy-sizes.anchor", c.P.Pos(fn.Pos()), "no single validator gate `validate(entropy) == nil` in EntropyToMnemonic")
		return
	}
	val := calleeOf(acc[0].Lit.Arg(0))
	valCall := acc[0].Lit.Arg(0)
	for valCall != nil && valCall.Op != "call" && len(valCall.Args) > 0 {
		valCall = valCall.Args[0]
	}
	if val == nil {
		r.Undec("C03.entropy-sizes.anchor", c.P.Pos(fn.Pos()), "validator callee not resolved")
		return
	}
	r.Fn(ana.ShortFunc(val))
	for _, e := range ana.Exits(fn) {
		if e.Panic {
			r.Viol("C03.entropy-sizes.no-panic", c.ipos(e.Instr), "explicit panic in EntropyToMnemonic")
			continue
		}
		errT := b.Of(e.Results[1], e.Instr)
		if errT.Is("nil") {
			r.Check(exitMustPass(fn, e, plainEdges(acc)), "C03.entropy-sizes.gate", c.ipos(e.Instr), "success return only after the size validator returned nil")
		} else {
			_, ok := ana.Match("alt(call<*>(p0), ext#1(call<*>(p0)), ext#2(call<*>(p0)), call<*>(bin<*>(len(p0), 8)))", errT)
			r.Check(ok && calleeOf(errT) == val && b.Of(e.Results[0], e.Instr).Is("nil"), "C03.entropy-sizes.error-propagated", c.ipos(e.Instr), "error return propagates the validator's error and returns no mnemonic: %s", short(errT.String(), 120))
		}
	}
	a, rj, exact := guardSetsB(c, val, c.boundBuilder(valCall), 80)
	want := stepSet(16, 64, 4)
	r.Check(setEqual(a, want) && exact, "C03.entropy-sizes.accept-set", c.P.Pos(val.Pos()), "accept set of len(entropy) over 0..80 = %s, expected {16,20,…,64} (value-set analysis, %d reject values, exact=%v)", setString(a), len(rj), exact)
	overlap := 0
	for v := range a {
		if rj[v] {
			overlap++
		}
	}
	r.Check(overlap == 0, "C03.entropy-sizes.deterministic", c.P.Pos(val.Pos()), "no length reaches both the nil and the error return")
	vb := ana.NewBuilder(c.P, val)
	for _, e := range ana.Exits(val) {
		if e.Panic {
			r.Viol("C03.entropy-sizes.no-panic", c.ipos(e.Instr), "explicit panic in the entropy validator")
			continue
		}
		errT := vb.Of(e.Results[len(e.Results)-1], e.Instr)
		if !errT.Is("nil") {
			g, _ := ana.Find("load(global<repo/pkg/bip39.ErrInvalidEntropySize>)", errT)
			fs := ""
			if bd, ok := ana.Match("call<fmt.Errorf>($f, _)", errT); ok {
				fs, _ = bd["$f"].Str()
			}
			r.Check(g != nil && strings.Contains(fs, "%w"), "C03.entropy-sizes.error-kind", c.ipos(e.Instr), "reject wraps ErrInvalidEntropySize (format %q)", fs)
		}
	}
}

func c03Decode(c *Ctx) {
	r := c.R
	f := c.fn("pkg/bip39", "MnemonicToEntropy")
	if f == nil {
		return
	}
	fn := f.Function
	b := ana.NewBuilder(c.P, fn)
	acc := edgesMatching(b, "bin<==>(alt(call<*>(p0), ext#1(call<*>(p0)), ext#2(call<*>(p0))), nil)")
	if len(acc) != 1 {
		r.Undec("C03.word-counts.anchor", c.P.Pos(fn.Pos()), "no single validator gate in MnemonicToEntropy")
		return
	}
	val := calleeOf(acc[0].Lit.Arg(0))
	if val == nil {
		r.Undec("C03.word-counts.anchor", c.P.Pos(fn.Pos()), "validator callee not resolved")
		return
	}
	r.Fn(ana.ShortFunc(val))
	// all Index calls and success returns lie behind the validator gate
	for _, ci := range ana.CallsTo(fn, "(github.com/wollac/iota-crypto-demo/pkg/bip39/wordlist.List).Index") {
		r.Check(mustPass(fn, ci.Block(), plainEdges(acc)), "C03.word-counts.index-after-validation", c.ipos(ci), "wordList.Index (panics on unknown words) is called only after validation succeeded")
	}
	a, rj, _ := guardSets(c, val, 60)
	want := stepSet(12, 48, 3)
	// the validator continues with a per-word loop, so reachability of the nil return is an over-approximation; decide the size guard on the loop header instead
	// (the loop in the validator, or in a first-violation scanner `indexUnknownWord(mnemonic)` it tests against "none")
	vb := ana.NewBuilder(c.P, val)
	elem := "load(iaddr(p0, bin<+>(ind<+1>(-1), 1)))"
	wordsOK := func(b2 *ana.Builder, l *rangeLoop) bool {
		return l.Coll.IsParam(0) && forAll(b2, *l, "call<(repo/pkg/bip39/wordlist.List).Contains>(load(global<repo/pkg/bip39.wordList>), "+elem+")")
	}
	gates := uniqEdges(scanGates(c, vb, wordsOK))
	if len(gates) != 1 {
		r.Check(false, "C03.word-counts.forall-words", c.P.Pos(val.Pos()), "the validator has one loop over the mnemonic (its own or a first-violation scanner's) that continues only if wordList.Contains(word) for the active list (found %d)", len(gates))
	} else {
		r.OK("C03.word-counts.forall-words", c.P.Pos(val.Pos()), "every iteration continues only if wordList.Contains(word) for the active list")
		v := &ana.VSA{B: vb, Tracked: []string{"len(p0)"}, Ranges: [][2]int64{{0, 60}}}
		sets, tuples := v.Run()
		hdr := ana.SetOf(tuples, sets[gates[0].From], 0)
		r.Check(setEqual(hdr, want), "C03.word-counts.accept-set", c.P.Pos(val.Pos()), "word counts that pass the size guard (reach the per-word loop) over 0..60 = %s, expected {12,15,…,48}", setString(hdr))
		for _, e := range ana.Exits(val) {
			if e.Panic {
				r.Viol("C03.word-counts.no-panic", c.ipos(e.Instr), "explicit panic in the mnemonic validator")
				continue
			}
			errT := vb.Of(e.Results[len(e.Results)-1], e.Instr)
			if errT.Is("nil") {
				r.Check(exitMustPass(val, e, gates), "C03.word-counts.nil-after-loop", c.ipos(e.Instr), "nil is returned only after the word loop completed")
			} else {
				g, _ := ana.Find("load(global<repo/pkg/bip39.ErrInvalidMnemonic>)", errT)
				r.Check(g != nil, "C03.word-counts.error-kind", c.ipos(e.Instr), "reject wraps ErrInvalidMnemonic")
			}
		}
	}
	_ = a
	_ = rj

	// checksum gate
	var okRet int
	for _, e := range ana.Exits(fn) {
		if e.Panic {
			// the defensive panic on an out-of-range index must be unreachable for a wordlist.List within contract; it sits behind the validator
			r.Check(exitMustPass(fn, e, plainEdges(acc)), "C03.word-counts.panic-behind-validation", c.ipos(e.Instr), "defensive panic lies behind successful validation")
			continue
		}
		errT := b.Of(e.Results[1], e.Instr)
		valT := b.Of(e.Results[0], e.Instr)
		if !errT.Is("nil") {
			if _, ok := ana.Match("load(global<repo/pkg/bip39.ErrInvalidChecksum>)", errT); ok {
				r.Check(valT.Is("nil"), "C03.checksum-gate.error-no-entropy", c.ipos(e.Instr), "checksum error returns no entropy")
			}
			continue
		}
		okRet++
		gate := edgesMatching(b, "bin<==>(call<(*math/big.Int).Cmp>($x, "+c03Chk("$e", "$n")+"), 0)", "bin<==>(call<(*math/big.Int).Cmp>("+c03Chk("$e", "$n")+", $x), 0)")
		if len(gate) == 0 {
			r.Viol("C03.checksum-gate.present", c.ipos(e.Instr), "no comparison of the decoded checksum with a recomputed one guards the success return")
			continue
		}
		r.Check(exitMustPass(fn, e, plainEdges(gate)), "C03.checksum-gate.present", c.ipos(e.Instr), "success return passes Cmp(checksum, recomputed)==0")
		bd, _ := ana.MatchAny(gate[0].Lit, "bin<==>(call<(*math/big.Int).Cmp>($x, "+c03Chk("$e", "$n")+"), 0)", "bin<==>(call<(*math/big.Int).Cmp>("+c03Chk("$e", "$n")+", $x), 0)")
		r.Check(bd["$e"].String() == valT.String(), "C03.checksum-gate.same-bytes", c.ipos(e.Instr), "the bytes whose checksum is recomputed are exactly the bytes returned")
		// decoded checksum = decoder & (2^n - 1), n = ENT/32; entropy = decoder >> n
		nT := bd["$n"]
		var xb map[string]*ana.Term
		okX := false
		for _, p := range []string{
			"obj(alloc<math/big.Int>, call<(*math/big.Int).And>(self, $dec, obj(alloc<math/big.Int>, call<(*math/big.Int).Lsh>(self, $one, conv<uint>($n)), call<(*math/big.Int).Sub>(self, self, $one))))",
			// the mask itself receives the result: mask.And(decoder, mask)
			"obj(alloc<math/big.Int>, call<(*math/big.Int).Lsh>(self, $one, conv<uint>($n)), call<(*math/big.Int).Sub>(self, self, $one), call<(*math/big.Int).And>(self, $dec, self))",
			"obj(alloc<math/big.Int>, call<(*math/big.Int).Lsh>(self, $one, conv<uint>($n)), call<(*math/big.Int).Sub>(self, self, $one), call<(*math/big.Int).And>(self, self, $dec))",
		} {
			if xb, okX = ana.MatchX(c.P, p, bd["$x"]); okX {
				break
			}
		}
		r.Check(okX && xb["$n"].String() == nT.String(), "C03.checksum-gate.mask", c.ipos(e.Instr), "decoded checksum = decoder AND (1<<n - 1) with the same n as the recomputation")
		if okX {
			// the variable holding 1 is folded into its value (ana.ConstGlobal: single writer, the initialiser)
			r.Check(xb["$one"] != nil && xb["$one"].String() == "call<math/big.NewInt>(1)", "C03.checksum-gate.one", "", "the constant used to build the mask is 1: %s", xb["$one"])
		}
		// n = wordCountToEntropyBits(len)/32 ; bytes = bits/8 ; helper is 32*n/3
		nb, okN := ana.Match("bin</>(call<*>(len(p0)), 32)", nT)
		_ = nb
		r.Check(okN, "C03.bit-layout.checksum-bits-decode", c.ipos(e.Instr), "checksum bits = entropyBits(len(mnemonic))/32: %s", nT)
		if okN {
			h := calleeOf(nT.Arg(0))
			if h != nil {
				hv := &ana.VSA{B: ana.NewBuilder(c.P, h), Tracked: []string{"p0"}}
				good := true
				for _, w := range want {
					ret := h.Blocks[0].Instrs[len(h.Blocks[0].Instrs)-1].(*ssa.Return)
					got, ok := hv.Eval(ret.Results[0], []int64{w})
					if !ok || got != w*32/3 || got%32 != 0 {
						good = false
					}
				}
				r.Check(len(h.Blocks) == 1 && good, "C03.bit-layout.word-count-to-bits", c.P.Pos(h.Pos()), "helper maps each accepted word count MS to ENT=32·MS/3 (a multiple of 32)")
			}
		}
		// decoder history: per word Lsh 11 then Or index, words in order
		dec, _ := ana.FindX(c.P, "obj(alloc<math/big.Int>, maybe(call<(*math/big.Int).Lsh>(self, self, 11)), maybe(call<(*math/big.Int).Or>(self, self, call<math/big.NewInt>(conv<int64>(call<(repo/pkg/bip39/wordlist.List).Index>(load(global<repo/pkg/bip39.wordList>), load(iaddr(p0, bin<+>(ind<+1>(-1), 1)))))))), ...)", valT)
		r.Check(dec != nil, "C03.bit-layout.decode-loop", c.ipos(e.Instr), "decoder = for each word first→last: decoder<<11 | Index(word), starting from 0")
		// entropy bytes = padded (decoder >> n).Bytes()
		// (the padding helper is looked through: its result is leftpad(bytes, size), as is the same append written in place)
		// (the shift in place, or into a fresh big.Int that receives decoder >> n)
		pb, okP := ana.MatchX(c.P, "call<leftpad>(call<(*math/big.Int).Bytes>(alt(obj(alloc<math/big.Int>, maybe(_), maybe(_), call<(*math/big.Int).Rsh>(self, self, conv<uint>($n))), obj(alloc<math/big.Int>, call<(*math/big.Int).Rsh>(self, obj(alloc<math/big.Int>, maybe(_), maybe(_)), conv<uint>($n))))), alt(bin</>($bits, 8), bin<>>>($bits, 3)))", valT)
		r.Check(okP && pb["$n"].String() == nT.String(), "C03.checksum-gate.entropy-split", c.ipos(e.Instr), "entropy = pad((decoder >> n).Bytes(), ENT/8)")
	}
	r.Floor("C03.floor.decode-success", okRet, 1, "success returns of MnemonicToEntropy")

	// computeChecksum helper
	for _, ce := range edgesMatching(b, "bin<==>(call<(*math/big.Int).Cmp>($x, "+c03Chk("$e", "$n")+"), 0)") {
		h := calleeOf(ce.Lit.Arg(0).Arg(1))
		if h == nil {
			continue
		}
		r.Fn(ana.ShortFunc(h))
		hb := ana.NewBuilder(c.P, h)
		for _, e := range ana.Exits(h) {
			if e.Panic {
				es := edgesMatching(hb, "bin<>>(p1, 256)")
				r.Check(exitMustPass(h, e, plainEdges(es)), "C03.checksum-gate.helper-panic", c.ipos(e.Instr), "checksum helper panics only for numBits > 256")
				continue
			}
			t := hb.Of(e.Results[0], e.Instr)
			_, ok := ana.Match("obj(alloc<math/big.Int>, call<(*math/big.Int).SetBytes>(self, slice(obj(alloc<[32]byte>, store(self, call<crypto/sha256.Sum256>(p0))), 0, none)), call<(*math/big.Int).Rsh>(self, self, conv<uint>(bin<->(256, p1))))", t)
			r.Check(ok, "C03.checksum-gate.helper-term", c.ipos(e.Instr), "checksum(bytes, n) = SetBytes(SHA256(bytes)) >> (256-n): %s", short(t.String(), 300))
		}
	}
}

// c03Chk is the checksum of bytes e with n bits: the routine called with both, or — looked through — its value
// SetBytes(SHA256(e)) >> (256-n), whatever arguments the routine takes.
func c03Chk(e, n string) string {
	return "alt(call<*>(" + e + ", " + n + "), obj(alloc<math/big.Int>, call<(*math/big.Int).SetBytes>(self, slice(obj(alloc<[32]byte>, store(self, call<crypto/sha256.Sum256>(" + e + "))), 0, none)), call<(*math/big.Int).Rsh>(self, self, conv<uint>(bin<->(256, " + n + ")))))"
}

func c03FixedWidth(c *Ctx) {
	r := c.R
	n := 0
	for _, fn := range c.P.RepoFuncs("pkg") {
		b := ana.NewBuilder(c.P, fn)
		for _, ci := range ana.CallsTo(fn, "(*math/big.Int).Bytes") {
			call, ok := ci.(*ssa.Call)
			if !ok {
				continue
			}
			n++
			r.Fn(ana.ShortFunc(fn))
			for _, ref := range *call.Referrers() {
				key := "C03.fixed-width." + ana.ShortFunc(fn)
				switch u := ref.(type) {
				case *ssa.DebugRef:
				case ssa.CallInstruction:
					name := ana.CalleeName(u.Common())
					switch {
					case name == "(*math/big.Int).SetBytes", strings.HasSuffix(name, ".ScalarBaseMult"), strings.HasSuffix(name, ".ScalarMult"), name == "builtin.len":
						r.OK(key, c.ipos(u), "Bytes() feeds %s, which reads a big-endian integer of any length (exempt)", name)
					case name == "builtin.append" && b.CallTermAt(u).Is("call", "leftpad") && b.CallTermAt(u).Arg(0).V == ssa.Value(call):
						r.OK(key, c.ipos(u), "Bytes() is left-padded in place: append(make([]byte, size-len(b), …), b...)")
					default:
						callee := ana.StaticRepoCallee(u.Common())
						if callee == nil {
							r.Viol(key, c.ipos(u), "minimal-length Bytes() passed to %s without left padding", name)
							continue
						}
						pi := -1
						for i, a := range u.Common().Args {
							if a == ssa.Value(call) {
								pi = i
							}
						}
						r.Check(isLeftPad(c, callee, pi), key, c.ipos(u), "Bytes() is widened by %s, which must left-pad (zeros first, then the bytes): return term %s", callee.Name(), short(retTerm(c, callee), 200))
					}
				case *ssa.Return:
					r.Viol(key, c.ipos(u), "minimal-length Bytes() returned directly: leading zero bytes are lost")
				default:
					t := b.Of(call, nil)
					r.Viol(key, c.ipos(ref), "minimal-length Bytes() used by %T without left padding: %s", ref, short(t.String(), 100))
				}
			}
		}
	}
	// FillBytes writes the fixed width itself; such sites are instances of the rule that hold by construction
	for _, fn := range c.P.RepoFuncs("pkg") {
		for _, ci := range ana.CallsTo(fn, "(*math/big.Int).FillBytes") {
			n++
			r.OK("C03.fixed-width."+ana.ShortFunc(fn), c.ipos(ci), "FillBytes(buf) left-pads to len(buf) (and panics if the value does not fit)")
		}
	}
	r.Floor("C03.floor.fixed-width", n, 3, "(*big.Int).Bytes() / FillBytes call sites in pkg/")
}

func retTerm(c *Ctx, fn *ssa.Function) string {
	b := ana.NewBuilder(c.P, fn)
	for _, e := range ana.Exits(fn) {
		if !e.Panic && len(e.Results) > 0 {
			return b.Of(e.Results[0], e.Instr).String()
		}
	}
	return ""
}

// isLeftPad: every return of fn is append(zeros(size-len(b)), b...) for parameter b=p<pi>, or FillBytes.
func isLeftPad(c *Ctx, fn *ssa.Function, pi int) bool {
	if pi < 0 {
		return false
	}
	b := ana.NewBuilder(c.P, fn)
	p := "p" + itoa(int64(pi))
	ok := false
	for _, e := range ana.Exits(fn) {
		if e.Panic || len(e.Results) == 0 {
			continue
		}
		t := b.Of(e.Results[0], e.Instr)
		if _, m := ana.MatchAny(t,
			"call<leftpad>("+p+", $size)", // canonical form of append(make([]byte, size-len(b), …), b...)
			"concat(makeslice<[]byte>(bin<->($size, len("+p+")), _), "+p+")",
			"concat(slice(alloc<*>, 0, bin<->($size, len("+p+"))), "+p+")",
			"obj(makeslice<[]byte>($size, $size), call<builtin.copy>(slice(self, bin<->($size, len("+p+")), none), "+p+"))"); m {
			ok = true
			continue
		}
		return false
	}
	return ok
}

func c03Encode(c *Ctx) {
	r := c.R
	f := c.fn("pkg/bip39", "EntropyToMnemonic")
	if f == nil {
		return
	}
	fn := f.Function
	b := ana.NewBuilder(c.P, fn)
	// constants
	wl := c.P.SPkg[ana.Module+"/pkg/bip39/wordlist"]
	if wl != nil {
		ib, _ := wl.Members["IndexBits"].(*ssa.NamedConst)
		cnt, _ := wl.Members["Count"].(*ssa.NamedConst)
		r.Check(ib != nil && cnt != nil && ib.Value.Int64() == 11 && cnt.Value.Int64() == 2048, "C03.bit-layout.constants", "", "wordlist.IndexBits=11, wordlist.Count=2048")
	}
	if mask, w, g := c.globalInit("pkg/bip39", "wordIndexMask"); g != nil {
		r.Check(mask != nil && mask.String() == "call<math/big.NewInt>(2047)" && w == 1, "C03.bit-layout.mask", c.P.Pos(g.Pos()), "word index mask = 2^11-1 with a single writer: %s", mask)
	} else {
		r.OK("C03.bit-layout.mask", "", "the mask 2^11-1 is decided as the folded value in C03.bit-layout.encode-word")
	}

	// the per-word store — in EntropyToMnemonic itself or in a helper it hands the number and the word count to
	nStore := 0
	scan := func(fn *ssa.Function, b *ana.Builder) {
		for _, blk := range fn.Blocks {
			for _, ins := range blk.Instrs {
				st, ok := ins.(*ssa.Store)
				if !ok {
					continue
				}
				at := b.Of(st.Addr, st)
				bd, ok := ana.Match("iaddr($words, $i)", at)
				if !ok {
					continue
				}
				if _, isMs := ana.Match("makeslice<repo/pkg/bip39.Mnemonic>($n, $n)", stripObj(bd["$words"])); !isMs {
					continue
				}
				nStore++
				words := stripObj(bd["$words"])
				// index runs from len(words)-1 down
				last := "ind<-1>(bin<->(alt(len(_), " + termPat(words.Arg(0)) + "), 1))" // len(words) is the size it was made with
				_, okI := ana.Match(last, bd["$i"])
				r.Check(okI, "C03.bit-layout.encode-direction", c.ipos(st), "words are filled from the last index downwards: %s", short(bd["$i"].String(), 120))
				ge := edgesMatching(b, "bin<>=>("+last+", 0)")
				r.Check(len(ge) == 1, "C03.bit-layout.encode-all-words", c.ipos(st), "loop continues while i >= 0 (index 0 included)")
				// word count
				nb, okN := ana.Match("makeslice<*>(call<*>(bin<*>(len(p0), 8)), _)", words)
				_ = nb
				if okN {
					h := calleeOf(words.Arg(0))
					good := h != nil && len(h.Blocks) == 1
					if good {
						hv := &ana.VSA{B: ana.NewBuilder(c.P, h), Tracked: []string{"p0"}}
						ret := h.Blocks[0].Instrs[len(h.Blocks[0].Instrs)-1].(*ssa.Return)
						for _, bytes := range stepSet(16, 64, 4) {
							got, ok := hv.Eval(ret.Results[0], []int64{bytes * 8})
							if !ok || got != (bytes*8+bytes*8/32)/11 || (bytes*8+bytes*8/32)%11 != 0 {
								good = false
							}
						}
					}
					r.Check(good, "C03.bit-layout.bits-to-word-count", c.ipos(st), "word count = (ENT + ENT/32)/11 for every accepted size")
				} else {
					r.Viol("C03.bit-layout.bits-to-word-count", c.ipos(st), "word slice is not make(Mnemonic, f(len(entropy)*8)): %s", short(words.String(), 200))
				}
				vt := b.Of(st.Val, st)
				pat := "call<(repo/pkg/bip39/wordlist.List).Word>(load(global<repo/pkg/bip39.wordList>), conv<int>(call<(*math/big.Int).Int64|(*math/big.Int).Uint64>(obj(alloc<math/big.Int>, call<(*math/big.Int).And>(self, $E, call<math/big.NewInt>(2047)), ...))))"
				vb, okV := ana.Match(pat, vt)
				if !okV {
					r.Viol("C03.bit-layout.encode-word", c.ipos(st), "stored word is not wordList.Word(int(bigEntropy & mask)): %s", short(vt.String(), 300))
					continue
				}
				r.OK("C03.bit-layout.encode-word", c.ipos(st), "word[i] = wordList.Word(bigEntropy & (2^11-1))")
				eb, okE := ana.Match("obj(alloc<math/big.Int>, call<(*math/big.Int).SetBytes>(self, p0), call<(*math/big.Int).Lsh>(self, self, conv<uint>($cs)), call<(*math/big.Int).Or>(self, self, "+c03Chk("p0", "$cs")+"), maybe(call<(*math/big.Int).Rsh>(self, self, 11)))", vb["$E"])
				r.Check(okE, "C03.bit-layout.encode-assembly", c.ipos(st), "bigEntropy = SetBytes(entropy) << CS | checksum(entropy, CS), shifted right by 11 per word: %s", short(vb["$E"].String(), 400))
				if okE {
					_, okC := ana.MatchX(c.P, "bin</>(bin<*>(len(p0), 8), 32)", eb["$cs"])
					r.Check(okC, "C03.bit-layout.checksum-bits-encode", c.ipos(st), "CS = len(entropy)*8/32: %s", eb["$cs"])
					// the Rsh comes after the And within an iteration
					var andI, rshI ssa.Instruction
					for _, ci := range ana.Calls(fn) {
						switch ana.CalleeName(ci.Common()) {
						case "(*math/big.Int).And":
							andI = ci
						case "(*math/big.Int).Rsh":
							rshI = ci
						}
					}
					r.Check(andI != nil && rshI != nil && ana.InstrDominates(andI, st) && ana.InstrDominates(st, rshI), "C03.bit-layout.encode-order", c.ipos(st), "within an iteration: mask, store word, then shift right")
					// same checksum helper as the decoder
					d := c.P.Func("pkg/bip39", "MnemonicToEntropy")
					if d != nil {
						var dh *ssa.Function
						db := ana.NewBuilder(c.P, d)
						for _, ce := range edgesMatching(db, "bin<==>(call<(*math/big.Int).Cmp>($x, "+c03Chk("$e", "$n")+"), 0)") {
							dh = calleeOf(ce.Lit.Arg(0).Arg(1))
						}
						or, _ := ana.Find("call<(*math/big.Int).Or>(self, self, call<*>(p0, _))", vb["$E"])
						r.Check(dh != nil && or != nil && calleeOf(or.Arg(2)) == dh, "C03.checksum-gate.sibling-helper", c.ipos(st), "encoder and decoder use the same checksum routine")
					}
				}
			}
		}
	}
	scan(fn, b)
	if nStore == 0 {
		for _, ci := range ana.Calls(fn) {
			if h := ana.StaticRepoCallee(ci.Common()); h != nil && h != fn {
				if call := stripObj(b.CallTermAt(ci)); call.Op == "call" && len(call.Args) == len(h.Params) {
					r.Fn(ana.ShortFunc(h))
					scan(h, boundBuilderP(c.P, call))
				}
			}
		}
	}
	r.Floor("C03.floor.encode-store", nStore, 1, "word stores in EntropyToMnemonic")
}

func stripObj(t *ana.Term) *ana.Term {
	if t != nil && t.Op == "obj" {
		return t.Args[0]
	}
	return t
}

func c03Wordlists(c *Ctx) {
	r := c.R
	type lst struct{ lang, ctor, global, digest string }
	lists := []lst{{"english", "English", "english", sha256English}, {"japanese", "Japanese", "japanese", sha256Japanese}}
	var ctorFn *ssa.Function
	for _, l := range lists {
		key := "C03.wordlists." + l.lang
		f := c.P.Func("pkg/bip39/internal/wordlists", l.ctor)
		if f == nil {
			r.Undec(key+".anchor", "", "constructor %s not found", l.ctor)
			continue
		}
		r.Fn(ana.ShortFunc(f))
		fb := ana.NewBuilder(c.P, f)
		var src *ana.Term
		for _, e := range ana.Exits(f) {
			if !e.Panic {
				t := fb.Of(e.Results[0], e.Instr)
				if bd, ok := ana.Match("call<*>($s)", t); ok {
					src = bd["$s"]
					ctorFn = calleeOf(t)
				}
			}
		}
		if src == nil {
			r.Undec(key+".anchor", c.P.Pos(f.Pos()), "%s() is not ctor(<string>)", l.ctor)
			continue
		}
		text, isConst := src.Str()
		if !isConst {
			if bd, ok := ana.Match("load(global<$g>)", src); ok || src.Op == "load" {
				_ = bd
				gname := src.Arg(0).Name
				gname = gname[strings.LastIndex(gname, ".")+1:]
				init, writers, g := c.globalInit("pkg/bip39/internal/wordlists", gname)
				if init == nil {
					r.Undec(key+".anchor", "", "initial value of %s not found", gname)
					continue
				}
				text, isConst = init.Str()
				r.Check(writers == 1, key+".single-writer", c.P.Pos(g.Pos()), "word list variable %s has %d writer(s)", gname, writers)
			}
		}
		if !isConst {
			r.Undec(key+".anchor", c.P.Pos(f.Pos()), "word list text is not a constant")
			continue
		}
		words := strings.Fields(text)
		distinct := map[string]bool{}
		stable := 0
		for _, w := range words {
			distinct[w] = true
			if norm.NFKD.IsNormalString(w) {
				stable++
			}
		}
		r.Check(len(words) == 2048 && len(distinct) == 2048, key+".count", c.P.Pos(f.Pos()), "%d words, %d distinct (want 2048/2048)", len(words), len(distinct))
		r.Check(stable == len(words), key+".nfkd-stable", c.P.Pos(f.Pos()), "%d of %d words are NFKD-stable, so a parsed (NFKD-normalised) sentence can match them", stable, len(words))
		sum := sha256.Sum256([]byte(strings.Join(words, "\n") + "\n"))
		r.Check(hex.EncodeToString(sum[:]) == l.digest, key+".digest", c.P.Pos(f.Pos()), "SHA-256 of the newline-joined list = %s; official BIP-39 %s.txt = %s (index-for-index equality)", hex.EncodeToString(sum[:]), l.lang, l.digest)
	}
	// constructor: index = position
	if ctorFn != nil {
		r.Fn(ana.ShortFunc(ctorFn))
		cb := ana.NewBuilder(c.P, ctorFn)
		okMap, okCopy, okFields := false, false, false
		for _, blk := range ctorFn.Blocks {
			for _, ins := range blk.Instrs {
				if mu, ok := ins.(*ssa.MapUpdate); ok {
					k, v := cb.Of(mu.Key, mu), cb.Of(mu.Value, mu)
					_, a := ana.Match("load(iaddr(call<strings.Fields>(p0), bin<+>(ind<+1>(-1), 1)))", k)
					_, bb := ana.Match("bin<+>(ind<+1>(-1), 1)", v)
					okMap = a && bb
				}
			}
		}
		for _, ci := range ana.CallsTo(ctorFn, "builtin.copy") {
			t := cb.CallTermAt(ci)
			if _, ok := ana.Match("call<builtin.copy>(slice(faddr<#1>(_), 0, none), call<strings.Fields>(p0))", t); ok {
				okCopy = true
			}
		}
		if !okCopy {
			// the same array filled element by element in the loop over the fields: words[i] = fields[i] for every i
			// (a range loop over the fields whose body stores, with nothing that could skip an iteration's store)
			for _, l := range rangeLoops(cb) {
				if !matches("call<strings.Fields>(p0)", l.Coll) {
					continue
				}
				for _, blk := range ctorFn.Blocks {
					for _, ins := range blk.Instrs {
						st, isSt := ins.(*ssa.Store)
						if !isSt || !l.Blocks[blk] {
							continue
						}
						at, vt := cb.Of(st.Addr, st), cb.Of(st.Val, st)
						_, a := ana.Match("iaddr(faddr<#1>(_), bin<+>(ind<+1>(-1), 1))", at)
						_, bb := ana.Match("load(iaddr(call<strings.Fields>(p0), bin<+>(ind<+1>(-1), 1)))", vt)
						if a && bb && blk.Dominates(l.Back[0].From) && len(l.Back) == 1 {
							okCopy = true
						}
					}
				}
			}
		}
		okFields = len(ana.CallsTo(ctorFn, "strings.Fields")) == 1
		r.Check(okMap && okCopy && okFields, "C03.wordlists.index-is-position", c.P.Pos(ctorFn.Pos()), "constructor: fields = strings.Fields(text); indexes[fields[i]] = i; words = fields in order (map=%v copy=%v)", okMap, okCopy)
		// count guard and duplicate guard
		cnt := edgesMatching(cb, "bin<!=>(len(call<strings.Fields>(p0)), 2048)")
		r.Check(len(cnt) == 1, "C03.wordlists.count-guard", c.P.Pos(ctorFn.Pos()), "constructor panics unless exactly 2048 fields")
		// accessors
		for _, m := range []struct{ name, pat string }{
			{"Word", "load(iaddr(faddr<#1>(p0), p1))"},
		} {
			mf := c.P.Func("pkg/bip39/internal/wordlists", "wordList."+m.name)
			if mf == nil {
				continue
			}
			mb := ana.NewBuilder(c.P, mf)
			for _, e := range ana.Exits(mf) {
				if !e.Panic {
					t := mb.Of(e.Results[0], e.Instr)
					_, ok := ana.Match(m.pat, t)
					r.Check(ok, "C03.wordlists.accessor-"+m.name, c.ipos(e.Instr), "%s(i) = words[i]: %s", m.name, t)
				}
			}
		}
		for _, name := range []string{"Index", "Contains"} {
			mf := c.P.Func("pkg/bip39/internal/wordlists", "wordList."+name)
			if mf == nil {
				continue
			}
			mb := ana.NewBuilder(c.P, mf)
			for _, e := range ana.Exits(mf) {
				if !e.Panic {
					t := mb.Of(e.Results[0], e.Instr)
					want := "ext#0(lookup(load(faddr<#0>(p0)), p1))"
					if name == "Contains" {
						want = "ext#1(lookup(load(faddr<#0>(p0)), p1))"
					}
					_, ok := ana.Match(want, t)
					r.Check(ok, "C03.wordlists.accessor-"+name, c.ipos(e.Instr), "%s(word) reads indexes[word]: %s", name, t)
				}
			}
		}
	}
	// registration and default
	if in := c.P.Pkg("pkg/bip39").Func("init"); in != nil {
		regs := map[string]string{}
		var def string
		ib := ana.NewBuilder(c.P, in)
		var visit func(fn *ssa.Function)
		visit = func(fn *ssa.Function) {
			fb := ana.NewBuilder(c.P, fn)
			for _, ci := range ana.Calls(fn) {
				t := fb.CallTermAt(ci)
				if bd, ok := ana.Match("call<repo/pkg/bip39.RegisterWordList>($n, func<*>)", t); ok {
					n, _ := bd["$n"].Str()
					regs[n] = t.Arg(1).Name
				}
				if bd, ok := ana.Match("call<repo/pkg/bip39.SetWordList>($n)", t); ok {
					def, _ = bd["$n"].Str()
				}
				if cal := ana.StaticRepoCallee(ci.Common()); cal != nil && strings.HasPrefix(cal.Name(), "init#") {
					visit(cal)
				}
			}
		}
		_ = ib
		visit(in)
		r.Check(strings.HasSuffix(regs["english"], "wordlists.English") && strings.HasSuffix(regs["japanese"], "wordlists.Japanese"), "C03.wordlists.registered", c.P.Pos(in.Pos()), "registered: english→%s japanese→%s", regs["english"], regs["japanese"])
		r.Check(def == "english", "C03.wordlists.default", c.P.Pos(in.Pos()), "default language set at init: %q", def)
	}
	// SetWordList: wordList = wordLists[language]()
	if sf := c.fn("pkg/bip39", "SetWordList"); sf != nil {
		sb := ana.NewBuilder(c.P, sf.Function)
		ok := false
		for _, blk := range sf.Blocks {
			for _, ins := range blk.Instrs {
				if st, isSt := ins.(*ssa.Store); isSt {
					if g, isG := st.Addr.(*ssa.Global); isG && g == c.gvar("pkg/bip39", "wordList") {
						t := sb.Of(st.Val, st)
						_, ok = ana.Match("call<dynamic>(ext#0(lookup(load(global<repo/pkg/bip39.wordLists>), p0)))", t)
						if !ok {
							r.Viol("C03.wordlists.set", c.ipos(st), "wordList is not set to wordLists[language](): %s", t)
						}
					}
				}
			}
		}
		r.Check(ok, "C03.wordlists.set", c.P.Pos(sf.Pos()), "SetWordList stores wordLists[language]() into the active list")
	}
}
