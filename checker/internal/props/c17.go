package props

import (
	"bytes"
	"go/ast"
	"go/printer"
	"go/token"
	"go/types"
	"math/big"
	"strings"

	"golang.org/x/tools/go/ssa"

	"verif/checker/internal/ana"
)

// C17 — The secp256k1 curve implements the group law for all points and scalars.

var c17Copies = []string{"pkg/slip10/elliptic/internal/btccurve", "pkg/slip10/btccurve"}

func init() {
	register(&Prop{
		ID:    "C17",
		Level: "other",
		Explanation: "Static decision of the exceptional-case structure of the secp256k1 implementation, exactly the cases the SLIP-10 vectors never reach: nil-safety of ModInverse, no nil coordinate results, identity-aware z for affine inputs, the three exceptional exits of Jacobian addition (either operand at infinity, equal operands → doubling under BOTH coordinate-difference tests), conversion of z=0 to (0,0), " +
			"a scalar loop that processes every bit of the unmodified scalar from the identity, IsOnCurve's term, the SEC 2 constants (with Gy² ≡ Gx³+7 checked on the extracted values), and that the two copies of the file are identical. " +
			"The field formulas of add-2007-bl / dbl-2009-l for generic points are not decided (polynomial identities; pinned in practice by every SLIP-10 vector).",
		Run: runC17,
	})
}

func runC17(c *Ctx) {
	r := c.R
	r.Rule("C17.modinverse-nil", "every (*big.Int).ModInverse result is used only on paths where the inverted operand passed a Sign() != 0 test (ModInverse(0,p) returns nil)")
	r.Rule("C17.no-nil-result", "no method of a type implementing crypto/elliptic.Curve returns the nil literal for a *big.Int result")
	r.Rule("C17.identity-entry", "in Add, Double and ScalarMult the z handed to the Jacobian routines for an affine input is 0 iff the input is (0,0), else 1")
	r.Rule("C17.exceptional-add", "Jacobian addition returns (a copy of) operand 2 under z1==0, operand 1 under z2==0, and calls the doubling routine exactly under x-difference==0 AND y-difference==0; Jacobian→affine returns fresh zeros under z==0")
	r.Rule("C17.scalar-loop", "ScalarMult ranges over the scalar parameter itself, 8 iterations per byte, double then add on the top bit then shift left, starts from (0,0,0), has a single return through the affine conversion; ScalarBaseMult = ScalarMult(Gx, Gy, k)")
	r.Rule("C17.twin", "(informational) whether the two secp256k1.go copies are identical modulo comments; each copy is decided separately")
	r.Rule("C17.constants", "P, N, B, Gx, Gy equal SEC 2 §2.4.1; Gy² ≡ Gx³+7 (mod P); IsOnCurve = ((x·x·x + B) mod P == (y·y) mod P)")
	r.NotDec("the field formulas of add-2007-bl / dbl-2009-l for generic points, hence 'returns the group sum' as such")

	for _, rel := range c17Copies {
		c17Copy(c, rel)
	}
	c17Twin(c)
}

const bigSign = "call<(*math/big.Int).Sign>"

func c17Copy(c *Ctx, rel string) {
	r := c.R
	short1 := rel[strings.Index(rel, "slip10/")+7:]
	K := func(s string) string { return s + "." + short1 }
	pkgName := ana.Module + "/" + rel
	// the curve type is the type of the package that implements crypto/elliptic.Curve; its exported methods are
	// looked up by name (they are the interface), its unexported Jacobian helpers by their shape
	// (number of *big.Int parameters and results), so neither the type nor the helpers need keep their names
	var curveMethods []*ssa.Function
	if sp := c.P.Pkg(rel); sp != nil {
		for _, m := range sp.Members {
			tn, ok := m.(*ssa.Type)
			if !ok {
				continue
			}
			have := map[string]*ssa.Function{}
			for _, tt := range []types.Type{tn.Type(), types.NewPointer(tn.Type())} {
				ms := c.P.SSA.MethodSets.MethodSet(tt)
				for i := 0; i < ms.Len(); i++ {
					if o, isF := ms.At(i).Obj().(*types.Func); isF && o.Pkg() == sp.Pkg {
						if fn := c.P.SSA.FuncValue(o); fn != nil {
							have[o.Name()] = fn
						}
					}
				}
			}
			if have["Add"] != nil && have["Double"] != nil && have["ScalarMult"] != nil && have["ScalarBaseMult"] != nil && have["IsOnCurve"] != nil {
				for _, fn := range have {
					curveMethods = append(curveMethods, fn)
				}
			}
		}
	}
	shape := map[string][2]int{"addJacobian": {6, 3}, "doubleJacobian": {3, 3}, "affineFromJacobian": {3, 2}}
	meth := func(n string) *ssa.Function {
		var found *ssa.Function
		for _, fn := range curveMethods {
			if fn.Name() == n {
				found = fn
			}
		}
		if found == nil {
			if sh, ok := shape[n]; ok {
				var cands []*ssa.Function
				for _, fn := range curveMethods {
					sg := fn.Signature
					if token.IsExported(fn.Name()) || sg.Params().Len() != sh[0] || sg.Results().Len() != sh[1] {
						continue
					}
					all := true
					for i := 0; i < sg.Params().Len(); i++ {
						if sg.Params().At(i).Type().String() != "*math/big.Int" {
							all = false
						}
					}
					if all {
						cands = append(cands, fn)
					}
				}
				if len(cands) == 1 {
					found = cands[0]
				}
			}
		}
		if found == nil {
			// a helper turned into a package-level function (it is then handed what it needs of the curve)
			if _, isHelper := shape[n]; isHelper {
				found = c.P.Func(rel, n)
			}
		}
		if found == nil {
			r.Undec(K("C17.anchor."+n), "", "method %s not found in %s", n, rel)
			return nil
		}
		r.Fn(ana.ShortFunc(found))
		return found
	}
	// what the affine conversion is handed of the curve: the receiver, or (as a plain function) the field modulus
	const affRecv = "alt(p0, load(faddr<P>(field<CurveParams>(p0))), load(faddr<P>(load(faddr<CurveParams>(p0)))))"
	mname := func(n string) string {
		if f := meth(n); f != nil {
			return f.String()
		}
		return "<missing " + n + ">"
	}

	pureScan(c, K("C17.pure.no-package-state"), meth("Add"), meth("Double"), meth("ScalarMult"), meth("ScalarBaseMult"), meth("IsOnCurve"))

	// ---- modinverse-nil (all functions of the package)
	nInv := 0
	for _, fn := range c.P.RepoFuncs(rel) {
		b := ana.NewBuilder(c.P, fn)
		for _, ci := range ana.CallsTo(fn, "(*math/big.Int).ModInverse") {
			nInv++
			op := b.Of(ci.Common().Args[1], ci)
			nz := plainEdges(edgesMatching(b, "bin<!=>("+bigSign+"("+op.String()+"), 0)"))
			call, isVal := ci.(*ssa.Call)
			nilChecked := false
			if isVal {
				t := b.Of(call, nil)
				nilChecked = len(edgesMatching(b, "bin<!=>("+t.String()+", nil)")) > 0
			}
			r.Check(mustPass(fn, ci.Block(), nz) || nilChecked, K("C17.modinverse-nil"), c.ipos(ci), "ModInverse(%s, …) is reached only when the operand is non-zero (or its result is nil-checked)", short(op.String(), 60))
		}
	}
	r.Floor(K("C17.floor.modinverse"), nInv, 1, "ModInverse call sites")

	// ---- no-nil-result
	for _, n := range []string{"Add", "Double", "ScalarMult", "ScalarBaseMult", "affineFromJacobian", "addJacobian", "doubleJacobian"} {
		f := meth(n)
		if f == nil {
			continue
		}
		b := ana.NewBuilder(c.P, f)
		bad := 0
		for _, e := range ana.Exits(f) {
			if e.Panic {
				r.Viol(K("C17.no-nil-result."+n), c.ipos(e.Instr), "explicit panic in %s", n)
				continue
			}
			for _, res := range e.Results {
				if b.Of(res, e.Instr).Is("nil") {
					bad++
					r.Viol(K("C17.no-nil-result."+n), c.ipos(e.Instr), "%s returns a nil coordinate", n)
				}
			}
		}
		if bad == 0 {
			r.OK(K("C17.no-nil-result."+n), c.P.Pos(f.Pos()), "%s never returns the nil literal and has no explicit panic", n)
		}
	}

	// ---- identity-entry: helper summary + uses
	zf := "call<" + pkgName + ".zForAffine>"
	var zHelper *ssa.Function
	if f := meth("Add"); f != nil {
		b := ana.NewBuilder(c.P, f)
		for _, e := range ana.Exits(f) {
			if e.Panic {
				continue
			}
			t := b.Of(e.Results[0], e.Instr)
			pat := "ext#0(call<" + mname("affineFromJacobian") + ">(" + affRecv + ", ext#0($J), ext#1($J), ext#2($J)))"
			bd, ok := ana.Match(pat, t)
			okJ := false
			if ok {
				jb, m := ana.Match("call<"+mname("addJacobian")+">(p0, p1, p2, $z1, p3, p4, $z2)", bd["$J"])
				if m {
					_, a := ana.Match("call<*>(p1, p2)", jb["$z1"])
					_, bb := ana.Match("call<*>(p3, p4)", jb["$z2"])
					okJ = a && bb && calleeOf(jb["$z1"]) != nil && calleeOf(jb["$z1"]) == calleeOf(jb["$z2"])
					zHelper = calleeOf(jb["$z1"])
				}
			}
			r.Check(ok && okJ, K("C17.identity-entry.Add"), c.ipos(e.Instr), "Add = affine(addJacobian(x1,y1,z(x1,y1), x2,y2,z(x2,y2))) with z from the identity-aware helper: %s", short(t.String(), 200))
		}
	}
	if f := meth("Double"); f != nil {
		b := ana.NewBuilder(c.P, f)
		for _, e := range ana.Exits(f) {
			if e.Panic {
				continue
			}
			t := b.Of(e.Results[0], e.Instr)
			bd, ok := ana.Match("ext#0(call<"+mname("affineFromJacobian")+">("+affRecv+", ext#0($J), ext#1($J), ext#2($J)))", t)
			okJ := false
			if ok {
				jb, m := ana.Match("call<"+mname("doubleJacobian")+">(p0, p1, p2, $z)", bd["$J"])
				if m {
					_, a := ana.Match("call<*>(p1, p2)", jb["$z"])
					okJ = a && zHelper != nil && calleeOf(jb["$z"]) == zHelper
				}
			}
			r.Check(ok && okJ, K("C17.identity-entry.Double"), c.ipos(e.Instr), "Double = affine(doubleJacobian(x,y,z(x,y))) with the identity-aware z")
		}
	}
	_ = zf
	if zHelper == nil {
		r.Viol(K("C17.identity-entry.helper"), "", "no identity-aware z helper: Add passes a z that does not depend on whether the input is (0,0)")
	} else {
		r.Fn(ana.ShortFunc(zHelper))
		hb := ana.NewBuilder(c.P, zHelper)
		nz := plainEdges(edgesMatching(hb, "bin<!=>("+bigSign+"(p0), 0)", "bin<!=>("+bigSign+"(p1), 0)"))
		zz := edgesMatching(hb, "bin<==>("+bigSign+"(p0), 0)", "bin<==>("+bigSign+"(p1), 0)")
		ok := len(nz) == 2 && len(zz) == 2
		both := true
		// per exit: a definite 1 only behind a non-zero test, a bare fresh 0 only behind both zero tests; the single-exit
		// form `z := new(big.Int); if x != 0 || y != 0 { z.SetInt64(1) }; return z` has a conditional event instead
		zx := plainEdges(edgesMatching(hb, "bin<==>("+bigSign+"(p0), 0)"))
		zy := plainEdges(edgesMatching(hb, "bin<==>("+bigSign+"(p1), 0)"))
		nExit := 0
		for _, e := range ana.Exits(zHelper) {
			if e.Panic {
				ok = false
				continue
			}
			nExit++
			t := hb.Of(e.Results[0], e.Instr)
			blk := e.Instr.Block()
			switch {
			case matches("call<math/big.NewInt>(1)", t): // also the canonical form of new(big.Int).SetInt64(1)
				ok = ok && exitMustPass(zHelper, e, nz)
			case t.String() == "alloc<math/big.Int>":
				ok = ok && exitMustPass(zHelper, e, zx) && exitMustPass(zHelper, e, zy)
			case matches("obj(alloc<math/big.Int>, maybe(call<(*math/big.Int).SetInt64>(self, 1)))", t):
				sets := ana.CallsTo(zHelper, "(*math/big.Int).SetInt64", "(*math/big.Int).SetUint64")
				ok = ok && len(sets) == 1 && mustPass(zHelper, sets[0].Block(), nz)
				// the zero path: the return is reachable while avoiding the non-zero edges only through both ==0 edges
				reach := ana.ReachableAvoiding(zHelper, nz)
				both = both && reach[blk] && exitMustPass(zHelper, e, append(append([]ana.Edge{}, nz...), zx...)) && exitMustPass(zHelper, e, append(append([]ana.Edge{}, nz...), zy...))
			default:
				ok = false
			}
		}
		ok = ok && nExit >= 1
		r.Check(ok && both, K("C17.identity-entry.helper"), c.P.Pos(zHelper.Pos()), "z(x,y) = fresh 0, set to 1 iff x.Sign()!=0 or y.Sign()!=0 (so z=0 exactly for (0,0))")
	}

	// ---- exceptional-add
	if f := meth("addJacobian"); f != nil {
		b := ana.NewBuilder(c.P, f)
		z1z := plainEdges(edgesMatching(b, "bin<==>("+bigSign+"(p3), 0)"))
		z2z := plainEdges(edgesMatching(b, "bin<==>("+bigSign+"(p6), 0)"))
		cp := func(a, bb, cc string) string {
			return "obj(alloc<math/big.Int>, call<(*math/big.Int).Set>(self, " + a + "))|obj(alloc<math/big.Int>, call<(*math/big.Int).Set>(self, " + bb + "))|obj(alloc<math/big.Int>, call<(*math/big.Int).Set>(self, " + cc + "))"
		}
		var got1, got2, gotD bool
		for _, e := range ana.Exits(f) {
			if e.Panic || len(e.Results) != 3 {
				continue
			}
			s := b.Of(e.Results[0], e.Instr).String() + "|" + b.Of(e.Results[1], e.Instr).String() + "|" + b.Of(e.Results[2], e.Instr).String()
			switch {
			case s == ana.Expand(cp("p4", "p5", "p6")) || s == "p4|p5|p6":
				got2 = exitMustPass(f, e, z1z)
			case s == ana.Expand(cp("p1", "p2", "p3")) || s == "p1|p2|p3":
				got1 = exitMustPass(f, e, z2z)
			}
			t0 := b.Of(e.Results[0], e.Instr)
			if bd, ok := ana.Match("ext#0(call<"+mname("doubleJacobian")+">(p0, $x, $y, $z))", t0); ok {
				args := bd["$x"].String() + bd["$y"].String() + bd["$z"].String()
				if args != "p1p2p3" && args != "p4p5p6" {
					r.Viol(K("C17.exceptional-add.doubling"), c.ipos(e.Instr), "doubling is applied to %s, not to one of the operands", args)
					continue
				}
				// both difference tests
				var xEdges, yEdges []ana.Edge
				unreduced := 0
				for _, ce := range b.CondEdges() {
					bd2, ok := ana.Match("bin<==>("+bigSign+"($d), 0)", ce.Lit)
					if !ok {
						continue
					}
					dT := expandAll(c, bd2["$d"]) // the difference may be computed by a helper (sub then conditional add of P)
					sub, _ := ana.Find("call<(*math/big.Int).Sub>(self, $a, $b)", dT)
					if sub == nil || !dT.Is("obj") {
						continue
					}
					// only the first mutation decides what the value is a difference of
					first := dT.Arg(1)
					fb, ok := ana.Match("call<(*math/big.Int).Sub>(self, $a, $b)", first)
					if !ok {
						continue
					}
					mentions := func(t *ana.Term, p int) bool { return t.Contains(func(s *ana.Term) bool { return s.IsParam(p) }) }
					a, bb := fb["$a"], fb["$b"]
					// "== 0" decides "≡ 0 (mod p)" only for a value in [0, p): the difference is reduced itself (its last
					// mutation is Mod p), or both operands are and the difference is fixed up by a conditional + p
					const pT = "load(faddr<P>(alt(field<CurveParams>(p0), load(faddr<CurveParams>(p0)))))"
					modLast := func(t *ana.Term) bool {
						return t.Is("obj") && len(t.Args) > 1 && matches("call<(*math/big.Int).Mod>(self, self, "+pT+")", t.Args[len(t.Args)-1])
					}
					fixedUp := false
					for _, ev := range dT.Args[2:] {
						if matches("maybe(call<(*math/big.Int).Add>(self, self, "+pT+"))", ev) {
							fixedUp = true
						}
					}
					if !(modLast(dT) || modLast(a) && modLast(bb) && fixedUp) {
						unreduced++
					}
					if (mentions(a, 4) && mentions(bb, 1) || mentions(a, 1) && mentions(bb, 4)) && !mentions(a, 2) && !mentions(a, 5) {
						xEdges = append(xEdges, ce.Edge)
					}
					if mentions(a, 5) && mentions(bb, 2) || mentions(a, 2) && mentions(bb, 5) {
						yEdges = append(yEdges, ce.Edge)
					}
				}
				r.Check(unreduced == 0, K("C17.exceptional-add.differences-reduced"), c.ipos(e.Instr), "the differences tested against zero lie in [0, p): reduced themselves, or differences of reduced values with the conditional +p (%d are not: an unreduced difference of equal points is a non-zero multiple of p, the generic formula then yields Z3 = 0)", unreduced)
				gotD = len(xEdges) > 0 && len(yEdges) > 0 && exitMustPass(f, e, xEdges) && exitMustPass(f, e, yEdges)
				r.Check(gotD, K("C17.exceptional-add.doubling"), c.ipos(e.Instr), "doubling is returned only when the x-difference (u2−u1) AND the y-difference (s2−s1) are both zero (x tests %d, y tests %d); with the x test alone P+(−P) would be doubled", len(xEdges), len(yEdges))
			}
		}
		r.Check(got2, K("C17.exceptional-add.z1-zero"), c.P.Pos(f.Pos()), "returns operand 2 under z1.Sign()==0")
		r.Check(got1, K("C17.exceptional-add.z2-zero"), c.P.Pos(f.Pos()), "returns operand 1 under z2.Sign()==0")
		if !gotD {
			r.Check(false, K("C17.exceptional-add.doubling"), c.P.Pos(f.Pos()), "no exit through the doubling routine for equal operands (the generic formula yields Z3=0 with garbage X3,Y3)")
		}
	}
	if f := meth("affineFromJacobian"); f != nil {
		b := ana.NewBuilder(c.P, f)
		zz := plainEdges(edgesMatching(b, "bin<==>("+bigSign+"(p3), 0)"))
		ok := false
		for _, e := range ana.Exits(f) {
			if e.Panic || len(e.Results) != 2 {
				continue
			}
			if b.Of(e.Results[0], e.Instr).String() == "alloc<math/big.Int>" && b.Of(e.Results[1], e.Instr).String() == "alloc<math/big.Int>" && e.Results[0] != e.Results[1] {
				ok = exitMustPass(f, e, zz)
			}
		}
		r.Check(ok, K("C17.exceptional-add.affine-identity"), c.P.Pos(f.Pos()), "Jacobian→affine returns two fresh zero values under z.Sign()==0 (identity as (0,0))")
	}

	// ---- scalar loop
	if f := meth("ScalarMult"); f != nil {
		b := ana.NewBuilder(c.P, f)
		outer := false
		for _, l := range rangeLoops(b) {
			if l.Coll.IsParam(3) {
				outer = true
			}
		}
		inner := len(edgesMatching(b, "bin<<>(ind<+1>(0), 8)")) == 1
		// the same eight steps driven by a one-bit mask walking from bit 7 down to bit 0
		const maskPhi = "phi(128, bin<>>>(cycle, 1))"
		maskTop := plainEdges(edgesMatching(b, "bin<!=>(bin<&>(load(iaddr(p3, ind<+1>(0))), "+maskPhi+"), 0)"))
		maskForm := !inner && len(edgesMatching(b, "bin<!=>("+maskPhi+", 0)")) == 1 && len(maskTop) > 0
		// … or read through a bit index walking from 7 down to 0: (k[i] >> bit) & 1
		shiftTop := plainEdges(edgesMatching(b, "bin<!=>(bin<&>(bin<>>>(load(iaddr(p3, ind<+1>(0))), alt(ind<-1>(7), conv<uint>(ind<-1>(7)))), 1), 0)"))
		shiftForm := !inner && !maskForm && len(edgesMatching(b, "bin<>=>(ind<-1>(7), 0)")) == 1 && len(shiftTop) > 0
		inner = inner || maskForm || shiftForm
		nRet := 0
		for _, e := range ana.Exits(f) {
			if e.Panic {
				continue
			}
			nRet++
			t := b.Of(e.Results[0], e.Instr)
			_, ok := ana.Match("ext#0(call<"+mname("affineFromJacobian")+">("+affRecv+", _, _, _))", t)
			r.Check(ok, K("C17.scalar-loop.single-exit"), c.ipos(e.Instr), "the only way out of ScalarMult is the affine conversion of the accumulator")
		}
		r.Check(nRet == 1 && outer && inner, K("C17.scalar-loop.all-bits"), c.P.Pos(f.Pos()), "one return; outer loop ranges over the scalar parameter itself (no pre-reduction, no length special case), inner loop runs 8 times (returns=%d outer=%v inner=%v)", nRet, outer, inner)
		// per-bit body: double always, add under top bit, shift left by one
		dbl := ana.CallsTo(f, mname("doubleJacobian"))
		add := ana.CallsTo(f, mname("addJacobian"))
		okBody := len(dbl) == 1 && len(add) == 1
		if okBody {
			top := plainEdges(edgesMatching(b, "bin<>=>($byte, 128)")) // canonical form of every top-bit test of a byte (b&0x80 == 0x80, b&0x80 != 0, b>>7 != 0, b > 127)
			if maskForm {
				top = maskTop
			}
			if shiftForm {
				top = shiftTop
			}
			okBody = mustPass(f, add[0].Block(), top) && !mustPass(f, dbl[0].Block(), top) && ana.InstrDominates(dbl[0], add[0])
			at := b.CallTermAt(add[0])
			bd, m := ana.Match("call<*>(p0, p1, p2, $bz, _, _, _)", at)
			if m {
				_, zb := ana.Match("call<*>(p1, p2)", bd["$bz"])
				okBody = okBody && zb && calleeOf(bd["$bz"]) == zHelper
				for k := 0; k < 3; k++ {
					ex, isEx := add[0].Common().Args[4+k].(*ssa.Extract)
					if !isEx || ex.Index != k || ex.Tuple != dbl[0].Value() {
						okBody = false
					}
				}
			} else {
				okBody = false
			}
			// accumulator starts at three fresh zeros
			dt := b.CallTermAt(dbl[0])
			fresh := 0
			for i := 1; i <= 3; i++ {
				if dt.Arg(i).Contains(func(s *ana.Term) bool { return s.String() == "alloc<math/big.Int>" }) {
					fresh++
				}
			}
			okBody = okBody && fresh == 3
			// the tested byte is shifted left by one each iteration
			shl := false
			for _, ce := range b.CondEdges() {
				if bd, ok := ana.Match("bin<>=>($byte, 128)", ce.Lit); ok {
					if _, m := ana.Match("phi(bin<<<>(cycle, 1), load(iaddr(p3, ind<+1>(0))))", bd["$byte"]); m {
						shl = true
					}
				}
			}
			okBody = okBody && (shl || maskForm || shiftForm)
		}
		r.Check(okBody, K("C17.scalar-loop.double-and-add"), c.P.Pos(f.Pos()), "per bit: acc = 2·acc; if top bit of the current byte: acc = B + acc (B with identity-aware z); byte <<= 1; acc starts at the point at infinity (0,0,0)")
	}
	if f := meth("ScalarBaseMult"); f != nil {
		b := ana.NewBuilder(c.P, f)
		for _, e := range ana.Exits(f) {
			if e.Panic {
				continue
			}
			t := b.Of(e.Results[0], e.Instr)
			_, ok := ana.Match("ext#0(call<"+mname("ScalarMult")+">(p0, load(faddr<Gx>(field<CurveParams>(p0))), load(faddr<Gy>(field<CurveParams>(p0))), p1))", t)
			r.Check(ok, K("C17.scalar-loop.base-mult"), c.ipos(e.Instr), "ScalarBaseMult(k) = ScalarMult(Gx, Gy, k): %s", short(t.String(), 200))
		}
	}

	// ---- IsOnCurve and constants
	if f := meth("IsOnCurve"); f != nil {
		b := ana.NewBuilder(c.P, f)
		P := "load(faddr<P>(field<CurveParams>(p0)))"
		B := "load(faddr<B>(field<CurveParams>(p0)))"
		lhs := "obj(alloc<math/big.Int>, call<(*math/big.Int).Mul>(self, p1, p1), call<(*math/big.Int).Mul>(self, self, p1), call<(*math/big.Int).Add>(self, self, " + B + "), call<(*math/big.Int).Mod>(self, self, " + P + "))"
		rhs := "obj(alloc<math/big.Int>, call<(*math/big.Int).Mul>(self, p2, p2), call<(*math/big.Int).Mod>(self, self, " + P + "))"
		for _, e := range ana.Exits(f) {
			if e.Panic {
				continue
			}
			t := b.Of(e.Results[0], e.Instr)
			_, ok := ana.MatchAny(t, "bin<==>(call<(*math/big.Int).Cmp>("+lhs+", "+rhs+"), 0)", "bin<==>(call<(*math/big.Int).Cmp>("+rhs+", "+lhs+"), 0)")
			r.Check(ok, K("C17.constants.is-on-curve"), c.ipos(e.Instr), "IsOnCurve = ((x³ + B) mod P == y² mod P), the sum reduced after adding B: %s", ana.Explain("bin<==>(call<(*math/big.Int).Cmp>("+lhs+", "+rhs+"), 0)", t))
		}
	}
	c17Constants(c, rel, K)
}

func c17Constants(c *Ctx, rel string, K func(string) string) {
	r := c.R
	sec2 := map[string]string{
		"P":  "FFFFFFFFFFFFFFFFFFFFFFFFFFFFFFFFFFFFFFFFFFFFFFFFFFFFFFFEFFFFFC2F",
		"N":  "FFFFFFFFFFFFFFFFFFFFFFFFFFFFFFFEBAAEDCE6AF48A03BBFD25E8CD0364141",
		"B":  "7",
		"Gx": "79BE667EF9DCBBAC55A06295CE870B07029BFCDB2DCE28D959F2815B16F81798",
		"Gy": "483ADA7726A3C4655DA4FBFC0E1108A8FD17B448A68554199C47D08FFB10D4B8",
	}
	pk := c.P.Pkg(rel)
	found := map[string]*big.Int{}
	var bitSize int64
	for _, fn := range c.P.RepoFuncs(rel) {
		if fn.Pkg != pk || !strings.HasPrefix(fn.Name(), "init") {
			continue
		}
		b := ana.NewBuilder(c.P, fn)
		for _, blk := range fn.Blocks {
			for _, ins := range blk.Instrs {
				st, ok := ins.(*ssa.Store)
				if !ok {
					continue
				}
				at := b.Of(st.Addr, st)
				for name := range sec2 {
					if at.Is("faddr", name) {
						vt := b.Of(st.Val, st)
						if bd, m := ana.Match("obj(alloc<math/big.Int>, call<(*math/big.Int).SetString>(self, $s, $base))", vt); m {
							s, _ := bd["$s"].Str()
							base, _ := bd["$base"].Int()
							if v, ok := new(big.Int).SetString(s, int(base)); ok {
								found[name] = v
							}
						}
					}
				}
				if at.Is("faddr", "BitSize") {
					bitSize, _ = b.Of(st.Val, st).Int()
				}
			}
		}
	}
	ok := len(found) == 5 && bitSize == 256
	for name, hex := range sec2 {
		want, _ := new(big.Int).SetString(hex, 16)
		if found[name] == nil || found[name].Cmp(want) != 0 {
			ok = false
		}
	}
	r.Check(ok, K("C17.constants.sec2"), "", "P, N, B, Gx, Gy (and BitSize 256) as assigned by the initialiser equal SEC 2 §2.4.1 (%d constants extracted)", len(found))
	if ok {
		p := found["P"]
		l := new(big.Int).Mul(found["Gy"], found["Gy"])
		l.Mod(l, p)
		rr := new(big.Int).Exp(found["Gx"], big.NewInt(3), p)
		rr.Add(rr, found["B"])
		rr.Mod(rr, p)
		r.Check(l.Cmp(rr) == 0, K("C17.constants.generator-on-curve"), "", "Gy² ≡ Gx³ + 7 (mod P) on the extracted constants")
	}
}

func c17Twin(c *Ctx) {
	r := c.R
	var texts []string
	for _, rel := range c17Copies {
		pk := c.P.ByPath[ana.Module+"/"+rel]
		if pk == nil {
			r.Undec("C17.twin", "", "package %s not loaded", rel)
			return
		}
		var sb strings.Builder
		for _, f := range pk.Syntax {
			cp := *f
			cp.Comments = nil
			cp.Doc = nil
			ast.Inspect(&cp, func(n ast.Node) bool {
				switch x := n.(type) {
				case *ast.FuncDecl:
					x.Doc = nil
				case *ast.GenDecl:
					x.Doc = nil
				case *ast.Field:
					x.Doc, x.Comment = nil, nil
				case *ast.ValueSpec:
					x.Doc, x.Comment = nil, nil
				case *ast.TypeSpec:
					x.Doc, x.Comment = nil, nil
				}
				return true
			})
			var buf bytes.Buffer
			printer.Fprint(&buf, token.NewFileSet(), &cp)
			sb.WriteString(buf.String())
		}
		texts = append(texts, sb.String())
	}
	// informational only: every rule is decided on each copy separately, so the copies may legitimately diverge
	same := len(texts) == 2 && texts[0] == texts[1]
	r.OK("C17.twin", "", "both secp256k1 copies are analysed independently by every rule; their syntax trees modulo comments are identical: %v", same)
}
