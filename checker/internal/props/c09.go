package props

import (
	"fmt"

	"golang.org/x/text/unicode/norm"

	"verif/checker/internal/ana"
)

// C09 — BIP-39 seed is PBKDF2 over the normalized sentence and passphrase.

func init() {
	register(&Prop{
		ID:    "C09",
		Level: "other",
		Explanation: "Static decision of MnemonicToSeed's mechanism: validation gate (MnemonicToEntropy error is nil) on every seed-returning path, error propagation with a nil seed, and the exact argument terms of pbkdf2.Key " +
			"(password = words joined by one space, salt = \"mnemonic\" ‖ NFKD(passphrase) in that order, 2048 iterations, 64 bytes, sha512.New); the parser/printer terms (ParseMnemonic = Fields(NFKD(s)), String = Join(\" \"), Marshal/Unmarshal delegation); " +
			"that nothing but a pure function of the arguments is returned (no package-level state is read or written on the path). PBKDF2/NFKD outputs are library semantics.",
		Run: runC09,
	})
}

func runC09(c *Ctx) {
	r := c.R
	nfkd := fmt.Sprint(int(norm.NFKD))
	r.Rule("C09.gate", "every non-error return of MnemonicToSeed passes err==nil of MnemonicToEntropy(mnemonic); the error is propagated with a nil seed")
	r.Rule("C09.pbkdf2-args", "seed = pbkdf2.Key([]byte(mnemonic.String()), []byte(\"mnemonic\"+norm.NFKD.String(passphrase)), 2048, 64, sha512.New), returned as is")
	r.Rule("C09.string", "Mnemonic.String = strings.Join(ms, \" \")")
	r.Rule("C09.parse", "ParseMnemonic = strings.Fields(norm.NFKD.String(s)); UnmarshalText stores ParseMnemonic(string(text)); MarshalText returns []byte(String())")
	r.Rule("C09.pure", "functions on the seed path neither read nor write package-level variables other than the active word list (no caching/aliasing of results)")
	r.Assume("golang.org/x/crypto/pbkdf2, golang.org/x/text/unicode/norm: NFKD is idempotent; strings.Fields∘Join(\" \") is the identity on non-empty space-free fields")
	r.NotDec("PBKDF2 and NFKD outputs (library semantics)")

	if f := c.fn("pkg/bip39", "MnemonicToSeed"); f != nil {
		fn := f.Function
		b := ana.NewBuilder(c.P, fn)
		gate := edgesMatching(b, "bin<==>(ext#1(call<repo/pkg/bip39.MnemonicToEntropy>(p0)), nil)")
		want := "call<golang.org/x/crypto/pbkdf2.Key>(conv<[]byte>(call<strings.Join>(p0, \" \")), concat(\"mnemonic\", call<(golang.org/x/text/unicode/norm.Form).String>(" + nfkd + ", p1)), 2048, 64, func<crypto/sha512.New>)"
		nOK := 0
		for _, e := range ana.Exits(fn) {
			if e.Panic {
				r.Viol("C09.gate.no-panic", c.ipos(e.Instr), "explicit panic in MnemonicToSeed")
				continue
			}
			errT := b.Of(e.Results[1], e.Instr)
			seedT := b.Of(e.Results[0], e.Instr)
			if errT.Is("nil") {
				nOK++
				r.Check(exitMustPass(fn, e, plainEdges(gate)), "C09.gate.validated", c.ipos(e.Instr), "seed returned only after MnemonicToEntropy(mnemonic) returned no error")
				_, ok := ana.MatchX(c.P, want, seedT)
				r.Check(ok, "C09.pbkdf2-args.term", c.ipos(e.Instr), "seed term: %s", short(seedT.String(), 500))
			} else {
				_, ok := ana.Match("ext#1(call<repo/pkg/bip39.MnemonicToEntropy>(p0))", errT)
				r.Check(ok && seedT.Is("nil"), "C09.gate.error-propagated", c.ipos(e.Instr), "error return = MnemonicToEntropy's error with a nil seed: %s / %s", short(errT.String(), 100), short(seedT.String(), 100))
			}
		}
		r.Floor("C09.floor.success-returns", nOK, 1, "seed-returning exits")
		// purity: no stores to globals, no loads of globals on the seed path (in MnemonicToSeed itself)
		nGlob := 0
		for _, blk := range fn.Blocks {
			for _, ins := range blk.Instrs {
				for _, op := range ins.Operands(nil) {
					if g, ok := (*op).(interface{ Name() string }); ok {
						_ = g
					}
				}
			}
		}
		for _, rf := range []string{"MnemonicToSeed", "Mnemonic.String", "ParseMnemonic"} {
			if x := c.P.Func("pkg/bip39", rf); x != nil {
				nGlob += globalsTouched(x)
			}
		}
		r.Check(nGlob == 0, "C09.pure.no-package-state", c.P.Pos(fn.Pos()), "MnemonicToSeed, Mnemonic.String and ParseMnemonic touch %d package-level variables (a cache or shared buffer would make results depend on history)", nGlob)
	}

	// the validation gate is only as good as MnemonicToEntropy: its size, word and checksum obligations (C03) are re-decided here
	reKey(c, "C03.", "C09.gate.validation.", func() { c03Decode(c) })
	pureScan(c, "C09.pure.reachable", c.P.Func("pkg/bip39", "MnemonicToSeed"), c.P.Func("pkg/bip39", "ParseMnemonic"), c.P.Func("pkg/bip39", "Mnemonic.String"))

	if f := c.fn("pkg/bip39", "Mnemonic.String"); f != nil {
		b := ana.NewBuilder(c.P, f.Function)
		for _, e := range ana.Exits(f.Function) {
			if e.Panic {
				continue
			}
			t := b.Of(e.Results[0], e.Instr)
			_, ok := ana.Match("call<strings.Join>(p0, \" \")", t)
			r.Check(ok, "C09.string.join-single-space", c.ipos(e.Instr), "String() = %s", t)
		}
	}
	if f := c.fn("pkg/bip39", "ParseMnemonic"); f != nil {
		b := ana.NewBuilder(c.P, f.Function)
		for _, e := range ana.Exits(f.Function) {
			if e.Panic {
				continue
			}
			t := b.Of(e.Results[0], e.Instr)
			_, ok := ana.MatchX(c.P, "call<strings.Fields>(call<(golang.org/x/text/unicode/norm.Form).String>("+nfkd+", p0))", t)
			r.Check(ok, "C09.parse.nfkd-then-fields", c.ipos(e.Instr), "ParseMnemonic(s) = %s (normalise first: NFKD can introduce spaces)", t)
		}
	}
	if f := c.fn("pkg/bip39", "Mnemonic.MarshalText"); f != nil {
		b := ana.NewBuilder(c.P, f.Function)
		for _, e := range ana.Exits(f.Function) {
			if e.Panic {
				continue
			}
			t := b.Of(e.Results[0], e.Instr)
			_, ok := ana.Match("conv<[]byte>(call<(repo/pkg/bip39.Mnemonic).String>(p0))", t)
			r.Check(ok && b.Of(e.Results[1], e.Instr).Is("nil"), "C09.parse.marshal", c.ipos(e.Instr), "MarshalText = []byte(String()), nil: %s", t)
		}
	}
	if f := c.fn("pkg/bip39", "Mnemonic.UnmarshalText"); f != nil {
		b := ana.NewBuilder(c.P, f.Function)
		for _, e := range ana.Exits(f.Function) {
			if e.Panic {
				continue
			}
			st := b.Of(f.Params[0], e.Instr)
			_, ok := ana.Match("obj(p0, store(self, call<repo/pkg/bip39.ParseMnemonic>(conv<string>(p1))))", st)
			r.Check(ok && b.Of(e.Results[0], e.Instr).Is("nil"), "C09.parse.unmarshal", c.ipos(e.Instr), "UnmarshalText stores ParseMnemonic(string(text)): %s", short(st.String(), 200))
		}
	}
}
