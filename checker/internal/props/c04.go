package props

import (
	"fmt"
	"go/types"
	"os"
	"strings"

	"golang.org/x/tools/go/ssa"

	"verif/checker/internal/ana"
	"verif/checker/internal/bitdom"
)

// C04 — Bech32 Decode accepts exactly the valid strings and never panics.

func init() {
	register(&Prop{
		ID:    "C04",
		Level: "other",
		Explanation: "Static decision of Decode's mechanism: the complete exit inventory (every success return passes all validity gates; every error return is reachable only through a closed list of reject reasons), " +
			"the ASCII-before-case-folding rule for every strings.ToLower/ToUpper in the package (interprocedural proof that the folded argument is ASCII on every call path), the charset tables folded from the initialiser, " +
			"the bit-exact 5→8 regroup for every data length 0..90 in the bit-level ANF domain (each input bit lands on exactly one output bit or is tested zero; bounds checked per length), " +
			"offset terms of every SyntaxError and in-range slicing by value-set analysis over (len(s), separator position). Checksum arithmetic is C16's.",
		Run: runC04,
	})
}

func runC04(c *Ctx) {
	r := c.R
	r.Rule("C04.exits", "success return of Decode passes: len<=90, all bytes ASCII, separator found, hrpLen>=1, hrpLen+6<=len, all HRP runes in 33..126, single case, all data chars in charset, >=6 symbols and checksum valid, regroup ok; error returns are reachable only through the negations of these; hrp = lower-cased prefix, bytes = regroup output")
	r.Rule("C04.ascii-before-fold", "for every strings.ToLower/ToUpper in package bech32, on every call path from Encode/Decode the argument is proven ASCII (whole-argument guard loop, or built only from validated parts, ASCII constants and the ASCII charset table)")
	r.Rule("C04.charset", "charset.enc = BIP-173 alphabet; decMap = inverse with 0xFF elsewhere; decode rejects exactly the sentinel and hands on values < 32")
	r.Rule("C04.regroup-bits", "for each data length L in 0..90: L mod 8 in {1,3,6} -> error; otherwise output bit (8i+r) = input symbol bit at MSB-first stream position 8i+r, the padding bits are exactly the bits tested zero, count = 5L/8, no index out of range")
	r.Rule("C04.reencode", "the obligations of C05 on Encode (regroup-bits for every length, checksum flow, charset walk, exits): an accepted string re-encodes to its own lower-case form only if Encode is the inverse the statement names")
	r.Rule("C04.offset-range", "every SyntaxError.Offset value lies in [0, len(s)] for all (len(s), separator position) reaching it")
	r.Rule("C04.no-panic", "no explicit panic reachable from Decode; slice bounds in Decode hold for all (len(s), separator position) reaching them")
	r.Assume("strings.LastIndex(s, sep) returns -1 or an index < len(s); strings.ToLower preserves length and indices for ASCII input; fmt/errors as documented")
	r.NotDec("checksum arithmetic (C16)")

	f := c.fn("pkg/bech32", "Decode")
	if f == nil {
		return
	}
	fn := f.Function
	b := ana.NewBuilder(c.P, fn)
	enc, dec, terr := charsetTables(c)

	// ---------- charset tables
	if terr != nil {
		r.Undec("C04.charset.tables", "", "cannot fold charset tables: %v", terr)
	} else {
		s := make([]byte, len(enc))
		for i, x := range enc {
			s[i] = byte(x)
		}
		r.Check(string(s) == bip173Charset, "C04.charset.alphabet", "", "enc = %q (BIP-173: %q)", string(s), bip173Charset)
		ok := true
		for ch := 0; ch < 256; ch++ {
			want := uint64(0xFF)
			if i := strings.IndexByte(bip173Charset, byte(ch)); i >= 0 {
				want = uint64(i)
			}
			if dec[ch] != want {
				ok = false
			}
		}
		r.Check(ok, "C04.charset.inverse", "", "decMap[c] = index of c in the alphabet, 0xFF for every other byte (256 entries compared)")
	}
	// decode helper: sentinel rejection, value handed on
	// (the helper reports a bad character through an error, or through its position with -1 for "none")
	var decodeFn *ssa.Function
	statusIdx := false
	for _, ce := range deepEdges(c, b) {
		if _, ok := ana.Match("bin<==>(ext#1(call<*>(load(global<repo/pkg/bech32.charset>), _)), nil)", ce.Lit); ok {
			decodeFn = calleeOf(ce.Lit.Arg(0))
		}
		if _, ok := ana.MatchAny(ce.Lit, "bin<<>(ext#1(call<*>(load(global<repo/pkg/bech32.charset>), _)), 0)", "bin<==>(ext#1(call<*>(load(global<repo/pkg/bech32.charset>), _)), -1)"); ok && decodeFn == nil {
			if h := calleeOf(ce.Lit.Arg(0)); h != nil && h.Signature.Results().Len() == 2 && types.Identical(h.Signature.Results().At(1).Type(), types.Typ[types.Int]) {
				decodeFn, statusIdx = h, true
			}
		}
	}
	c04DecodeIdx = nil
	if statusIdx {
		c04DecodeIdx = decodeFn
	}
	if decodeFn == nil {
		r.Undec("C04.charset.decode-helper", c.P.Pos(fn.Pos()), "no charset.decode gate found in Decode")
	} else {
		r.Fn(ana.ShortFunc(decodeFn))
		db := ana.NewBuilder(c.P, decodeFn)
		// the loop over the data part may range over the string or count byte positions: both index every byte
		idx := "alt(ext#1(next(range(p1))), ind<+1>(0))"
		elem := "load(iaddr(faddr<#1>(p0), index(p1, " + idx + ")))"
		loops := rangeLoops(db)
		okLoop := false
		for _, l := range loops {
			if l.Coll.IsParam(1) && forAll(db, l, "bin<!=>("+elem+", 255)") {
				okLoop = true
				for _, e := range ana.Exits(decodeFn) {
					if e.Panic {
						r.Viol("C04.no-panic.explicit", c.ipos(e.Instr), "panic in charset decode")
						continue
					}
					et := db.Of(e.Results[1], e.Instr)
					vt := db.Of(e.Results[0], e.Instr)
					success := et.Is("nil")
					if statusIdx {
						// -1 for "every character decoded", otherwise the (non-negative) loop position of the bad character
						k, isInt := et.Int()
						success = isInt && k == -1
						if !success && !matches(idx, et) {
							r.Viol("C04.charset.decode-reject", c.ipos(e.Instr), "reported position is neither -1 nor the loop index: %s", short(et.String(), 120))
							continue
						}
					}
					// the digits appended one per iteration to an empty slice: after k iterations it holds k digits, so at the reject
					// (taken before that iteration's append) its length is the position of the bad character
					built := "phi(concat(cycle, slice(obj(alloc<[1]uint8>, store(iaddr(self, 0), " + elem + ")), 0, none)), makeslice<[]uint8>(0, len(p1)))"
					if w, _ := ana.Find(built, vt); w != nil && vt.Is("phi") && db.Root(e.Results[0]) == db.Root(w.V) {
						apps := ana.CallsTo(decodeFn, "builtin.append")
						okApp := len(apps) == 1 && len(l.Back) == 1 && l.Blocks[apps[0].Block()] && apps[0].Block().Dominates(l.Back[0].From)
						if success {
							r.Check(okApp && exitMustPass(decodeFn, e, []ana.Edge{{From: l.Header, To: l.Exit}}), "C04.charset.decode-values", c.ipos(e.Instr), "success: the digits decMap[src[i]] appended for every i in order to an empty slice")
						} else {
							es := edgesMatching(db, "bin<==>("+elem+", 255)")
							r.Check(okApp && exitMustPass(decodeFn, e, plainEdges(es)), "C04.charset.decode-reject", c.ipos(e.Instr), "error only when the table yields the sentinel 0xFF; returns the digits appended so far (their count is the error offset)")
						}
						continue
					}
					if success {
						_, ok := ana.Match("obj(makeslice<[]uint8>(len(p1), len(p1)), maybe(store(iaddr(self, "+idx+"), "+elem+")))", vt)
						r.Check(ok && exitMustPass(decodeFn, e, []ana.Edge{{From: l.Header, To: l.Exit}}), "C04.charset.decode-values", c.ipos(e.Instr), "success: dst[i] = decMap[src[i]] for every i, len(dst) = len(src): %s", short(vt.String(), 200))
					} else {
						es := edgesMatching(db, "bin<==>("+elem+", 255)")
						_, ok := ana.Match("slice(_, 0, "+idx+")", vt)
						r.Check(exitMustPass(decodeFn, e, plainEdges(es)) && ok, "C04.charset.decode-reject", c.ipos(e.Instr), "error only when the table yields the sentinel 0xFF; returns the prefix decoded so far (its length is the error offset)")
					}
				}
			}
		}
		r.Check(okLoop, "C04.charset.decode-helper", c.P.Pos(decodeFn.Pos()), "decode continues only while decMap[src[i]] != 0xFF, for every byte of the data part")
	}

	// ---------- gates
	hl := `call<strings.LastIndex>(p0, "1")`
	lower := "call<strings.ToLower>(p0)"
	// the two parts of the lower-cased string, or each part lower-cased on its own (the string is ASCII there:
	// C04.ascii-before-fold.*, so folding preserves positions)
	hrpLow := "alt(slice(" + lower + ", 0, " + hl + "), call<strings.ToLower>(slice(p0, 0, " + hl + ")))"
	charsLow := "alt(slice(" + lower + ", bin<+>(" + hl + ", 1), none), call<strings.ToLower>(slice(p0, bin<+>(" + hl + ", 1), none)))"
	data := "ext#0(call<*>(load(global<repo/pkg/bech32.charset>), " + charsLow + "))"
	_, _, caseIdx := caseGate(c, b)
	decStatus := "ext#1(call<*>(load(global<repo/pkg/bech32.charset>), " + charsLow + "))"
	type gate struct {
		name   string
		accept []string
		reject []string
	}
	gates := []gate{
		{"max-length", []string{"bin<<=>(len(p0), 90)"}, []string{"bin<>>(len(p0), 90)"}},
		{"separator-present", []string{"bin<!=>(" + hl + ", -1)"}, []string{"bin<==>(" + hl + ", -1)"}},
		{"hrp-nonempty", []string{"bin<>=>(" + hl + ", 1)", "bin<!=>(" + hl + ", 0)"}, []string{"bin<<>(" + hl + ", 1)", "bin<==>(" + hl + ", 0)"}}, // with separator-present (hl != -1): hl != 0 ⟺ hl >= 1
		{"six-symbols-after-separator", []string{"bin<<>(bin<->(" + hl + ", len(p0)), -5)"}, []string{"bin<>=>(bin<->(" + hl + ", len(p0)), -5)"}},  // canonical form of hrpLen+6 <= len(s)
		{"single-case", caseAccept("*", caseIdx), caseReject("*", caseIdx)},
		{"charset", []string{"bin<==>(" + decStatus + ", nil)"}, []string{"bin<!=>(" + decStatus + ", nil)"}},
		{"checksum-length", []string{"bin<>=>(len(" + data + "), 6)"}, []string{"bin<<>(len(" + data + "), 6)"}},
		// through the verification routine, or written out: polymod(expand(hrp) ‖ data) == 1 (the routines are decided under C16)
		{"checksum-valid", []string{"call<*>(" + hrpLow + ", " + data + ")", "bin<==>(call<*>(concat(call<*>(" + hrpLow + "), " + data + ")), 1)"},
			[]string{"un<!>(call<*>(" + hrpLow + ", " + data + "))", "bin<!=>(call<*>(concat(call<*>(" + hrpLow + "), " + data + ")), 1)"}},
		{"regroup", []string{"bin<==>(ext#1(call<repo/pkg/bech32/internal/base32.Decode>(_, slice(" + data + ", 0, bin<->(len(" + data + "), 6)))), nil)"},
			[]string{"bin<!=>(ext#1(call<repo/pkg/bech32/internal/base32.Decode>(_, slice(" + data + ", 0, bin<->(len(" + data + "), 6)))), nil)"}},
	}
	if statusIdx {
		gates[5].accept = []string{"bin<<>(" + decStatus + ", 0)", "bin<==>(" + decStatus + ", -1)"}
		gates[5].reject = []string{"bin<>=>(" + decStatus + ", 0)", "bin<!=>(" + decStatus + ", -1)"}
	}
	var rejectPats []string
	var succ, errs []vexit
	for _, v := range c.vexits(b) {
		if v.Panic {
			r.Viol("C04.no-panic.explicit", c.vpos(v), "explicit panic in Decode")
			continue
		}
		if v.Results[2].Is("nil") {
			succ = append(succ, v)
		} else {
			errs = append(errs, v)
		}
	}
	r.Floor("C04.floor.success", len(succ), 1, "success returns")
	r.Floor("C04.floor.errors", len(errs), 1, "error returns")
	for _, g := range gates {
		rejectPats = append(rejectPats, g.reject...)
		for _, v := range succ {
			r.Check(c.vpasses(v, g.accept...), "C04.exits.gate."+g.name, c.vpos(v), "success return passes the %s gate (in Decode or through the helper that validates it)", g.name)
		}
	}
	// loops: whole-string ASCII guard and HRP rune validation
	asciiOK := func(b2 *ana.Builder, l *rangeLoop) bool {
		return l.Coll.String() == "p0" && forAll(b2, *l, "bin<<>(index(p0, ind<+1>(0)), 128)", "bin<<=>(index(p0, ind<+1>(0)), 127)", "bin<<>(ext#2(next(range(p0))), 128)")
	}
	hrpOK := func(b2 *ana.Builder, l *rangeLoop) bool {
		coll := l.Coll
		if x, ch := ana.ExpandCalls(c.P, coll); ch {
			coll = x // a separator position reported by a helper
		}
		if cs := coll.String(); cs != "slice(p0, 0, "+ana.Expand(hl)+")" && cs != "upto("+ana.Expand(hl)+")" {
			return false
		}
		// s[:hrpLen] ranged as runes, or byte positions 0..hrpLen-1 converted to runes (the string is ASCII there)
		elems := []string{"call<*>(ext#2(next(range(slice(p0, 0, " + hl + ")))))", "call<*>(conv<rune>(index(p0, ind<+1>(0))))", "call<*>(index(p0, ind<+1>(0)))"}
		for _, ce := range b2.CondEdges() {
			if _, m := ana.MatchAny(ce.Lit, elems...); m {
				if h := calleeOf(ce.Lit); h != nil && forAll(b2, *l, ce.Lit.String()) {
					hb := ana.NewBuilder(c.P, h)
					vs := &ana.VSA{B: hb, Tracked: []string{"p0"}, Ranges: [][2]int64{{0, 400}}}
					acceptSet := map[int64]bool{}
					okEval := true
					sets, tuples := vs.Run()
					for _, e := range ana.Exits(h) {
						for idx := range sets[e.Instr.Block()] {
							x := ana.TupleOf(tuples, idx)[0]
							val, ok := evalReturnBool(vs, h, e, []int64{x})
							if !ok {
								okEval = false
							}
							if val {
								acceptSet[x] = true
							}
						}
					}
					r.Fn(ana.ShortFunc(h))
					r.Check(okEval && setEqual(acceptSet, stepSet(33, 126, 1)), "C04.exits.hrp-char-range", c.P.Pos(h.Pos()), "HRP character predicate accepts exactly 33..126 over 0..400 (accept set size %d)", len(acceptSet))
					return true
				}
			}
		}
		return false
	}
	// the loop in Decode, or in a first-violation scanner Decode tests against "none found"
	asciiGate := scanGates(c, b, asciiOK)
	hrpGate := scanGates(c, b, hrpOK)
	for _, v := range succ {
		blk := v.top().Blk
		r.Check(mustPass(fn, blk, asciiGate), "C04.exits.gate.all-bytes-ascii", c.vpos(v), "success return follows a loop over the whole string that continues only for bytes < 0x80")
		r.Check(mustPass(fn, blk, hrpGate), "C04.exits.gate.hrp-chars", c.vpos(v), "success return follows a loop over s[:hrpLen] that continues only for valid HRP runes")
	}
	// reject-closed
	rejectPats = append(rejectPats,
		"bin<>=>(index(p0, ind<+1>(0)), 128)", "bin<>>(index(p0, ind<+1>(0)), 127)", "bin<>=>(ext#2(next(range(p0))), 128)",
		"un<!>(call<*>(ext#2(next(range(slice(p0, 0, "+hl+"))))))", "un<!>(call<*>(conv<rune>(index(p0, ind<+1>(0)))))", "un<!>(call<*>(index(p0, ind<+1>(0))))")
	for _, v := range errs {
		r.Check(c.vrejectClosed(v, rejectPats...), "C04.exits.reject-closed", c.vpos(v), "error return reachable only through a listed reject reason")
	}
	// returned values
	for _, v := range succ {
		hrpT := v.Results[0]
		_, ok := ana.Match(hrpLow, hrpT)
		r.Check(ok, "C04.exits.returned-hrp", c.vpos(v), "returned prefix = ToLower(s)[:hrpLen]: %s", short(hrpT.String(), 150))
		dt := v.Results[1]
		pat := "obj(makeslice<[]byte>(call<repo/pkg/bech32/internal/base32.DecodedLen>(len($d)), _), call<repo/pkg/bech32/internal/base32.Decode>(self, $d))"
		bd, ok := ana.Match(pat, dt)
		okD := false
		if ok {
			_, okD = ana.Match("slice("+data+", 0, bin<->(len("+data+"), 6))", bd["$d"])
		}
		r.Check(ok && okD, "C04.exits.returned-bytes", c.vpos(v), "returned bytes = buffer of DecodedLen(len(d)) filled by base32.Decode(buf, d), d = decoded symbols without the last six: %s", short(dt.String(), 260))
	}
	for _, v := range errs {
		r.Check(v.Results[0].String() == `""` && v.Results[1].Is("nil"), "C04.exits.error-no-data", c.vpos(v), "error return carries no prefix and no data")
	}

	// ---------- checksum verification routine is exactly polymod(expand(hrp) ‖ data) == 1 (shared with C16)
	c16Resolve(c, "C04")

	pureScan(c, "C04.pure.no-package-state", fn)

	// ---------- case validation helper: both probes, mixed iff both found
	c04Case(c, fn, b)

	// ---------- ASCII before folding
	c04ASCII(c, enc)

	// ---------- regroup
	c04Regroup(c)

	// ---------- offsets and bounds by value-set analysis over (len, separator position)
	c04Bounds(c, fn, b)

	// ---------- "every accepted string re-encodes to its own lower-case form": Encode's obligations (C05) are part of
	// this property too — the regrouping of bytes into symbols for every length, the checksum flow, the charset walk
	if !c04Nested {
		c04Nested = true
		reKey(c, "C05.", "C04.reencode.", func() { runC05(c) })
		c04Nested = false
	}
}

// c04Nested guards against running C05 (which itself borrows C04's case rule) more than one level deep.
var c04Nested bool

// caseGate resolves the case-validation routine tested on the argument of b's function and the form of its verdict:
// an error (`f(s) == nil` accepts), or the offending position with -1 for a consistent case (`f(s) < 0` accepts).
func caseGate(c *Ctx, b *ana.Builder) (vc *ssa.Function, uniq, idxForm bool) {
	vc, uniq = uniqueCallee(edgesMatching(b, "bin<==>(call<*>(p0), nil)"))
	if vc != nil {
		return vc, uniq, false
	}
	vc, uniq = uniqueCallee(edgesMatching(b, "bin<<>(call<*>(p0), 0)", "bin<==>(call<*>(p0), -1)"))
	if vc != nil && vc.Signature.Results().Len() == 1 && types.Identical(vc.Signature.Results().At(0).Type(), types.Typ[types.Int]) && vc.Blocks != nil {
		return vc, uniq, true
	}
	return nil, false, false
}

// caseAccept / caseReject: the gate literals for the routine named by pattern fn ("*" for any).
func caseAccept(fn string, idxForm bool) []string {
	if idxForm {
		return []string{"bin<<>(call<" + fn + ">(p0), 0)", "bin<==>(call<" + fn + ">(p0), -1)"}
	}
	return []string{"bin<==>(call<" + fn + ">(p0), nil)"}
}

func caseReject(fn string, idxForm bool) []string {
	if idxForm {
		return []string{"bin<>=>(call<" + fn + ">(p0), 0)", "bin<!=>(call<" + fn + ">(p0), -1)"}
	}
	return []string{"bin<!=>(call<" + fn + ">(p0), nil)"}
}

// c04CaseIdx is the case routine when it reports the offending position (set by c04Case).
var c04CaseIdx *ssa.Function

func c04Case(c *Ctx, fn *ssa.Function, b *ana.Builder) {
	r := c.R
	// the single-case gate is a wildcard pattern (`f(s) == nil`): every edge it matches must call the one routine decided here
	vc, uniq, idxForm := caseGate(c, b)
	c04CaseIdx = nil
	if idxForm {
		c04CaseIdx = vc
	}
	if vc == nil || !uniq {
		r.Undec("C04.exits.case-helper", c.P.Pos(fn.Pos()), "case validation helper not found, or several different routines are tested against nil on the argument")
		return
	}
	r.Fn(ana.ShortFunc(vc))
	vb := ana.NewBuilder(c.P, vc)
	// the helper must use two probes: first index where ToLower(s) differs from s, and where ToUpper(s) differs
	// (decided per call, the probe's parameters bound to its arguments: one shared routine handed the folded string is
	// the same two probes)
	probes := map[string]*ana.Term{}
	for _, ci := range ana.Calls(vc) {
		if cal := ana.StaticRepoCallee(ci.Common()); cal != nil && cal.Blocks != nil {
			call := stripObj(vb.CallTermAt(ci))
			if call == nil || call.Op != "call" || len(call.Args) != len(cal.Params) {
				continue
			}
			pb := c.boundBuilder(call)
			for _, fold := range []string{"strings.ToLower", "strings.ToUpper"} {
				// the probe's exits, looking through a shared "first difference" helper it may tail-call
				idx := "alt(ext#1(next(range(p0))), ind<+1>(0))"
				pats := []string{"bin<!=>(index(call<" + fold + ">(p0), " + idx + "), index(p0, " + idx + "))"}
				ok, any := true, false
				for _, v := range c.vexits(pb) {
					if v.Panic {
						ok = false
						continue
					}
					t := v.Results[0]
					if t.String() == "-1" {
						continue
					}
					inner := v.Frames[len(v.Frames)-1]
					found := len(edgesMatching(inner.B, pats...)) > 0
					if !found || !matches(idx, t) || !c.vpasses(v, pats...) {
						ok = false
					}
					any = any || found
				}
				if ok && any {
					probes[fold] = call
					r.Fn(ana.ShortFunc(cal))
				} else if probes[fold] == nil && c04ByteProbe(c, pb, idx, fold) {
					probes[fold] = call
					r.Fn(ana.ShortFunc(cal))
				}
			}
		}
	}
	r.Check(probes["strings.ToLower"] != nil && probes["strings.ToUpper"] != nil, "C04.exits.case-probes", c.P.Pos(vc.Pos()),
		"case validation uses two probes returning the first index where the lower-cased (upper-cased) string differs from the input, or -1")
	if probes["strings.ToLower"] == nil || probes["strings.ToUpper"] == nil {
		return
	}
	up := probes["strings.ToLower"].String() // first upper-case character
	lo := probes["strings.ToUpper"].String() // first lower-case character
	// value-set analysis over (up, lo) in -1..3: error iff both >= 0
	vs := &ana.VSA{B: vb, Tracked: []string{up, lo}, Ranges: [][2]int64{{-1, 3}, {-1, 3}}}
	sets, tuples := vs.Run()
	good := vs.Opaque == 0
	for _, e := range ana.Exits(vc) {
		if e.Panic {
			good = false
			continue
		}
		res := vb.Of(e.Results[0], e.Instr)
		isErr := !res.Is("nil")
		if idxForm {
			k, isInt := res.Int()
			isErr = !(isInt && k == -1)
		}
		for idx := range sets[e.Instr.Block()] {
			t := ana.TupleOf(tuples, idx)
			if t[0] == t[1] && t[0] >= 0 {
				continue // the two probes never report the same position
			}
			mixed := t[0] >= 0 && t[1] >= 0
			if mixed != isErr {
				good = false
			}
		}
		if isErr {
			// offset = the later of the two positions, which is < len(s)
			ot, _ := ana.Find("store(faddr<Offset>(self), $o)", vb.Of(e.Results[0], e.Instr))
			if idxForm {
				// the reported position is itself one of the two probe positions (non-negative on this exit)
				ot = &ana.Term{Op: "store", Args: []*ana.Term{nil, stripObj(res)}}
			}
			r.Check(ot != nil && (ot.Arg(1).String() == up || ot.Arg(1).String() == lo), "C04.offset-range.mixed-case", c.ipos(e.Instr), "mixed-case offset is one of the two probe positions (an index of s)")
		}
	}
	r.Check(good, "C04.exits.case-mixed-iff-both", c.P.Pos(vc.Pos()), "validateCase returns an error exactly when both an upper-case and a lower-case character exist (value-set analysis over the two probe results)")
}

// c04ByteProbe: the probe written on the bytes themselves. On a US-ASCII string the first index where ToLower(s)
// (ToUpper(s)) differs from s is the first byte in 'A'..'Z' ('a'..'z'); for all 256 byte values at once: the exit that
// returns the loop index is reached exactly for the bytes of that range, the next iteration exactly for the others.
func c04ByteProbe(c *Ctx, pb *ana.Builder, idx, fold string) bool {
	lo, hi := 'A', 'Z'
	if fold == "strings.ToUpper" {
		lo, hi = 'a', 'z'
	}
	isAtom := func(t *ana.Term) bool { return matches("index(p0, "+idx+")", t) }
	var hit []*ssa.BasicBlock
	var inner *ana.Builder
	for _, v := range c.vexits(pb) {
		if v.Panic || len(v.Results) != 1 {
			return false
		}
		if v.Results[0].String() == "-1" {
			continue
		}
		f := v.Frames[len(v.Frames)-1]
		if !matches(idx, v.Results[0]) || (inner != nil && inner != f.B) {
			return false
		}
		inner = f.B
		hit = append(hit, v.Instr.Block())
	}
	if inner == nil {
		return false
	}
	reach, lits := inner.ByteReach(isAtom)
	back := ana.BackEdges(inner.Fn)
	if lits == 0 || len(back) == 0 {
		return false
	}
	for v := 0; v < 256; v++ {
		want := v >= int(lo) && v <= int(hi)
		got, next := false, false
		for _, b := range hit {
			got = got || reach[v][b]
		}
		for _, e := range back {
			next = next || reach[v][e.From]
		}
		if got != want || next == want {
			return false
		}
	}
	return true
}

func c04ASCII(c *Ctx, enc []uint64) {
	r := c.R
	pr := newASCIIProver(c, "pkg/bech32", c.P.Func("pkg/bech32", "Decode"), c.P.Func("pkg/bech32", "Encode"))
	pr.encOK = len(enc) == 32
	for _, x := range enc {
		if x >= 128 {
			pr.encOK = false
		}
	}
	n := 0
	for _, fn := range c.P.RepoFuncs("pkg/bech32") {
		if strings.Contains(fn.Pkg.Pkg.Path(), "/address") {
			continue
		}
		for _, ci := range ana.Calls(fn) {
			name := ana.CalleeName(ci.Common())
			switch name {
			case "strings.ToLower", "strings.ToUpper", "strings.EqualFold", "strings.Title", "strings.ToTitle", "bytes.ToLower", "bytes.ToUpper", "unicode.ToLower", "unicode.ToUpper":
			default:
				continue
			}
			n++
			r.Fn(ana.ShortFunc(fn))
			pr.why = nil
			ok := name == "strings.ToLower" || name == "strings.ToUpper"
			if ok {
				ok = pr.proven(fn, ci.Common().Args[0], ci)
			}
			r.Check(ok, "C04.ascii-before-fold."+fn.Name(), c.ipos(ci), "%s in %s: argument must be ASCII on every call path (Go's case mapping is Unicode-aware: U+212A folds to 'k', a charset character) %s", name, fn.Name(), strings.Join(pr.why, "; "))
		}
	}
	r.Floor("C04.floor.fold-sites", n, 1, "case-folding call sites in package bech32")
}

func c04Regroup(c *Ctx) {
	r := c.R
	fn := c.P.Func("pkg/bech32/internal/base32", "Decode")
	dl := c.P.Func("pkg/bech32/internal/base32", "DecodedLen")
	if fn == nil || dl == nil {
		r.Undec("C04.regroup-bits.anchor", "", "base32.Decode / DecodedLen not found")
		return
	}
	r.Fn(ana.ShortFunc(fn))
	bad, okCount := 0, 0
	var firstBad string
	for L := 0; L <= 90; L++ {
		in := bitdom.New(c.P.SSA, c.wordBits())
		// DecodedLen folded by the interpreter
		ex, err := in.Call(dl, []bitdom.Val{bitdom.ConstBV(uint64(L), c.wordBits(), true)})
		if err != nil || ex.Panic {
			r.Undec("C04.regroup-bits.decoded-len", c.P.Pos(dl.Pos()), "DecodedLen(%d) not foldable: %v", L, err)
			return
		}
		outLen, _ := ex.Results[0].(*bitdom.BV).Int()
		if outLen != int64(L*5/8) {
			bad++
			if firstBad == "" {
				firstBad = fmt.Sprintf("DecodedLen(%d)=%d, want %d", L, outLen, L*5/8)
			}
			continue
		}
		src := in.SymSlice("src", L, 8, 5, false)
		dst := bitdom.ConstSlice(make([]uint64, outLen), 8)
		ex, err = in.Call(fn, []bitdom.Val{dst, src})
		if err != nil {
			bad++
			if firstBad == "" {
				firstBad = fmt.Sprintf("L=%d: %v", L, err)
			}
			continue
		}
		if ex.Panic {
			bad++
			if firstBad == "" {
				firstBad = fmt.Sprintf("L=%d: panics", L)
			}
			continue
		}
		isNil, known := nilnessOf(ex.Results[1])
		wantErr := L%8 == 1 || L%8 == 3 || L%8 == 6
		if !known || isNil == wantErr {
			bad++
			if firstBad == "" {
				firstBad = fmt.Sprintf("L=%d: error result nil=%v, expected error=%v", L, isNil, wantErr)
			}
			continue
		}
		if wantErr {
			okCount++
			continue
		}
		// written count
		if n, ok := ex.Results[0].(*bitdom.BV); !ok {
			bad++
			continue
		} else if k, ok := n.Int(); !ok || k != outLen {
			bad++
			if firstBad == "" {
				firstBad = fmt.Sprintf("L=%d: written=%d want %d", L, k, outLen)
			}
			continue
		}
		// bit map
		varOf := func(k, j int) bitdom.Poly { return src.A.Elems[k].(*bitdom.BV).Bits[j] }
		streamBit := func(q int) bitdom.Poly { return varOf(q/5, 4-q%5) }
		good := true
		for i := 0; i < int(outLen) && good; i++ {
			bv := dst.A.Elems[i].(*bitdom.BV)
			for rr := 0; rr < 8; rr++ {
				if !bitdom.Equal(bv.Bits[7-rr], streamBit(8*i+rr)) {
					good = false
					if firstBad == "" {
						firstBad = fmt.Sprintf("L=%d: dst[%d] bit %d = %s, want %s", L, i, 7-rr, bv.Bits[7-rr].Format(in.Name), streamBit(8*i+rr).Format(in.Name))
					}
					break
				}
			}
		}
		// padding: accept condition == all padding bits zero
		accept := bitdom.One()
		for _, cn := range in.Cons {
			lit := cn.P
			if !cn.Want {
				lit = bitdom.Not(lit)
			}
			accept = bitdom.And(accept, lit)
		}
		want := bitdom.One()
		for q := 8 * int(outLen); q < 5*L; q++ {
			want = bitdom.And(want, bitdom.Not(streamBit(q)))
		}
		if !bitdom.Equal(accept, want) {
			good = false
			if firstBad == "" {
				firstBad = fmt.Sprintf("L=%d: accept condition %s, want all %d padding bits zero", L, accept.Format(in.Name), 5*L-8*int(outLen))
			}
		}
		if good {
			okCount++
		} else {
			bad++
		}
	}
	r.Check(bad == 0, "C04.regroup-bits.all-lengths", c.P.Pos(fn.Pos()), "base32.Decode decided in the ANF domain for every data length 0..90: %d lengths conform (bit map, padding test, count, error classes, in-bounds); first deviation: %s", okCount, firstBad)
	r.Extra["regroup_lengths_decided"] = okCount
}

func nilnessOf(v bitdom.Val) (isNil, known bool) {
	switch x := v.(type) {
	case bitdom.NilVal:
		return true, true
	case bitdom.Opaque:
		return !x.NonNil, true
	case *bitdom.Ptr:
		return false, true
	}
	return false, false
}

func c04Bounds(c *Ctx, fn *ssa.Function, b *ana.Builder) {
	nSites, nOff := c04BoundsIn(c, fn, b, nil, 0)
	c.R.Floor("C04.floor.slice-sites", nSites, 1, "slice expressions in Decode")
	c.R.Floor("C04.floor.offset-sites", nOff, 1, "SyntaxError.Offset stores in Decode")
}

// c04BoundsIn checks the slice expressions and Offset stores of fn (Decode, or a
// helper Decode calls, with its parameters bound to the arguments and entered
// only with the (len, separator) pairs that reach the call). In a helper only
// the sites whose bounds are functions of (len, separator) are decided.
func c04BoundsIn(c *Ctx, fn *ssa.Function, b *ana.Builder, entry map[int]bool, depth int) (int, int) {
	r := c.R
	hl := `call<strings.LastIndex>(p0, "1")`
	// tracked: len(s) in 0..95, separator position in -1..94; LastIndex < len is the library contract
	vs := &ana.VSA{B: b, Tracked: []string{"len(p0)", hl}, Ranges: [][2]int64{{0, 95}, {-1, 94}}, Entry: entry}
	vs.Derived = func(t *ana.Term, tu []int64) (int64, bool) {
		if t.Is("len") {
			return c04Len(t.Arg(0), tu)
		}
		return 0, false
	}
	sets, tuples := vs.Run()
	valid := func(t []int64) bool { return t[1] < t[0] }
	// derived lengths under the ASCII/charset success assumptions
	evalLen := func(t *ana.Term, tu []int64) (int64, bool) {
		return c04Len(t, tu)
	}
	nSites, nOff := 0, 0
	for _, blk := range fn.Blocks {
		for _, ins := range blk.Instrs {
			switch x := ins.(type) {
			case ssa.CallInstruction:
				// helpers that received part of Decode's body: same checks, entered with the pairs reaching the call
				h := ana.StaticRepoCallee(x.Common())
				if h == nil || h.Blocks == nil || depth >= 2 || h == fn || h.Pkg != fn.Pkg || h.Signature.Recv() != nil {
					continue
				}
				call := stripObj(b.CallTermAt(x))
				if call.Op != "call" || len(call.Args) != len(h.Params) {
					continue
				}
				in := map[int]bool{}
				for idx := range sets[blk] {
					in[idx] = true
				}
				s2, o2 := c04BoundsIn(c, h, boundBuilderP(c.P, call), in, depth+1)
				nSites += s2
				nOff += o2
			case *ssa.Slice:
				base := b.Of(x.X, x)
				var lo, hi *ana.Term
				if x.Low != nil {
					lo = b.Of(x.Low, x)
				}
				if x.High != nil {
					hi = b.Of(x.High, x)
				}
				if stripObj(base).Op == "alloc" {
					continue // variadic argument arrays
				}
				nSites++
				good, checked := true, 0
				for idx := range sets[blk] {
					tu := ana.TupleOf(tuples, idx)
					if !valid(tu) {
						continue
					}
					bl, ok := evalLen(base, tu)
					if !ok {
						good = false
						break
					}
					l, h := int64(0), bl
					if lo != nil {
						if l, ok = c04Int(lo, tu); !ok {
							good = false
							break
						}
					}
					if hi != nil {
						if h, ok = c04Int(hi, tu); !ok {
							good = false
							break
						}
					}
					checked++
					if l < 0 || h < l || h > bl {
						good = false
						r.Viol("C04.no-panic.slice-bounds", c.ipos(x), "slice [%d:%d] of length %d for len(s)=%d, separator at %d", l, h, bl, tu[0], tu[1])
						break
					}
				}
				if good {
					r.OK("C04.no-panic.slice-bounds", c.ipos(x), "slice bounds hold for all %d (len, separator) pairs reaching it: %s", checked, short(b.Of(x, x).String(), 90))
				} else if checked == 0 && depth == 0 {
					r.Undec("C04.no-panic.slice-bounds", c.ipos(x), "bounds of %s not expressible over (len, separator)", short(b.Of(x, x).String(), 120))
				} else if checked == 0 {
					nSites--
					if os.Getenv("VDEBUG") != "" {
						fmt.Fprintf(os.Stderr, "skip slice %s %s\n", c.ipos(x), b.Of(x, x))
					}
				}
			case *ssa.Store:
				at := b.Of(x.Addr, x)
				if !at.Is("faddr", "Offset") {
					continue
				}
				nOff++
				vt := b.Of(x.Val, x)
				good, checked := true, 0
				// loop indices: bounded by the loop they come from
				if _, ok := ana.MatchAny(vt, "ind<+1>(0)", "ext#1(next(range(_)))"); ok {
					r.OK("C04.offset-range.loop-index", c.ipos(x), "offset is the index of a loop over the string or its prefix (< len(s))")
					continue
				}
				// the position the case routine reported (one of its two probe positions, C04.offset-range.mixed-case), stored only
				// when it reported one
				if call := stripObj(vt); call.Op == "call" && len(call.Args) == 1 && c04CaseIdx != nil && calleeOf(call) == c04CaseIdx && call.Args[0].IsParam(0) {
					guard := plainEdges(edgesMatching(b, "raw:bin<>=>("+termPat(call)+", 0)", "raw:bin<!=>("+termPat(call)+", -1)"))
					if mustPass(fn, blk, guard) {
						r.OK("C04.offset-range.loop-index", c.ipos(x), "offset is the position the case routine reported (< len(s))")
						continue
					}
				}
				// a position reported by a first-violation scanner over the string or a prefix of it, stored only when one was found
				if call := stripObj(vt); call.Op == "call" && len(call.Args) == 1 {
					if h := calleeOf(call); h != nil && h.Blocks != nil && len(h.Params) == 1 {
						arg := call.Args[0]
						_, prefix := ana.Match("slice(p0, 0, _)", arg)
						guard := plainEdges(edgesMatching(b, "raw:bin<>=>("+termPat(call)+", 0)", "raw:bin<!=>("+termPat(call)+", -1)"))
						hb := boundBuilderP(c.P, call)
						positions := true
						for _, e := range ana.Exits(h) {
							if e.Panic || len(e.Results) != 1 {
								positions = false
								continue
							}
							rt := hb.Of(e.Results[0], e.Instr)
							if k, isInt := rt.Int(); isInt && k == -1 {
								continue
							}
							if _, m := ana.MatchAny(rt, "ind<+1>(0)", "ext#1(next(range("+termPat(arg)+")))"); !m {
								positions = false
							}
						}
						bounded := false
						for _, l := range rangeLoopsAll(hb) {
							if l.Coll.String() == arg.String() {
								bounded = true
							}
						}
						if (arg.IsParam(0) || prefix) && positions && bounded && mustPass(fn, blk, guard) {
							r.OK("C04.offset-range.loop-index", c.ipos(x), "offset is a position a scanner over the string (or its prefix) reported (< len(s))")
							continue
						}
					}
				}
				for idx := range sets[blk] {
					tu := ana.TupleOf(tuples, idx)
					if !valid(tu) {
						continue
					}
					// offsets that add a helper-reported position: bound by the helper's contract (position <= length of what it scanned)
					lo, hi, ok := c04OffsetRange(vt, tu)
					if !ok {
						good = false
						break
					}
					checked++
					if lo < 0 || hi > tu[0] {
						good = false
						r.Viol("C04.offset-range.value", c.ipos(x), "offset range [%d,%d] outside [0,%d] for separator at %d: %s", lo, hi, tu[0], tu[1], short(vt.String(), 120))
						break
					}
				}
				if good && checked > 0 {
					r.OK("C04.offset-range.value", c.ipos(x), "offset within [0, len(s)] for all %d (len, separator) pairs reaching it: %s", checked, short(vt.String(), 100))
				} else if (good || checked == 0) && depth == 0 {
					r.Undec("C04.offset-range.value", c.ipos(x), "offset term not expressible: %s", short(vt.String(), 160))
				} else if good || checked == 0 {
					nOff--
					if os.Getenv("VDEBUG") != "" {
						fmt.Fprintf(os.Stderr, "skip offset %s %s\n", c.ipos(x), vt)
					}
				}
			}
		}
	}
	return nSites, nOff
}

// c04Int evaluates an integer term over (len(s), hrpLen).
func c04Int(t *ana.Term, tu []int64) (int64, bool) {
	if k, ok := t.Int(); ok {
		return k, true
	}
	switch {
	case t.String() == `call<strings.LastIndex>(p0, "1")`:
		return tu[1], true
	case t.Is("len"):
		return c04Len(t.Arg(0), tu)
	case t.Is("bin", "+"):
		a, ok1 := c04Int(t.Arg(0), tu)
		bb, ok2 := c04Int(t.Arg(1), tu)
		return a + bb, ok1 && ok2
	case t.Is("bin", "-"):
		a, ok1 := c04Int(t.Arg(0), tu)
		bb, ok2 := c04Int(t.Arg(1), tu)
		return a - bb, ok1 && ok2
	case t.Is("ext") || t.Is("call"):
		// a position reported by a repository helper: the value of its successful exit
		if x, ch := ana.ExpandCalls(ana.DefaultProg, t); ch && x.String() != t.String() {
			return c04Int(x, tu)
		}
	}
	return 0, false
}

// c04Len gives the length of a string/slice term over (len(s), hrpLen).
func c04Len(t *ana.Term, tu []int64) (int64, bool) {
	t = stripObj(t)
	switch {
	case t.IsParam(0):
		return tu[0], true
	case t.Is("call", "strings.ToLower"), t.Is("call", "strings.ToUpper"):
		// length-preserving because the argument is ASCII (C04.ascii-before-fold)
		return c04Len(t.Arg(0), tu)
	case t.Is("slice"):
		bl, ok := c04Len(t.Arg(0), tu)
		if !ok {
			return 0, false
		}
		lo, ok := c04Int(t.Arg(1), tu)
		if !ok {
			return 0, false
		}
		hi := bl
		if !t.Arg(2).Is("none") {
			if hi, ok = c04Int(t.Arg(2), tu); !ok {
				return 0, false
			}
		}
		return hi - lo, true
	case t.Is("ext") && t.Idx == 0:
		// data, err := charset.decode(chars): on the success path len(data) == len(chars) (C04.charset.decode-values)
		if call := t.Arg(0); call.Is("call") && len(call.Args) == 2 {
			return c04Len(call.Arg(1), tu)
		}
	case t.Is("makeslice"):
		return 0, false
	}
	return 0, false
}

// c04DecodeIdx is the charset decoder when it reports the bad character by position (set by runC04).
var c04DecodeIdx *ssa.Function

// c04OffsetRange bounds an offset term; helper-reported positions range over [0, scanned length].
func c04OffsetRange(t *ana.Term, tu []int64) (int64, int64, bool) {
	if v, ok := c04Int(t, tu); ok {
		return v, v, true
	}
	if t.Is("bin", "+") {
		alo, ahi, ok1 := c04OffsetRange(t.Arg(0), tu)
		blo, bhi, ok2 := c04OffsetRange(t.Arg(1), tu)
		return alo + blo, ahi + bhi, ok1 && ok2
	}
	// len(data) on the charset error path: data = dst[:i], i < len(chars)
	if t.Is("len") {
		inner := stripObj(t.Arg(0))
		if inner.Is("ext") && inner.Idx == 0 {
			if call := inner.Arg(0); call.Is("call") && len(call.Args) == 2 {
				if n, ok := c04Len(call.Arg(1), tu); ok {
					return 0, n, true
				}
			}
		}
	}
	// the position the charset decoder reported (-1 or an index into what it was handed)
	if t.Is("ext") && t.Idx == 1 && c04DecodeIdx != nil {
		if call := t.Arg(0); call.Is("call") && len(call.Args) == 2 && calleeOf(call) == c04DecodeIdx {
			if n, ok := c04Len(call.Arg(1), tu); ok {
				return -1, n - 1, true
			}
		}
	}
	// e.Offset of the regroup error: an index into the symbols handed to base32.Decode (<= their count)
	if t.Is("load") && t.Arg(0).Is("faddr", "Offset") {
		n := tu[0] - tu[1] - 1 - 6
		if n < 0 {
			n = 0
		}
		return 0, n, true
	}
	return 0, 0, false
}
