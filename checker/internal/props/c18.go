package props

import (
	"go/token"
	"strings"

	"golang.org/x/tools/go/ssa"

	"verif/checker/internal/ana"
	"verif/checker/internal/bitdom"
)

// C18 — ECVRF proofs are RFC 9381 conformant, complete, canonical and unique.

func init() {
	register(&Prop{
		ID:    "C18",
		Level: "other",
		Explanation: "Static decision of the ECVRF-EDWARDS25519-SHA512-TAI mechanism: Verify's exit inventory (four gates: canonical key decoding, prime-order key check, canonical 80-byte proof decoding, challenge equality; closed reject list), the canonical point decoder's summary (y < p test, the two sign-non-canonical encodings by value, then SetBytes) and that no other site decodes external bytes into points, " +
			"writer/reader layout agreement of the proof codec (Gamma[0:32], c[32:48] zero-extended, s[48:80] with the canonical scalar decoder), and the hash inputs of encode-to-curve (03 01‖salt‖alpha‖ctr‖00, ctr = 0..255 written as a fresh byte), nonce, challenge (03 02‖Y‖H‖Gamma‖U‖V‖00 truncated to 16 bytes) and proof-to-hash (03 03‖8·Gamma‖00) as provenance terms, " +
			"the algebra s = c·x + k, U = s·B − c·Y, V = s·H − c·Gamma as object histories, and sibling agreement of Prove and Verify on the challenge routine. Curve arithmetic and SHA-512 are library semantics.",
		Run: runC18,
	})
}

const vrfPkg = "repo/pkg/vrf."

func hw(arg string) string { return "call<(hash.Hash).Write>(self, " + arg + ")" }

// glob is the pattern of a domain-separation byte string at its use site. The package variables holding them are
// folded into their values by the term builder (ana.ConstGlobal: written once, by the initialiser, from constants),
// so the rule sees the bytes that are hashed, whatever the variables or constants are called.
func glob(n string) string {
	v, ok := map[string]string{
		"suiteString":                             "3",
		"encodeToCurveDomainSeparatorFront":       "1",
		"encodeToCurveDomainSeparatorBack":        "0",
		"challengeGenerationDomainSeparatorFront": "2",
		"challengeGenerationDomainSeparatorBack":  "0",
		"proofToHashDomainSeparatorFront":         "3",
		"proofToHashDomainSeparatorBack":          "0",
	}[n]
	if !ok {
		return "load(global<" + vrfPkg + n + ">)"
	}
	return "slice(obj(alloc<[1]byte>, store(iaddr(self, 0), " + v + ")), 0, none)"
}

func runC18(c *Ctx) {
	r := c.R
	r.Rule("C18.verify-gates", "Verify returns true only after: canonical decode of publicKey, validateKey (8·Y != identity), Proof.SetBytes(piString) without error, D.c.Equal(c') == 1; each `return false` is reachable only through the negation of one of them; the hash returned is D.Hash()")
	r.Rule("C18.canonical-decoder", "the point decoder rejects exactly: y >= p (x[0]>=237 ∧ x[1..30]==255 ∧ x[31]|128==255) or one of the two encodings of x=0 with the sign bit set (table compared by value), then SetBytes; it is used for the key, Gamma and the hash-to-curve candidate; no other (*Point).SetBytes on external bytes in package vrf")
	r.Rule("C18.codec-layout", "Proof.Bytes writes Gamma at [0:32], c.Bytes() at [32:48], s.Bytes() at [48:80]; UnmarshalBinary requires len==80, reads the same ranges, zero-extends c to 32 bytes, decodes s with SetCanonicalBytes (error → reject); SetBytes returns a nil proof on error; ProofToHash = decode then Hash")
	r.Rule("C18.hash-inputs", "encode-to-curve, nonce, challenge and proof-to-hash hash exactly the RFC 9381 byte strings; s = k.MultiplyAdd(c, x, k); U = VarTimeDoubleScalarBaseMult(c, −Y, s); V = VarTimeMultiScalarMult([s,c],[H,−Gamma]); Prove and Verify use the same challenge routine with arguments in the same roles")
	r.Rule("C18.hash-from-gamma-only", "Proof.Hash depends only on 8·gamma")
	r.Assume("filippo.io/edwards25519 v1.0.0 (SetBytes, SetCanonicalBytes, SetUniformBytes, SetBytesWithClamping, MultByCofactor, VarTime* as documented); crypto/sha512")
	r.NotDec("that RFC 9381's equations imply uniqueness; curve arithmetic")

	pureScan(c, "C18.pure.no-package-state", c.P.Func("pkg/vrf", "Prove"), c.P.Func("pkg/vrf", "Verify"), c.P.Func("pkg/vrf", "ProofToHash"), c.P.Func("pkg/vrf", "Proof.Hash"), c.P.Func("pkg/vrf", "Proof.Bytes"), c.P.Func("pkg/vrf", "Proof.UnmarshalBinary"))
	c18Constants(c)
	dec := c18Decoder(c)
	c18Verify(c, dec)
	c18Codec(c, dec)
	c18Hashes(c, dec)
}

func c18Constants(c *Ctx) {
	r := c.R
	want := map[string]uint64{"suiteString": 3, "encodeToCurveDomainSeparatorFront": 1, "encodeToCurveDomainSeparatorBack": 0,
		"challengeGenerationDomainSeparatorFront": 2, "challengeGenerationDomainSeparatorBack": 0, "proofToHashDomainSeparatorFront": 3, "proofToHashDomainSeparatorBack": 0}
	in := bitdom.New(c.P.SSA, c.wordBits())
	pk := c.P.Pkg("pkg/vrf")
	in.Call(pk.Func("init"), nil)
	ok := true
	detail := ""
	for name, v := range want {
		g, _ := pk.Members[name].(*ssa.Global)
		if g == nil || in.Globals[g] == nil {
			detail += " (renamed or inlined: " + name + "; values are decided at the use sites)"
			continue
		}
		sl, isS := in.Globals[g].V.(*bitdom.Slice)
		if !isS || sl.Len != 1 {
			ok = false
			detail += " shape:" + name
			continue
		}
		x, isC := sl.A.Elems[sl.Off].(*bitdom.BV).Const()
		if !isC || x != v {
			ok = false
			detail += " value:" + name
		}
		_, w, _ := c.globalInit("pkg/vrf", name)
		if w != 1 {
			ok = false
			detail += " writers:" + name
		}
	}
	r.Check(ok, "C18.hash-inputs.domain-separators", "", "suite 0x03; encode-to-curve 0x01/0x00; challenge 0x02/0x00; proof-to-hash 0x03/0x00; each a one-byte slice with a single writer%s", detail)
	idInit, w, g := c.globalInit("pkg/vrf", "identityPoint")
	r.Check(idInit != nil && idInit.String() == ana.Expand("call<ed.NewIdentityPoint>") && w == 1, "C18.verify-gates.identity", c.P.Pos(g.Pos()), "identityPoint = NewIdentityPoint(), single writer")
	// sizes
	sizes := map[string]int64{"ptLen": 32, "cLen": 16, "qLen": 32, "ProofSize": 80, "PublicKeySize": 32}
	okS := true
	for n, v := range sizes {
		nc, _ := pk.Members[n].(*ssa.NamedConst)
		if nc == nil && !token.IsExported(n) {
			continue // an unexported constant may be renamed or inlined: its value is part of every term that uses it
		}
		if nc == nil || nc.Value.Int64() != v {
			okS = false
		}
	}
	r.Check(okS, "C18.codec-layout.sizes", "", "ptLen=32, cLen=16, qLen=32, ProofSize=80")
}

// c18Decoder finds and checks the canonical point decoder.
func c18Decoder(c *Ctx) *ssa.Function {
	r := c.R
	vf := c.P.Func("pkg/vrf", "Verify")
	if vf == nil {
		r.Undec("C18.anchor.Verify", "", "Verify not found")
		return nil
	}
	vb := ana.NewBuilder(c.P, vf)
	var dec *ssa.Function
	// the decoder call may sit in Verify or in a helper that decodes and validates the key
	for _, ce := range deepEdges(c, vb) {
		if _, ok := ana.Match("raw:bin<==>(ext#1(call<*>(p0)), nil)", ce.Lit); !ok {
			continue
		}
		if h := calleeOf(ce.Lit.Arg(0)); h != nil && h.Signature.Results().Len() == 2 && strings.HasSuffix(h.Signature.Results().At(0).Type().String(), "edwards25519.Point") {
			dec = h
		}
	}
	if dec == nil {
		r.Undec("C18.canonical-decoder.anchor", c.P.Pos(vf.Pos()), "Verify does not decode publicKey through a repository decoder")
		return nil
	}
	r.Fn(ana.ShortFunc(dec))
	b := ana.NewBuilder(c.P, dec)
	tab := "load(iaddr(global<" + vrfPkg + "nonCanonicalSignBytes>, $k))"
	var canonFn *ssa.Function
	var rej []ana.Edge
	for _, ce := range b.CondEdges() {
		if bd, ok := ana.MatchX(c.P, "un<!>(call<*>(p0))", ce.Lit); ok {
			_ = bd
			canonFn = calleeOf(ce.Lit.Arg(0))
			rej = append(rej, ce.Edge)
		}
		if _, ok := ana.MatchAny(ce.Lit, "call<bytes.Equal>(p0, "+tab+")", "call<bytes.Equal>("+tab+", p0)"); ok {
			rej = append(rej, ce.Edge)
		}
	}
	avoid := ana.ReachableAvoiding(dec, rej)
	nTab := len(edgesMatching(b, "call<bytes.Equal>(p0, "+tab+")", "call<bytes.Equal>("+tab+", p0)"))
	for _, e := range ana.Exits(dec) {
		if e.Panic {
			r.Viol("C18.canonical-decoder.no-panic", c.ipos(e.Instr), "explicit panic in the point decoder")
			continue
		}
		et := b.Of(e.Results[1], e.Instr)
		vt := b.Of(e.Results[0], e.Instr)
		if matches("load(global<"+vrfPkg+"ErrNonCanonical>)", et) {
			r.Check(!avoid[e.Instr.Block()] && vt.Is("nil"), "C18.canonical-decoder.reject-closed", c.ipos(e.Instr), "ErrNonCanonical only for y >= p or one of the two tabled encodings")
			continue
		}
		_, ok := ana.MatchX(c.P, "obj(alloc<ed.Point>, call<(*ed.Point).SetBytes>(self, p0))", vt)
		_, okE := ana.MatchX(c.P, "ext#1(obj(alloc<ed.Point>, call<(*ed.Point).SetBytes>(self, p0)))", et)
		r.Check(ok && okE && avoid[e.Instr.Block()], "C18.canonical-decoder.then-setbytes", c.ipos(e.Instr), "otherwise the result (and error) of new(Point).SetBytes(x): %s", short(vt.String(), 120))
	}
	if nTab == 1 {
		// the same two comparisons written as a loop over the whole two-entry table
		inLoop := len(edgesMatching(b, "call<bytes.Equal>(p0, load(iaddr(global<"+vrfPkg+"nonCanonicalSignBytes>, ind<+1>(0))))", "call<bytes.Equal>(load(iaddr(global<"+vrfPkg+"nonCanonicalSignBytes>, ind<+1>(0))), p0)")) == 1
		whole := len(edgesMatching(b, "bin<<>(ind<+1>(0), alt(2, len(_)))")) == 1
		if inLoop && whole {
			nTab = 2
		}
	}
	r.Check(nTab == 2 && canonFn != nil, "C18.canonical-decoder.tests", c.P.Pos(dec.Pos()), "decoder applies the y<p test and compares with both tabled encodings (%d table comparisons)", nTab)
	// table by value
	in := bitdom.New(c.P.SSA, c.wordBits())
	pk := c.P.Pkg("pkg/vrf")
	in.Call(pk.Func("init"), nil)
	okTab := false
	if g := c.gvar("pkg/vrf", "nonCanonicalSignBytes"); g != nil && in.Globals[g] != nil {
		if arr, ok := in.Globals[g].V.(*bitdom.Array); ok && len(arr.Elems) == 2 {
			get := func(v bitdom.Val) []byte {
				sl, ok := v.(*bitdom.Slice)
				if !ok || sl.Len != 32 {
					return nil
				}
				out := make([]byte, 32)
				for i := range out {
					x, _ := sl.A.Elems[sl.Off+i].(*bitdom.BV).Const()
					out[i] = byte(x)
				}
				return out
			}
			a, bb := get(arr.Elems[0]), get(arr.Elems[1])
			w1 := make([]byte, 32)
			w1[0], w1[31] = 1, 0x80
			w2 := make([]byte, 32)
			for i := range w2 {
				w2[i] = 0xff
			}
			w2[0] = 0xec
			okTab = a != nil && bb != nil && (string(a) == string(w1) && string(bb) == string(w2) || string(a) == string(w2) && string(bb) == string(w1))
		}
		_, w, _ := c.globalInit("pkg/vrf", "nonCanonicalSignBytes")
		okTab = okTab && w <= 1
	}
	r.Check(okTab, "C18.canonical-decoder.table", "", "table = encodings of y=1 and y=p−1 with the sign bit set (01 00…00 80 and ec ff…ff), no writer besides the initialiser")
	// y < p test
	if canonFn != nil {
		r.Fn(ana.ShortFunc(canonFn))
		// decided for all 2^256 encodings in the ANF domain: the predicate's result bit equals
		//   y < 2^255−19  ⟺  ¬( bytes 1..30 = 0xFF ∧ low 7 bits of byte 31 = 0x7F ∧ byte 0 >= 0xED )
		// — whatever loops, early returns or comparisons compute it
		in := bitdom.New(c.P.SSA, c.wordBits())
		x := in.SymSlice("x", 32, 8, 8, false)
		ex, err := in.Call(canonFn, []bitdom.Val{x})
		okSem := err == nil && ex != nil && !ex.Panic && len(ex.Results) == 1
		detail := ""
		if okSem {
			res, isBV := ex.Results[0].(*bitdom.BV)
			okSem = isBV && len(res.Bits) >= 1
			if okSem {
				hi := bitdom.One()
				for i := 1; i <= 30; i++ {
					for k := 0; k < 8; k++ {
						hi = bitdom.And(hi, x.A.Elems[i].(*bitdom.BV).Bits[k])
					}
				}
				for k := 0; k < 7; k++ {
					hi = bitdom.And(hi, x.A.Elems[31].(*bitdom.BV).Bits[k])
				}
				// byte 0 >= 237 as a polynomial of its 8 bits (Möbius transform of the truth table)
				b0 := x.A.Elems[0].(*bitdom.BV).Bits
				ge := bitdom.Zero()
				for sub := 0; sub < 256; sub++ {
					coef := false
					for t := sub; ; t = (t - 1) & sub {
						if t >= 237 {
							coef = !coef
						}
						if t == 0 {
							break
						}
					}
					if coef {
						m := bitdom.One()
						for k := 0; k < 8; k++ {
							if sub>>uint(k)&1 == 1 {
								m = bitdom.And(m, b0[k])
							}
						}
						ge = bitdom.Xor(ge, m)
					}
				}
				want := bitdom.Not(bitdom.And(hi, ge))
				okSem = bitdom.Equal(res.Bits[0], want)
				if !okSem {
					detail = "result differs from y < p on some encoding"
				}
			}
		} else if err != nil {
			detail = err.Error()
		}
		r.Check(okSem && len(in.Cons) == 0, "C18.canonical-decoder.y-less-than-p", c.P.Pos(canonFn.Pos()), "canonical-y test decided in the ANF domain over all 32 symbolic bytes: true exactly when the little-endian y (top bit ignored) is < 2^255−19 %s", detail)
	}
	// who-may-call SetBytes on points in package vrf
	bad := 0
	for _, fn := range c.P.RepoFuncs("pkg/vrf") {
		for _, ci := range ana.CallsTo(fn, "(*filippo.io/edwards25519.Point).SetBytes") {
			if fn != dec {
				bad++
				r.Viol("C18.canonical-decoder.only-decoder", c.ipos(ci), "%s decodes point bytes with the permissive SetBytes outside the canonical decoder", fn.Name())
			}
		}
	}
	if bad == 0 {
		r.OK("C18.canonical-decoder.only-decoder", c.P.Pos(dec.Pos()), "the only (*Point).SetBytes call in package vrf is inside the canonical decoder")
	}
	return dec
}

func c18Verify(c *Ctx, dec *ssa.Function) {
	r := c.R
	f := c.fn("pkg/vrf", "Verify")
	if f == nil || dec == nil {
		return
	}
	fn := f.Function
	b := ana.NewBuilder(c.P, fn)
	Y := "ext#0(call<*>(p0))"
	// the decoded proof: through the SetBytes wrapper, or new(Proof) decoded in place by UnmarshalBinary
	D, decOK, decBad := c18Proof("p2")
	// the prime-order test: a boolean helper applied to the decoded key (decided below), or 8·Y compared with the identity in place
	inl := "(call<(*ed.Point).Equal>(obj(alloc<ed.Point>, call<(*ed.Point).MultByCofactor>(self, " + Y + ")), " + glob("identityPoint") + "), 1)"
	type gate struct {
		name     string
		acc, rej []string
	}
	gates := []gate{
		{"key-canonical", []string{"bin<==>(ext#1(call<*>(p0)), nil)"}, []string{"bin<!=>(ext#1(call<*>(p0)), nil)"}},
		{"key-prime-order", []string{"call<*>(" + Y + ")", "bin<!=>" + inl}, []string{"un<!>(call<*>(" + Y + "))", "bin<==>" + inl}},
		{"proof-decodes", decOK, decBad},
		{"challenge-equal", []string{"bin<==>(call<(*ed.Scalar).Equal>(load(faddr<#1>(" + D + ")), $c), 1)"}, []string{"bin<!=>(call<(*ed.Scalar).Equal>(load(faddr<#1>(" + D + ")), $c), 1)"}},
	}
	var rejects []ana.Edge
	var trues, falses []ana.ReturnCase
	for _, rc := range ana.ReturnCases(fn, 0) {
		if ana.IsConstBool(rc.Val, false) {
			falses = append(falses, rc)
		} else {
			trues = append(trues, rc)
		}
	}
	r.Floor("C18.floor.verify-rejects", len(falses), 1, "`return false` exits of Verify")
	var validateFn *ssa.Function
	var chalTerm *ana.Term
	for _, g := range gates {
		acc := edgesMatching(b, g.acc...)
		for _, rc := range trues {
			r.Check(len(acc) > 0 && mustPass(fn, rc.Block, plainEdges(acc)), "C18.verify-gates."+g.name, c.ipos(rc.Ret), "`return true` passes the %s gate", g.name)
		}
		if g.name == "key-prime-order" && len(acc) > 0 {
			// the routine applied to the decoded key (in Verify or in the helper that decodes and validates)
			for _, ce := range deepEdges(c, b) {
				if _, ok := ana.Match("raw:call<*>(ext#0(call<*>(p0)))", ce.Lit); ok && dec != nil && calleeOf(ce.Lit.Arg(0)) == dec {
					validateFn = calleeOf(ce.Lit)
				}
			}
		}
		if g.name == "challenge-equal" && len(acc) > 0 {
			bd, _ := ana.MatchX(c.P, g.acc[0], acc[0].Lit)
			chalTerm = bd["$c"]
		}
	}
	// the negations of the gates, in Verify or as the reasons for which a helper it tests reports failure
	var rejPats []string
	for _, g := range gates {
		rejPats = append(rejPats, g.rej...)
	}
	rejects = c.rejectEdges(b, rejPats...)
	avoid := ana.ReachableAvoiding(fn, rejects)
	for _, rc := range falses {
		r.Check(!avoid[rc.Block], "C18.verify-gates.reject-closed", c.ipos(rc.Ret), "`return false` reachable only through the negation of one of the four gates")
	}
	for _, e := range ana.Exits(fn) {
		if e.Panic {
			es := edgesMatching(b, "bin<!=>(len(p0), 32)")
			r.Check(exitMustPass(fn, e, plainEdges(es)), "C18.verify-gates.panic", c.ipos(e.Instr), "panic only for a public key that is not 32 bytes (outside the quantifier)")
			continue
		}
		if ana.IsConstBool(e.Results[0], true) {
			ht := b.Of(e.Results[1], e.Instr)
			_, ok := ana.MatchX(c.P, "call<(*"+vrfPkg+"Proof).Hash>("+D+")", ht)
			r.Check(ok, "C18.verify-gates.hash-of-proof", c.ipos(e.Instr), "accepted output = Hash() of the decoded proof: %s", short(ht.String(), 160))
		} else if ana.IsConstBool(e.Results[0], false) {
			r.Check(b.Of(e.Results[1], e.Instr).Is("nil"), "C18.verify-gates.reject-no-hash", c.ipos(e.Instr), "rejection carries no hash")
		}
	}
	// validateKey
	if validateFn != nil {
		r.Fn(ana.ShortFunc(validateFn))
		vb := ana.NewBuilder(c.P, validateFn)
		for _, e := range ana.Exits(validateFn) {
			if e.Panic {
				continue
			}
			t := vb.Of(e.Results[0], e.Instr)
			_, ok := ana.MatchX(c.P, "bin<!=>(call<(*ed.Point).Equal>(obj(alloc<ed.Point>, call<(*ed.Point).MultByCofactor>(self, p0)), "+glob("identityPoint")+"), 1)", t)
			r.Check(ok, "C18.verify-gates.validate-key", c.ipos(e.Instr), "validateKey(Y) = (8·Y != identity): %s", short(t.String(), 200))
		}
	}
	// challenge term in Verify: U, V algebra and roles
	if chalTerm != nil {
		H := "call<*>(p0, p1)"
		U := "obj(alloc<ed.Point>, call<(*ed.Point).Negate>(self, " + Y + "), call<(*ed.Point).VarTimeDoubleScalarBaseMult>(self, load(faddr<#1>(" + D + ")), self, load(faddr<#2>(" + D + "))))"
		sc := "slice(obj(alloc<[2]*ed.Scalar>, store(iaddr(self, 0), load(faddr<#2>(" + D + "))), store(iaddr(self, 1), load(faddr<#1>(" + D + ")))), 0, none)"
		pt := "slice(obj(alloc<[2]*ed.Point>, store(iaddr(self, 0), " + H + "), store(iaddr(self, 1), $Vself)), 0, none)"
		V := "obj(alloc<ed.Point>, call<(*ed.Point).Negate>(self, load(faddr<#0>(" + D + "))), call<(*ed.Point).VarTimeMultiScalarMult>(self, " + sc + ", " + pt + "))"
		want := "call<*>(p0, alt(call<(*ed.Point).Bytes>(" + H + "), " + H + "), load(faddr<#0>(" + D + ")), " + U + ", " + V + ")"
		bd, ok := ana.MatchX(c.P, want, chalTerm)
		okV := false
		if ok {
			// the second point of the multi-scalar product is the negated Gamma held in V itself
			_, okV = ana.MatchX(c.P, "obj(alloc<ed.Point>, call<(*ed.Point).Negate>(self, load(faddr<#0>("+D+"))))", bd["$Vself"])
		}
		r.Check(ok && okV, "C18.hash-inputs.verify-algebra", c.P.Pos(fn.Pos()), "c' = challenge(Y bytes, H bytes, Gamma, U = s·B − c·Y, V = s·H − c·Gamma) %s", ana.Explain(want, chalTerm))
	}
}

func c18Codec(c *Ctx, dec *ssa.Function) {
	r := c.R
	if f := c.fn("pkg/vrf", "Proof.Bytes"); f != nil {
		b := ana.NewBuilder(c.P, f.Function)
		for _, e := range ana.Exits(f.Function) {
			if e.Panic {
				continue
			}
			t := b.Of(e.Results[0], e.Instr)
			want := "slice(obj(alloc<[80]byte>, call<builtin.copy>(slice(slice(self, 0, 80), 0, 32), call<(*ed.Point).Bytes>(load(faddr<#0>(p0)))), call<builtin.copy>(slice(slice(self, 0, 80), 32, 48), call<(*ed.Scalar).Bytes>(load(faddr<#1>(p0)))), call<builtin.copy>(slice(slice(self, 0, 80), 48, none), call<(*ed.Scalar).Bytes>(load(faddr<#2>(p0))))), 0, 80)"
			_, ok := ana.MatchX(c.P, want, t)
			if !ok {
				// the same 80 bytes appended in order (Point.Bytes and Scalar.Bytes are 32 bytes long; c contributes its first 16)
				_, ok = ana.MatchX(c.P, "concat(call<(*ed.Point).Bytes>(load(faddr<#0>(p0))), slice(call<(*ed.Scalar).Bytes>(load(faddr<#1>(p0))), 0, 16), call<(*ed.Scalar).Bytes>(load(faddr<#2>(p0))))", t)
			}
			r.Check(ok, "C18.codec-layout.writer", c.ipos(e.Instr), "Bytes() = Gamma[0:32] ‖ c[32:48] (first 16 bytes) ‖ s[48:80] %s", ana.Explain(want, t))
		}
	}
	if f := c.fn("pkg/vrf", "Proof.UnmarshalBinary"); f != nil && dec != nil {
		fn := f.Function
		b := ana.NewBuilder(c.P, fn)
		cdec := "obj(call<ed.NewScalar>, call<(*ed.Scalar).SetCanonicalBytes>(self, slice(obj(alloc<[32]byte>, call<builtin.copy>(slice(self, 0, 16), alt(slice(p1, 32, 48), slice(p1, 32, none)))), 0, 32)))"
		sdec := "obj(call<ed.NewScalar>, call<(*ed.Scalar).SetCanonicalBytes>(self, slice(p1, 48, alt(none, 80))))" // len(p1) == 80 at this point (length gate)
		g := []struct{ name, acc, rej string }{
			{"length-80", "bin<==>(len(p1), 80)", "bin<!=>(len(p1), 80)"},
			{"gamma-canonical", "bin<==>(ext#1(call<*>(slice(p1, 0, 32))), nil)", "bin<!=>(ext#1(call<*>(slice(p1, 0, 32))), nil)"},
			{"s-canonical", "bin<==>(ext#1(" + sdec + "), nil)", "bin<!=>(ext#1(" + sdec + "), nil)"},
		}
		var rej []ana.Edge
		for _, x := range g {
			rej = append(rej, plainEdges(edgesMatching(b, x.rej))...)
		}
		avoid := ana.ReachableAvoiding(fn, rej)
		for _, e := range ana.Exits(fn) {
			if e.Panic {
				es := edgesMatching(b, "bin<!=>(ext#1("+cdec+"), nil)")
				r.Check(exitMustPass(fn, e, plainEdges(es)), "C18.codec-layout.reader-panic", c.ipos(e.Instr), "panic only on the impossible error of decoding a 16-byte challenge zero-extended to 32 bytes (< 2^128 < L)")
				continue
			}
			et := b.Of(e.Results[0], e.Instr)
			if !et.Is("nil") {
				r.Check(!avoid[e.Instr.Block()], "C18.codec-layout.reader-reject-closed", c.ipos(e.Instr), "decode error only for wrong length, non-canonical Gamma or non-canonical s")
				continue
			}
			for _, x := range g {
				acc := plainEdges(edgesMatching(b, x.acc))
				r.Check(len(acc) > 0 && exitMustPass(fn, e, acc), "C18.codec-layout.reader-gate."+x.name, c.ipos(e.Instr), "successful decode passes the %s gate", x.name)
			}
			st := b.Of(fn.Params[0], e.Instr)
			want := "obj(p0, store(faddr<#0>(self), ext#0(call<*>(slice(p1, 0, 32)))), store(faddr<#1>(self), " + cdec + "), store(faddr<#2>(self), " + sdec + "))"
			_, ok := ana.MatchX(c.P, want, st)
			var gd *ssa.Function
			if w, _ := ana.Find("store(faddr<#0>(self), ext#0(call<*>(slice(p1, 0, 32))))", st); w != nil {
				gd = calleeOf(w.Arg(1))
			}
			r.Check(ok && gd == dec, "C18.codec-layout.reader", c.ipos(e.Instr), "gamma = canonical decoder(data[0:32]); c = SetCanonicalBytes(data[32:48] zero-extended to 32); s = SetCanonicalBytes(data[48:80]) %s", ana.Explain(want, st))
		}
	}
	if f := c.fn("pkg/vrf", "Proof.SetBytes"); f != nil {
		fn := f.Function
		b := ana.NewBuilder(c.P, fn)
		um := "call<(*" + vrfPkg + "Proof).UnmarshalBinary>(p0, p1)"
		for _, e := range ana.Exits(fn) {
			if e.Panic {
				continue
			}
			vt, et := b.Of(e.Results[0], e.Instr), b.Of(e.Results[1], e.Instr)
			if et.Is("nil") {
				acc := plainEdges(edgesMatching(b, "bin<==>("+um+", nil)"))
				r.Check(stripObj(vt).IsParam(0) && exitMustPass(fn, e, acc), "C18.codec-layout.setbytes", c.ipos(e.Instr), "SetBytes returns the receiver only when UnmarshalBinary succeeded")
			} else {
				r.Check(vt.Is("nil") && matches(um, et), "C18.codec-layout.setbytes-error", c.ipos(e.Instr), "SetBytes returns a nil proof together with the decode error")
			}
		}
	}
	if f := c.fn("pkg/vrf", "ProofToHash"); f != nil {
		fn := f.Function
		b := ana.NewBuilder(c.P, fn)
		D, decOK, _ := c18Proof("p0")
		for _, e := range ana.Exits(fn) {
			if e.Panic {
				continue
			}
			vt, et := b.Of(e.Results[0], e.Instr), b.Of(e.Results[1], e.Instr)
			if et.Is("nil") {
				acc := plainEdges(edgesMatching(b, decOK...))
				r.Check(matches("call<(*"+vrfPkg+"Proof).Hash>("+D+")", vt) && exitMustPass(fn, e, acc), "C18.codec-layout.proof-to-hash", c.ipos(e.Instr), "ProofToHash = Hash() of the successfully decoded proof")
			} else {
				r.Check(vt.Is("nil") && matches(c18ProofErr("p0"), et), "C18.codec-layout.proof-to-hash-error", c.ipos(e.Instr), "decode error propagated with no hash")
			}
		}
	}
}

// c18Proof: the proof decoded from the byte string `arg` — through the exported wrapper (new(Proof).SetBytes(arg),
// decided by C18.codec-layout.setbytes) or by new(Proof).UnmarshalBinary(arg) in place — with the literals that hold
// on the "decoded" and "did not decode" edges.
func c18Proof(arg string) (D string, ok, bad []string) {
	sb := "call<(*" + vrfPkg + "Proof).SetBytes>(alloc<" + vrfPkg + "Proof>, " + arg + ")"
	um := "call<(*" + vrfPkg + "Proof).UnmarshalBinary>(alloc<" + vrfPkg + "Proof>, " + arg + ")"
	D = "alt(ext#0(" + sb + "), obj(alloc<" + vrfPkg + "Proof>, call<(*" + vrfPkg + "Proof).UnmarshalBinary>(self, " + arg + ")))"
	return D, []string{"bin<==>(ext#1(" + sb + "), nil)", "bin<==>(" + um + ", nil)"}, []string{"bin<!=>(ext#1(" + sb + "), nil)", "bin<!=>(" + um + ", nil)"}
}

func c18ProofErr(arg string) string {
	return "alt(ext#1(call<(*" + vrfPkg + "Proof).SetBytes>(alloc<" + vrfPkg + "Proof>, " + arg + ")), call<(*" + vrfPkg + "Proof).UnmarshalBinary>(alloc<" + vrfPkg + "Proof>, " + arg + "))"
}

func c18Hashes(c *Ctx, dec *ssa.Function) {
	r := c.R
	// proof-to-hash
	if f := c.fn("pkg/vrf", "Proof.Hash"); f != nil {
		b := ana.NewBuilder(c.P, f.Function)
		for _, e := range ana.Exits(f.Function) {
			if e.Panic {
				continue
			}
			t := b.Of(e.Results[0], e.Instr)
			want := "call<(hash.Hash).Sum>(obj(call<crypto/sha512.New>, " + hw(glob("suiteString")) + ", " + hw(glob("proofToHashDomainSeparatorFront")) + ", " +
				hw("call<(*ed.Point).Bytes>(obj(alloc<ed.Point>, call<(*ed.Point).MultByCofactor>(self, load(faddr<#0>(p0)))))") + ", " + hw(glob("proofToHashDomainSeparatorBack")) + "), nil)"
			_, ok := ana.MatchX(c.P, want, t)
			r.Check(ok, "C18.hash-from-gamma-only.term", c.ipos(e.Instr), "Hash() = SHA512(03 ‖ 03 ‖ (8·gamma).Bytes() ‖ 00): a function of gamma only %s", ana.Explain(want, t))
		}
	}
	// encode to curve
	var h2c, chal *ssa.Function
	if pf := c.P.Func("pkg/vrf", "Prove"); pf != nil {
		pb := ana.NewBuilder(c.P, pf)
		for _, ci := range ana.Calls(pf) {
			cal := ana.StaticRepoCallee(ci.Common())
			if cal == nil {
				continue
			}
			t := pb.CallTermAt(ci)
			if matches("call<*>(slice(p0, 32, none), p1)", t) {
				h2c = cal
			}
			if len(t.Args) == 5 {
				chal = cal
			}
		}
	}
	if h2c == nil || chal == nil {
		r.Undec("C18.hash-inputs.anchor", "", "encode-to-curve / challenge routines not resolved from Prove")
		return
	}
	r.Fn(ana.ShortFunc(h2c))
	r.Fn(ana.ShortFunc(chal))
	{
		b := ana.NewBuilder(c.P, h2c)
		ctr := "slice(obj(alloc<[1]byte>, store(iaddr(self, 0), conv<byte>(ind<+1>(0)))), 0, none)"
		hist := "obj(call<crypto/sha512.New>, " + hw(glob("suiteString")) + ", " + hw(glob("encodeToCurveDomainSeparatorFront")) + ", " + hw("p0") + ", " + hw("p1") + ", " + hw(ctr) + ", " + hw(glob("encodeToCurveDomainSeparatorBack")) + ")" // the state at Sum: what was written since the last Reset (ana: clearedByReset)
		cand := "call<*>(slice(call<(hash.Hash).Sum>(" + hist + ", _), 0, 32))"
		okLoop := len(edgesMatching(b, "bin<<=>(ind<+1>(0), 255)")) == 1
		var sumOK, candOK, resetOK bool
		for _, ci := range ana.Calls(h2c) {
			t := b.CallTermAt(ci)
			switch ana.CalleeName(ci.Common()) {
			case "(hash.Hash).Sum":
				_, sumOK = ana.MatchX(c.P, "call<(hash.Hash).Sum>("+hist+", _)", t)
				if !sumOK {
					r.Viol("C18.hash-inputs.encode-to-curve", c.ipos(ci), "hash-to-curve input is not 03 ‖ 01 ‖ salt ‖ alpha ‖ ctr ‖ 00 with ctr written as the fresh byte of the loop counter: %s", ana.Explain("call<(hash.Hash).Sum>("+hist+", _)", t))
				}
			case "(hash.Hash).Reset":
				resetOK = true
			}
			if ana.StaticRepoCallee(ci.Common()) == dec {
				_, candOK = ana.MatchX(c.P, cand, t)
			}
		}
		// reset happens on every path back to the loop header
		for _, be := range ana.BackEdges(h2c) {
			found := false
			for _, ci := range ana.CallsTo(h2c, "(hash.Hash).Reset") {
				if ci.Block() == be.From || ci.Block().Dominates(be.From) {
					found = true
				}
			}
			resetOK = resetOK && found
		}
		if len(ana.CallsTo(h2c, "(hash.Hash).Sum")) == 0 && len(ana.CallsTo(h2c, "(hash.Hash).Reset")) == 0 && candOK {
			// the digest of each try comes from a helper that builds a fresh hash: the candidate pattern above (matched
			// through the helper) already fixes everything that was written, and there is no state to reset
			sumOK, resetOK = true, true
		}
		r.Check(okLoop && sumOK && candOK && resetOK, "C18.hash-inputs.encode-to-curve", c.P.Pos(h2c.Pos()), "try-and-increment: ctr = 0..255; candidate = canonical decoder(SHA512(03‖01‖salt‖alpha‖ctr‖00)[0:32]); hash reset before every retry (loop=%v sum=%v candidate=%v reset=%v)", okLoop, sumOK, candOK, resetOK)
		for _, e := range ana.Exits(h2c) {
			if e.Panic {
				out := plainEdges(edgesMatching(b, "bin<>>(ind<+1>(0), 255)"))
				r.Check(exitMustPass(h2c, e, out), "C18.hash-inputs.encode-to-curve-exhausted", c.ipos(e.Instr), "panic only after all 256 counters failed")
				continue
			}
			t := b.Of(e.Results[0], e.Instr)
			_, ok := ana.MatchX(c.P, "obj(ext#0("+cand+"), call<(*ed.Point).MultByCofactor>(self, self))", t)
			okGate := exitMustPass(h2c, e, plainEdges(edgesMatching(b, "bin<==>(ext#1("+cand+"), nil)"))) &&
				exitMustPass(h2c, e, plainEdges(edgesMatching(b, "bin<!=>(call<(*ed.Point).Equal>(_, "+glob("identityPoint")+"), 1)")))
			r.Check(ok && okGate, "C18.hash-inputs.encode-to-curve-result", c.ipos(e.Instr), "H = 8·candidate for the first counter whose candidate decodes canonically and whose multiple is not the identity")
		}
	}
	// challenge
	{
		b := ana.NewBuilder(c.P, chal)
		for _, e := range ana.Exits(chal) {
			if e.Panic {
				continue
			}
			t := b.Of(e.Results[0], e.Instr)
			hist := "obj(call<crypto/sha512.New>, " + hw(glob("suiteString")) + ", " + hw(glob("challengeGenerationDomainSeparatorFront")) + ", " + hw("p0") + ", " + hw("alt(p1, call<(*ed.Point).Bytes>(p1))") + ", " +
				hw("call<(*ed.Point).Bytes>(p2)") + ", " + hw("call<(*ed.Point).Bytes>(p3)") + ", " + hw("call<(*ed.Point).Bytes>(p4)") + ", " + hw(glob("challengeGenerationDomainSeparatorBack")) + ")"
			want := "obj(call<ed.NewScalar>, call<(*ed.Scalar).SetCanonicalBytes>(self, slice(obj(alloc<[32]byte>, call<builtin.copy>(slice(self, 0, 16), slice(call<(hash.Hash).Sum>(" + hist + ", _), 0, 16))), 0, 32)))"
			_, ok := ana.MatchX(c.P, want, t)
			r.Check(ok, "C18.hash-inputs.challenge", c.ipos(e.Instr), "c = first 16 bytes of SHA512(03‖02‖P1‖P2‖P3‖P4‖P5‖00), zero-extended, as a scalar %s", ana.Explain(want, t))
		}
	}
	// Prove
	if f := c.fn("pkg/vrf", "Prove"); f != nil {
		fn := f.Function
		b := ana.NewBuilder(c.P, fn)
		hsk := "obj(alloc<[64]byte>, store(self, call<crypto/sha512.Sum512>(slice(p0, 0, 32))))"
		x := "obj(call<ed.NewScalar>, call<(*ed.Scalar).SetBytesWithClamping>(self, slice(" + hsk + ", 0, 32)))"
		H := "call<*>(slice(p0, 32, none), p1)"
		k := "obj(call<ed.NewScalar>, call<(*ed.Scalar).SetUniformBytes>(self, call<(hash.Hash).Sum>(obj(call<crypto/sha512.New>, " + hw("slice("+hsk+", 32, none)") + ", " + hw("call<(*ed.Point).Bytes>("+H+")") + "), nil)))"
		gamma := "obj(alloc<ed.Point>, call<(*ed.Point).ScalarMult>(self, " + x + ", " + H + "))"
		cc := "call<*>(slice(p0, 32, none), alt(call<(*ed.Point).Bytes>(" + H + "), " + H + "), " + gamma + ", obj(alloc<ed.Point>, call<(*ed.Point).ScalarBaseMult>(self, " + k + ")), obj(alloc<ed.Point>, call<(*ed.Point).ScalarMult>(self, " + k + ", " + H + ")))"
		s := "obj(call<ed.NewScalar>, call<(*ed.Scalar).SetUniformBytes>(self, _), call<(*ed.Scalar).MultiplyAdd>(self, " + cc + ", " + x + ", self))"
		want := "obj(alloc<" + vrfPkg + "Proof>, store(faddr<#0>(self), " + gamma + "), store(faddr<#1>(self), " + cc + "), store(faddr<#2>(self), " + s + "))"
		for _, e := range ana.Exits(fn) {
			if e.Panic {
				continue
			}
			t := b.Of(e.Results[0], e.Instr)
			_, ok := ana.MatchX(c.P, want, t)
			r.Check(ok, "C18.hash-inputs.prove", c.ipos(e.Instr), "Prove: x = clamp(SHA512(seed)[0:32]); H = encode(Y, alpha); Gamma = x·H; k = SHA512(SHA512(seed)[32:64] ‖ H) mod L; c = challenge(Y, H, Gamma, k·B, k·H); s = c·x + k; proof = (Gamma, c, s) %s", ana.Explain(want, t))
			// sibling: same challenge routine as Verify
			var vchal *ssa.Function
			if vf := c.P.Func("pkg/vrf", "Verify"); vf != nil {
				for _, ci := range ana.Calls(vf) {
					if cal := ana.StaticRepoCallee(ci.Common()); cal != nil && len(ci.Common().Args) == 5 {
						vchal = cal
					}
				}
			}
			var pchal *ssa.Function
			if w, _ := ana.Find("store(faddr<#1>(self), $c)", t); w != nil {
				pchal = calleeOf(w.Arg(1))
			}
			r.Check(vchal != nil && vchal == pchal, "C18.hash-inputs.sibling-challenge", c.ipos(e.Instr), "Prove and Verify call the same challenge routine, arguments in the roles (Y, H, Gamma, k·B|U, k·H|V)")
		}
		for _, e := range ana.Exits(fn) {
			if e.Panic {
				es := plainEdges(edgesMatching(b, "bin<!=>(len(p0), 64)", "bin<!=>(ext#1("+strings.Replace(x, "$", "", -1)+"), nil)", "bin<!=>(ext#1(obj(call<ed.NewScalar>, call<(*ed.Scalar).SetUniformBytes>(self, _))), nil)"))
				r.Check(exitMustPass(fn, e, es), "C18.hash-inputs.prove-panics", c.ipos(e.Instr), "Prove panics only for a private key that is not 64 bytes or on impossible scalar-setting errors")
			}
		}
	}
}
