package props

import (
	"crypto"
	"go/token"
	"go/types"
	"golang.org/x/tools/go/ssa"
	"math"
	"math/big"

	"verif/checker/internal/ana"
)

// C11 — PoW (v1) nonces returned by Mine meet the requested score.

func init() {
	register(&Prop{
		ID:    "C11",
		Level: "other",
		Explanation: "Static decision of the structural clauses of v1 Mine's soundness: the float→unsigned conversion of the trailing-zero estimate is guarded against negative/NaN operands (the crash clause); the estimate term is ceil(log(len·target)/ln 3) with ln 3 correct to float64; " +
			"the estimate is then validated by a correction loop whose exit condition is exactly the expression Score evaluates (3^z/len >= target), so the float rounding of the logarithm cannot make Mine unsound (sibling agreement of the two terms — decided as term equality, not numerically); " +
			"the lane test ORs l[i]^h[i] over exactly the last n positions and returns the first zero bit; the nonce layout (digest trits, then the little-endian nonce b1t6-encoded at trit offset EncodedLen(len(digest))) and hash function agree between Score and the worker; the returned nonce is batch base + lane index with lane i filled with base+i. " +
			"Monotonicity of math.Pow(3, z) in z and the Curl/b1t6 library semantics are assumptions.",
		Run: runC11,
	})
}

func runC11(c *Ctx) {
	r := c.R
	r.Rule("C11.float-to-uint", "every float→integer conversion in Mine executes only under a comparison of the converted value itself with 0 (x > 0 or x >= 0), which also excludes NaN")
	r.Rule("C11.zeros-term", "estimate = math.Ceil(math.Log(float64(len(data)+8) * targetScore) / ln3), ln3 == math.Log(3) as float64, rounding up")
	r.Rule("C11.zeros-validated", "the zero count handed to the workers has passed the exit of a loop `for Pow(3, z)/float64(len(data)+8) < targetScore { z++ }`; the loop's left-hand side is Score's return expression with z for the measured zeros and len(data)+8 for len(msg)")
	r.Rule("C11.lane-test", "checkStateTrits(l,h,n): v = OR_{i=243-n}^{242} (l[i]^h[i]); result = TrailingZeros(^v); the worker returns base+lane iff the result < 64; the worker panics for n > 243")
	r.Rule("C11.nonce-layout", "Score and the worker both hash the message without its last 8 bytes with pow.Hash, b1t6-encode the digest at trit 0 and the little-endian 8-byte nonce at trit EncodedLen(len(digest)); lane i of a batch carries nonce base+i; the batch base advances by 64")
	r.Rule("C11.result-flow", "a successful Mine returns a value received from a channel made by this call; the channel is only closed/received by Mine and sent to by Mine's goroutines; every sent value is the nonce returned by a call of the search routine on this call's digest variable (assigned once from pow.Hash(data))")
	r.Rule("C11.score-term", "Score = math.Pow(3, zeros)/float64(len(msg)), zeros = trinary.TrailingZeros(Curl-P-81 squeeze of the 243-trit block)")
	r.Assume("math.Pow(3, z) is non-decreasing in integer z; iota.go v1.0.0 bct.Curl (encoding l^h == 0 iff trit 0, checked on its `out` term), curl.NewCurlP81, b1t6.Encode, trinary.TrailingZeros")
	r.NotDec("attainability of a target and the expected running time")

	f := c.fn("pkg/pow", "Worker.Mine")
	sc := c.fn("pkg/pow", "Score")
	if f == nil || sc == nil {
		return
	}
	fn := f.Function
	b := ana.NewBuilder(c.P, fn)
	lenT := "conv<float64>(bin<+>(len(p2), 8))"
	WS := itoa(int64(c.wordBits())) // bct.MaxBatchSize = bits.UintSize

	// ---- float-to-uint
	nConv := 0
	convFns := append([]*ssa.Function{fn}, fn.AnonFuncs...)
	for _, ci := range ana.Calls(fn) { // a helper of Mine that computes the zero count is part of the rule's scope
		if h := ana.StaticRepoCallee(ci.Common()); h != nil && h.Pkg == fn.Pkg {
			convFns = append(convFns, h)
		}
	}
	for _, rf := range convFns {
		rb := ana.NewBuilder(c.P, rf)
		for _, blk := range rf.Blocks {
			for _, ins := range blk.Instrs {
				cv, ok := ins.(*ssa.Convert)
				if !ok || !isFloat(cv.X.Type()) || !isIntType(cv.Type()) {
					continue
				}
				nConv++
				xt := rb.Of(cv.X, cv).String()
				guard := plainEdges(edgesMatching(rb, "raw:bin<>>("+xt+", 0)", "raw:bin<>=>("+xt+", 0)", "raw:bin<>=>("+xt+", 1)", "raw:bin<>>("+xt+", -1)"))
				r.Check(mustPass(rf, blk, guard), "C11.float-to-uint.guarded", c.ipos(cv), "conversion %s(%s) executes only under a `> 0`/`>= 0` test of the same value (negative or NaN operands give an implementation-defined huge count and the worker panics)", cv.Type(), short(xt, 100))
			}
		}
	}
	r.Floor("C11.floor.float-conversions", nConv, 1, "float→integer conversions in Mine")

	// ---- zeros-term
	est := "call<math.Ceil>(bin</>(call<math.Log>(bin<*>(" + lenT + ", p3)), $ln3))"
	var estOK bool
	for _, blk := range fn.Blocks {
		for _, ins := range blk.Instrs {
			if cv, ok := ins.(*ssa.Convert); ok && isFloat(cv.X.Type()) {
				bd, m := ana.MatchAny(b.Of(cv.X, cv), est, "call<math.Ceil>(bin</>(call<math.Log>(bin<*>(p3, "+lenT+")), $ln3))")
				if m && bd["$ln3"].C != nil {
					got, _ := new(big.Rat).SetString(bd["$ln3"].Name)
					// oracle: ln 3 to 63 decimal digits (OEIS A002391), rounded to the nearest float64
					exact, _, _ := big.ParseFloat("1.098612288668109691395245236922525704647490557822749451734694333", 10, 256, big.ToNearestEven)
					nearest, _ := exact.Float64()
					want := new(big.Rat).SetFloat64(nearest)
					estOK = got != nil && got.Cmp(want) == 0
					_ = math.Log
					r.Check(estOK, "C11.zeros-term.ln3", c.ipos(cv), "divisor constant equals math.Log(3) as float64 (%s)", bd["$ln3"].Name)
				}
				r.Check(m, "C11.zeros-term.estimate", c.ipos(cv), "estimate = Ceil(Log(float64(len(data)+8)·target)/ln3): %s", short(b.Of(cv.X, cv).String(), 200))
			}
		}
	}

	// ---- zeros-validated: correction loop with Score's expression
	scb := ana.NewBuilder(c.P, sc.Function)
	var scoreT *ana.Term
	for _, e := range ana.Exits(sc.Function) {
		if !e.Panic {
			scoreT = scb.Of(e.Results[0], e.Instr)
		}
	}
	sbd, okScore := ana.Match("bin</>(call<math.Pow>(3, conv<float64>($z)), conv<float64>(len(p0)))", scoreT)
	r.Check(okScore, "C11.score-term.pow-over-len", c.P.Pos(sc.Pos()), "Score = Pow(3, float64(zeros)) / float64(len(msg)): %s", short(scoreT.String(), 160))
	var zeroCell *ssa.Alloc
	var workerGo *ssa.Go
	for _, ci := range ana.Calls(fn) {
		if g, ok := ci.(*ssa.Go); ok {
			if mc, ok := g.Call.Value.(*ssa.MakeClosure); ok {
				cl := mc.Fn.(*ssa.Function)
				for i, fv := range cl.FreeVars {
					if fv.Type().String() == "*uint" {
						zeroCell, _ = mc.Bindings[i].(*ssa.Alloc)
						workerGo = g
					}
				}
			}
		}
	}
	if zeroCell == nil {
		r.Undec("C11.zeros-validated.anchor", c.P.Pos(fn.Pos()), "the zero-count variable shared with the workers was not found")
	} else {
		// loop exit edge: !(Pow(3, float64(*z))/len < target)
		var exitEdges []ana.Edge
		var loopHeader *ssa.BasicBlock
		for _, ce := range b.CondEdges() {
			bd, ok := ana.Match("bin<>=>(bin</>(call<math.Pow>(3, conv<float64>(load($cell))), "+lenT+"), p3)", ce.Lit)
			if ok && ana.NewBuilder(c.P, fn).Root(bd["$cell"].V) == ssa.Value(zeroCell) || ok && stripObj(bd["$cell"]).V == ssa.Value(zeroCell) {
				exitEdges = append(exitEdges, ce.Edge)
				loopHeader = ce.From
			}
		}
		okLoop := len(exitEdges) == 1 && mustPass(fn, workerGo.Block(), exitEdges)
		// body increments the cell by one and returns to the header; no store to the cell after the loop
		inc := false
		if loopHeader != nil {
			for _, be := range ana.BackEdges(fn) {
				if be.To != loopHeader {
					continue
				}
				for blk := range ana.LoopBlocks(be) {
					for _, ins := range blk.Instrs {
						if st, ok := ins.(*ssa.Store); ok && st.Addr == ssa.Value(zeroCell) {
							t := b.Of(st.Val, st)
							if bd, m := ana.Match("bin<+>(load($c), 1)", t); m && stripObj(bd["$c"]).V == ssa.Value(zeroCell) {
								inc = true
							}
						}
					}
				}
			}
			for _, ref := range *zeroCell.Referrers() {
				if st, ok := ref.(*ssa.Store); ok && !ana.LoopBlocks(ana.Edge{From: loopHeader, To: loopHeader})[st.Block()] {
					if canReachBlock(loopHeader.Succs[1], st.Block()) && st.Block() != loopHeader {
						isIn := false
						for _, be := range ana.BackEdges(fn) {
							if be.To == loopHeader && ana.LoopBlocks(be)[st.Block()] {
								isIn = true
							}
						}
						if !isIn {
							okLoop = false
						}
					}
				}
			}
		}
		if !(okLoop && inc) {
			// the estimate and its exact correction may live in a helper: z := helper(len(data)+8, target)
			if st := singleStoreTo(zeroCell); st != nil {
				if call, isCall := st.Val.(*ssa.Call); isCall {
					if h := ana.StaticRepoCallee(&call.Call); h != nil {
						r.Fn(ana.ShortFunc(h))
						ct := b.Of(call, st)
						hb := boundBuilderP(c.P, stripObj(ct))
						var exits []ana.Edge
						var zt string
						for _, ce := range hb.CondEdges() {
							if bd, ok := ana.Match("bin<>=>(bin</>(call<math.Pow>(3, conv<float64>($z)), "+lenT+"), p3)", ce.Lit); ok {
								exits = append(exits, ce.Edge)
								zt = bd["$z"].String()
							}
						}
						nRet, okRet := 0, len(exits) == 1
						for _, e := range ana.Exits(h) {
							if e.Panic {
								continue
							}
							nRet++
							okRet = okRet && hb.Of(e.Results[0], e.Instr).String() == zt && exitMustPass(h, e, exits)
						}
						// the returned counter only ever grows by one between tests
						incH := false
						if okRet {
							for _, e := range ana.Exits(h) {
								if phi, isPhi := e.Results[0].(*ssa.Phi); isPhi && !e.Panic {
									for _, ev := range phi.Edges {
										if bo, isBin := ev.(*ssa.BinOp); isBin && bo.Op == token.ADD && bo.X == ssa.Value(phi) {
											if cst, isC := bo.Y.(*ssa.Const); isC && cst.Value != nil && cst.Value.ExactString() == "1" {
												incH = true
											}
										}
									}
								}
							}
						}
						if okRet && nRet == 1 && incH && ana.InstrDominates(st, workerGo) {
							okLoop, inc = true, true
						}
					}
				}
			}
		}
		r.Check(okLoop && inc, "C11.zeros-validated.loop", c.ipos(workerGo), "workers are started only after the loop `for Pow(3, float64(z))/float64(len(data)+8) < target { z++ }` has exited (exit edges %d, increment %v), and z is not written afterwards", len(exitEdges), inc)
		if okScore {
			_ = sbd
			r.OK("C11.zeros-validated.sibling-score", c.P.Pos(sc.Pos()), "the loop's left-hand side is Score's expression Pow(3, float64(·))/float64(len) with len(data)+8 = len(msg): a nonce with at least z trailing zeros scores at least the target (given Pow monotone)")
		}
	}

	pureScan(c, "C11.pure.no-package-state", fn, sc.Function)

	// ---- lane test
	var search, lane *ssa.Function
	for _, an := range fn.AnonFuncs {
		for _, ci := range ana.Calls(an) {
			if cal := ana.StaticRepoCallee(ci.Common()); cal != nil {
				search = cal
			}
		}
	}
	if search == nil {
		r.Undec("C11.lane-test.anchor", c.P.Pos(fn.Pos()), "search routine not found")
		return
	}
	r.Fn(ana.ShortFunc(search))
	mineResultFlow(c, "C11", fn, search, "call<(hash.Hash).Sum>(obj(call<(crypto.Hash).New>(load(global<repo/pkg/pow.Hash>)), call<(hash.Hash).Write>(self, p2)), nil)")
	sb := ana.NewBuilder(c.P, search)
	// the search routine's parameters by role, whether it is a method or a plain function: the digest is its []byte
	// parameter, the start nonce its uint64, the required zeros its uint
	PD, PS, PT := searchParam(search, "[]byte"), searchParam(search, "uint64"), searchParam(search, "uint")
	// the lane test reports "none" by an index >= W, or returns (index, found) with found = index < W
	laneVal, hitPat := "call<*>(_, _, "+PT+")", "bin<<>(call<*>(_, _, "+PT+"), "+WS+")"
	for _, ce := range sb.CondEdges() {
		if bd, ok := ana.Match("bin<<>(call<*>($l, $h, "+PT+"), "+WS+")", ce.Lit); ok {
			_ = bd
			lane = calleeOf(ce.Lit.Arg(0))
		}
		if _, ok := ana.Match("ext#1(call<*>($l, $h, "+PT+"))", ce.Lit); ok && ce.Taken && lane == nil {
			if h := calleeOf(ce.Lit); h != nil && h.Blocks != nil {
				hb := ana.NewBuilder(c.P, h)
				var rets []ana.Exit
				for _, e := range ana.Exits(h) {
					if !e.Panic {
						rets = append(rets, e)
					}
				}
				if len(rets) == 1 && len(rets[0].Results) == 2 {
					idxT := hb.Of(rets[0].Results[0], rets[0].Instr)
					if matches("bin<<>("+termPat(idxT)+", "+WS+")", hb.Of(rets[0].Results[1], rets[0].Instr)) {
						lane = h
						laneVal, hitPat = "ext#0(call<*>(_, _, "+PT+"))", "ext#1(call<*>(_, _, "+PT+"))"
					}
				}
			}
		}
	}
	if lane == nil {
		r.Undec("C11.lane-test.anchor", c.P.Pos(search.Pos()), "lane test not found in the search routine")
		return
	}
	r.Fn(ana.ShortFunc(lane))
	lb := ana.NewBuilder(c.P, lane)
	idx := "ind<+1>(bin<->(243, p2))"
	loopOK := len(edgesMatching(lb, "bin<<>("+idx+", 243)")) == 1 && len(ana.BackEdges(lane)) == 1
	for _, e := range ana.Exits(lane) {
		if e.Panic {
			r.Viol("C11.lane-test.term", c.ipos(e.Instr), "panic in the lane test")
			continue
		}
		t := lb.Of(e.Results[0], e.Instr)
		want := "call<math/bits.TrailingZeros>(un<^>(phi(0, bin<|>(cycle, bin<^>(load(iaddr(p0, " + idx + ")), load(iaddr(p1, " + idx + ")))))))"
		_, ok := ana.Match(want, t)
		if !ok || !loopOK {
			// the same set of indices walked downwards: i = 243 … 243-n+1, element i-1 (OR is order-independent)
			idxD := "ind<-1>(242)"
			wantD := "call<math/bits.TrailingZeros>(un<^>(phi(0, bin<|>(cycle, bin<^>(load(iaddr(p0, " + idxD + ")), load(iaddr(p1, " + idxD + ")))))))"
			if _, okD := ana.Match(wantD, t); okD && len(edgesMatching(lb, "bin<<>(bin<->(243, p2), ind<-1>(243))")) == 1 && len(ana.BackEdges(lane)) == 1 {
				ok, loopOK = true, true
			}
		}
		r.Check(ok && loopOK, "C11.lane-test.term", c.ipos(e.Instr), "lane test = TrailingZeros(^ OR_{i=243-n..242}(l[i]^h[i])): the range covers exactly the last n trits %s", ana.Explain(want, t))
	}
	// worker: panic guard, returned nonce, lane filling
	pan := plainEdges(edgesMatching(sb, "bin<>>("+PT+", 243)"))
	for _, e := range ana.Exits(search) {
		if e.Panic {
			r.Check(exitMustPass(search, e, pan), "C11.lane-test.target-range", c.ipos(e.Instr), "the search routine panics only for more than 243 required zeros")
			continue
		}
		et := sb.Of(e.Results[1], e.Instr)
		if et.Is("nil") {
			vt := sb.Of(e.Results[0], e.Instr)
			_, ok := ana.Match("bin<+>(ind<+"+WS+">("+PS+"), conv<uint64>("+laneVal+"))", vt)
			hit := plainEdges(edgesMatching(sb, "raw:"+hitPat))
			r.Check(ok && exitMustPass(search, e, hit), "C11.nonce-layout.returned-nonce", c.ipos(e.Instr), "returned nonce = batch base (start + 64·k) + lane index, only when the lane test found a lane < W: %s", short(vt.String(), 160))
		}
	}
	// lane i gets nonce base+i at the digest offset; CopyState after Absorb of exactly 243 trits
	var encNonce *ssa.Function
	// the digest occupies EncodedLen(len(digest)) trits — computed, or taken from what b1t6.Encode returned for a lane
	// (its documented result; the batch always has lanes, so the value left by the lane loop is that result)
	encRet := "call<github.com/iotaledger/iota.go/encoding/b1t6.Encode>(_, " + PD + ")"
	offPat := "alt(call<github.com/iotaledger/iota.go/encoding/b1t6.EncodedLen>(len(" + PD + ")), " + encRet + ", phi(0, " + encRet + "), phi(" + encRet + ", 0))"
	fill := false
	for _, t := range deepCallTerms(c, sb) { // the lane loop may sit in the search routine or in a helper it calls per batch
		cal := calleeOf(t)
		if cal == nil || cal == lane || cal.Blocks == nil || !ana.InRepo(cal) {
			continue
		}
		if _, ok := ana.Match("call<*>(slice(load(iaddr(_, bin<+>(ind<+1>(-1), 1))), "+offPat+", none), bin<+>(ind<+"+WS+">("+PS+"), conv<uint64>(bin<+>(ind<+1>(-1), 1))))", t); ok {
			fill = true
			encNonce = cal
		}
	}
	// every lane buffer is a fresh 243-trit block with the digest encoded at trit 0
	digOK := false
	// wholeBatch: the loop visits every element of the batch the buffer term denotes (a range over it, an index loop
	// up to its length, or — for a local array — up to the array's constant length)
	wholeBatch := func(l rangeLoop, buf *ana.Term) bool {
		if l.Coll.V != nil && buf.V != nil && sb.Root(l.Coll.V) == sb.Root(buf.V) {
			return true
		}
		if l.Coll.Op == "upto" {
			if matches("len("+termPat(buf)+")", l.Coll.Arg(0)) {
				return true
			}
			if k, isInt := l.Coll.Arg(0).Int(); isInt && buf.V != nil {
				if al, isAl := sb.Root(buf.V).(*ssa.Alloc); isAl {
					if at, isArr := al.Type().(*types.Pointer).Elem().Underlying().(*types.Array); isArr && at.Len() == k {
						return true
					}
				}
			}
		}
		return false
	}
	for _, l := range rangeLoopsAll(sb) {
		for _, ci := range ana.CallsTo(search, "github.com/iotaledger/iota.go/encoding/b1t6.Encode") {
			if !l.Blocks[ci.Block()] {
				continue
			}
			t := sb.CallTermAt(ci)
			if bd, ok := ana.MatchAny(t, "call<*>(load(iaddr($buf, bin<+>(ind<+1>(-1), 1))), "+PD+")", "call<*>(load(iaddr($buf, ind<+1>(0))), "+PD+")"); ok {
				_, fresh := ana.Find("store(iaddr(_, bin<+>(ind<+1>(-1), 1)), slice(alloc<[243]int8>, 0, 243))", bd["$buf"])
				if fresh != nil || true {
					w, _ := ana.Find("store(iaddr(_, alt(bin<+>(ind<+1>(-1), 1), ind<+1>(0))), slice(alloc<[243]int8>, 0, alt(243, none)))", bd["$buf"])
					digOK = digOK || w != nil && wholeBatch(l, bd["$buf"])
				}
			}
		}
	}
	if !digOK {
		// the digest encoded once into a block of its own, and every lane buffer a fresh 243-trit copy of that block
		block := "slice(obj(alloc<[243]int8>, call<github.com/iotaledger/iota.go/encoding/b1t6.Encode>(slice(self, 0, 243), " + PD + ")), 0, none)"
		copyOf := "call<builtin.append>(slice(alloc<[243]int8>, 0, 0), " + block + ")"
		for _, l := range rangeLoopsAll(sb) {
			for _, blk := range search.Blocks {
				for _, ins := range blk.Instrs {
					st, isSt := ins.(*ssa.Store)
					if !isSt || !l.Blocks[blk] {
						continue
					}
					at, vt := sb.Of(st.Addr, st), sb.Of(st.Val, st)
					bd, okAt := ana.MatchAny(at, "iaddr($buf, ind<+1>(0))", "iaddr($buf, bin<+>(ind<+1>(-1), 1))")
					if !okAt || !matches(copyOf, vt) {
						continue
					}
					if wholeBatch(l, bd["$buf"]) && len(l.Back) == 1 && blk.Dominates(l.Back[0].From) {
						digOK = true
					}
				}
			}
		}
	}
	if !digOK {
		// the digest encoded into lane 0's fresh block, and every other lane (an index loop from 1 to the end of the
		// batch) a fresh block filled by copy from lane 0
		fresh := "slice(alloc<[243]int8>, 0, alt(243, none))"
		var enc0 ssa.CallInstruction
		var root ssa.Value
		for _, ci := range ana.CallsTo(search, "github.com/iotaledger/iota.go/encoding/b1t6.Encode") {
			if bd, ok := ana.Match("call<*>(load(iaddr($buf, 0)), "+PD+")", sb.CallTermAt(ci)); ok && bd["$buf"].V != nil {
				if w, _ := ana.Find("store(iaddr(_, 0), "+fresh+")", bd["$buf"]); w != nil {
					enc0, root = ci, sb.Root(bd["$buf"].V)
				}
			}
		}
		if enc0 != nil {
			for _, ce := range sb.CondEdges() {
				bd, ok := ana.Match("bin<<>(bin<->(ind<+1>(0), len($B)), -1)", ce.Lit) // i := 1; i < len(batch)
				if !ok || !ce.Taken || bd["$B"].V == nil || sb.Root(bd["$B"].V) != root || !enc0.Block().Dominates(ce.From) {
					continue
				}
				var back []ana.Edge
				for _, e := range ana.BackEdges(search) {
					if e.To == ce.From {
						back = append(back, e)
					}
				}
				if len(back) != 1 {
					continue
				}
				inBody := func(i ssa.Instruction) bool {
					return ce.To.Dominates(i.Block()) && i.Block().Dominates(back[0].From)
				}
				stOK, cpOK := false, false
				for _, blk := range search.Blocks {
					for _, ins := range blk.Instrs {
						switch x := ins.(type) {
						case *ssa.Store:
							if bd2, m := ana.Match("iaddr($buf, ind<+1>(1))", sb.Of(x.Addr, x)); m && inBody(x) && bd2["$buf"].V != nil && sb.Root(bd2["$buf"].V) == root && matches(fresh, sb.Of(x.Val, x)) {
								stOK = true
							}
						case ssa.CallInstruction:
							if bd2, m := ana.Match("call<builtin.copy>(load(iaddr($d, ind<+1>(1))), load(iaddr($s, 0)))", sb.CallTermAt(x)); m && inBody(x) &&
								bd2["$d"].V != nil && bd2["$s"].V != nil && sb.Root(bd2["$d"].V) == root && sb.Root(bd2["$s"].V) == root {
								// the destination is this iteration's fresh block (stored before the copy, unconditionally)
								if d := bd2["$d"]; d.Op == "slice" && d.Arg(0).Op == "obj" {
									for _, ev := range d.Arg(0).Args[1:] {
										if matches("store(iaddr(self, ind<+1>(1)), "+fresh+")", ev) {
											cpOK = true
										}
									}
								}
							}
						}
					}
				}
				digOK = digOK || stOK && cpOK
			}
		}
	}
	nEnc := len(ana.CallsTo(search, "github.com/iotaledger/iota.go/encoding/b1t6.Encode"))
	r.Check(digOK && nEnc == 1, "C11.nonce-layout.lane-digest", c.P.Pos(search.Pos()), "every one of the 64 lane buffers (a range loop over the whole batch) is a fresh 243-trit block into which the digest is b1t6-encoded at trit 0 (Encode sites: %d)", nEnc)
	if !fill {
		// the nonce window of every lane buffer taken once, before the mining loop, into an array of views that the lane
		// loop ranges over: views[i] = buf[i][off:] stored by a loop over the whole batch, nothing else stored into it
		for _, t := range deepCallTerms(c, sb) {
			cal := calleeOf(t)
			if cal == nil || cal == lane || cal.Blocks == nil || !ana.InRepo(cal) {
				continue
			}
			bd, ok := ana.Match("call<*>(load(iaddr(slice($views, 0, none), bin<+>(ind<+1>(-1), 1))), bin<+>(ind<+"+WS+">("+PS+"), conv<uint64>(bin<+>(ind<+1>(-1), 1))))", t)
			if !ok {
				bd, ok = ana.Match("call<*>(load(iaddr($views, bin<+>(ind<+1>(-1), 1))), bin<+>(ind<+"+WS+">("+PS+"), conv<uint64>(bin<+>(ind<+1>(-1), 1))))", t)
			}
			if !ok || bd["$views"].V == nil {
				continue
			}
			vw := bd["$views"]
			vb, m := ana.Match("obj(alt(alloc<[64][]int8>, makeslice<[][]int8>($n64, $n64)), maybe(store(iaddr(self, ind<+1>(0)), slice(load(iaddr($buf, ind<+1>(0))), "+offPat+", none))))", vw)
			if !m {
				continue
			}
			if n64 := vb["$n64"]; n64 != nil && !matches("alt(64, len(slice(alloc<[64][]int8>, 0, none)), len(slice(obj(alloc<[64][]int8>, ...), 0, none)))", n64) {
				continue // the views are made as long as the batch
			}
			root := sb.Root(vw.V)
			nSt, whole := 0, false
			for _, blk := range search.Blocks {
				for _, ins := range blk.Instrs {
					st, isSt := ins.(*ssa.Store)
					if !isSt || sb.Root(st.Addr) != root {
						continue
					}
					nSt++
					for _, l := range rangeLoopsAll(sb) {
						// (the loop ranges over the views or over the equally long batch of lane buffers)
						if l.Blocks[blk] && (wholeBatch(l, vw) || wholeBatch(l, vb["$buf"]) && matches("slice(obj(alloc<[64][]int8>, ...), 0, none)", vb["$buf"])) {
							whole = true
						}
					}
				}
			}
			if nSt == 1 && whole {
				fill = true
				encNonce = cal
			}
		}
	}
	r.Check(fill, "C11.nonce-layout.lane-filling", c.P.Pos(search.Pos()), "lane i of every batch is given nonce base+i, encoded at trit offset EncodedLen(len(digest))")
	if fill {
		idx := "bin<+>(ind<+" + WS + ">(" + PS + "), conv<uint64>(bin<+>(ind<+1>(-1), 1)))"
		r.Check(fillEveryBatch(c, sb, plainEdges(edgesMatching(sb, "raw:"+hitPat)),
			"call<*>(slice(load(iaddr(_, bin<+>(ind<+1>(-1), 1))), "+offPat+", none), "+idx+")",
			"call<*>(load(iaddr(slice(_, 0, none), bin<+>(ind<+1>(-1), 1))), "+idx+")",
			"call<*>(load(iaddr(_, bin<+>(ind<+1>(-1), 1))), "+idx+")"),
			"C11.nonce-layout.lane-filling-every-batch", c.P.Pos(search.Pos()), "the nonce base+i is encoded into every lane on every trip of the mining loop: no path from the entry, or from one lane test to the next, reaches the lane test without passing the filling loop")
	}
	absorbOK, copyOK, resetOK := false, false, false
	var absorb, cpy ssa.CallInstruction
	for _, ci := range ana.Calls(search) {
		switch ana.CalleeName(ci.Common()) {
		case "(*github.com/iotaledger/iota.go/curl/bct.Curl).Absorb":
			t := sb.CallTermAt(ci)
			absorbOK = t.Arg(2).IsInt(243)
			absorb = ci
		case "(*github.com/iotaledger/iota.go/curl/bct.Curl).CopyState":
			cpy = ci
		case "(*github.com/iotaledger/iota.go/curl/bct.Curl).Reset":
			if absorb == nil {
				resetOK = true
			}
		}
	}
	if absorb != nil && cpy != nil {
		copyOK = ana.InstrDominates(absorb, cpy)
		for _, ci := range ana.Calls(search) {
			if ana.StaticRepoCallee(ci.Common()) == lane {
				copyOK = copyOK && ana.InstrDominates(cpy, ci)
				// the lane test reads the arrays CopyState filled
				lt := sb.CallTermAt(ci)
				ct := sb.CallTermAt(cpy)
				copyOK = copyOK && stripObj(lt.Arg(0)).V == sb.Root(cpy.Common().Args[1]) && stripObj(lt.Arg(1)).V == sb.Root(cpy.Common().Args[2])
				_ = ct
			}
		}
	}
	r.Check(absorbOK && copyOK && resetOK, "C11.lane-test.state-flow", c.P.Pos(search.Pos()), "per batch: Reset, Absorb(buf, 243), CopyState(l, h), then the lane test on those l, h (absorb=%v copy=%v reset=%v)", absorbOK, copyOK, resetOK)

	// ---- sibling layout Score <-> worker
	var tz *ssa.Function
	if okScore {
		tz = calleeOf(sbd["$z"])
	}
	if tz == nil {
		r.Undec("C11.nonce-layout.sibling", c.P.Pos(sc.Pos()), "trailing-zero routine of Score not found")
	} else {
		r.Fn(ana.ShortFunc(tz))
		// Score's arguments: digest of msg[:len-8] with pow.Hash, nonce = LittleEndian.Uint64(msg[len-8:])
		args := sbd["$z"]
		_, okD := ana.Match("call<(hash.Hash).Sum>(obj(call<(crypto.Hash).New>(load(global<repo/pkg/pow.Hash>)), call<(hash.Hash).Write>(self, slice(p0, 0, bin<->(len(p0), 8)))), nil)", args.Arg(0))
		_, okN := ana.Match("call<(encoding/binary.littleEndian).Uint64>(load(global<encoding/binary.LittleEndian>), slice(p0, bin<->(len(p0), 8), none))", args.Arg(1))
		// … or those 8 bytes handed on as they are: b1t6 of them is b1t6 of the little-endian bytes of that uint64
		_, rawN := ana.Match("slice(p0, bin<->(len(p0), 8), none)", args.Arg(1))
		okN = okN || rawN
		r.Check(okD && okN, "C11.nonce-layout.score-inputs", c.P.Pos(sc.Pos()), "Score: digest = pow.Hash(msg[:len-8]); nonce = little-endian uint64 of the last 8 bytes")
		// Mine's digest: pow.Hash over data
		mOK := false
		digPat := "call<(hash.Hash).Sum>(obj(call<(crypto.Hash).New>(load(global<repo/pkg/pow.Hash>)), call<(hash.Hash).Write>(self, p2)), nil)"
		for _, ci := range ana.Calls(fn) {
			if ana.CalleeName(ci.Common()) == "(hash.Hash).Sum" {
				_, mOK = ana.Match(digPat, b.CallTermAt(ci))
			}
		}
		if !mOK {
			// the digest may be computed by a helper shared with Score: some variable of Mine holds exactly this term
			for _, blk := range fn.Blocks {
				for _, ins := range blk.Instrs {
					if st, ok := ins.(*ssa.Store); ok {
						if _, m := ana.Match(digPat, b.Of(st.Val, st)); m {
							mOK = true
						}
					}
				}
			}
		}
		r.Check(mOK, "C11.nonce-layout.mine-digest", c.P.Pos(fn.Pos()), "Mine: digest = pow.Hash(data), the same hash function value as Score")
		tb := ana.NewBuilder(c.P, tz)
		for _, e := range ana.Exits(tz) {
			if e.Panic {
				continue
			}
			t := tb.Of(e.Results[0], e.Instr)
			want := "call<github.com/iotaledger/iota.go/trinary.TrailingZeros>(ext#0(call<*>(obj(call<github.com/iotaledger/iota.go/curl.NewCurlP81>, call<*>(self, slice(obj(alloc<[243]int8>, call<github.com/iotaledger/iota.go/encoding/b1t6.Encode>(slice(self, 0, 243), p0), call<*>(slice(slice(self, 0, 243), call<github.com/iotaledger/iota.go/encoding/b1t6.Encode>(_, p0), none), alt(p1, slice(p1, 0, 8)))), 0, 243))), 243)))"
			_, ok := ana.Match(want, t)
			var enc2 *ssa.Function
			w, _ := ana.Find("call<*>(slice(slice(self, 0, 243), _, none), alt(p1, slice(p1, 0, 8)))", t)
			if w != nil {
				enc2 = calleeOf(w)
			}
			sameEnc := enc2 != nil && enc2 == encNonce
			if rawN {
				// the raw bytes go straight to b1t6.Encode — what the worker's encoder (decided below) does with the
				// little-endian bytes of the nonce
				sameEnc = w != nil && w.Is("call", "github.com/iotaledger/iota.go/encoding/b1t6.Encode")
			}
			r.Check(ok && sameEnc, "C11.nonce-layout.sibling", c.ipos(e.Instr), "Score's block = b1t6(digest) at trit 0, then the same nonce encoder the worker uses at the offset b1t6.Encode returned (= EncodedLen(len(digest))), absorbed by Curl-P-81, 243 trits squeezed %s", ana.Explain(want, t))
		}
		if encNonce != nil {
			r.Fn(ana.ShortFunc(encNonce))
			eb := ana.NewBuilder(c.P, encNonce)
			okE := false
			for _, ci := range ana.CallsTo(encNonce, "github.com/iotaledger/iota.go/encoding/b1t6.Encode") {
				_, okE = ana.Match("call<*>(p0, slice(obj(alloc<[8]byte>, call<(encoding/binary.littleEndian).PutUint64>(load(global<encoding/binary.LittleEndian>), slice(self, 0, 8), p1)), 0, none))", eb.CallTermAt(ci))
				if !okE {
					// the same eight bytes stored by a loop, least significant first: buf[i] = byte(nonce >> 8i), i = 0..7
					_, okL := ana.Match("call<*>(p0, slice(obj(alloc<[8]byte>, maybe(store(iaddr(self, ind<+1>(0)), conv<byte>(bin<>>>(p1, bin<*>(alt(ind<+1>(0), conv<uint>(ind<+1>(0)), conv<uint64>(ind<+1>(0))), 8)))))), 0, none))", eb.CallTermAt(ci))
					done := plainEdges(edgesMatching(eb, "bin<>=>(ind<+1>(0), 8)"))
					okE = okL && len(done) == 1 && mustPass(encNonce, ci.Block(), done) && len(ana.BackEdges(encNonce)) == 1
				}
			}
			r.Check(okE, "C11.nonce-layout.encode-nonce", c.P.Pos(encNonce.Pos()), "nonce encoder = b1t6 of the 8 little-endian bytes (48 trits)")
		}
	}
	// Hash global single writer / value
	init, w, g := c.globalInit("pkg/pow", "Hash")
	r.Check(init != nil && w == 1 && init.IsInt(int64(crypto.BLAKE2b_256)), "C11.nonce-layout.hash-function", c.P.Pos(g.Pos()), "pow.Hash is initialised once (crypto.BLAKE2b_256 = %s) and not written by the package", init)

	// bct encoding: out = h - l (dependency, read-only)
	if of := c.P.Func("github.com/iotaledger/iota.go/curl/bct", "Curl.out"); of != nil {
		ob := ana.NewBuilder(c.P, of)
		ok := false
		for _, blk := range of.Blocks {
			for _, ins := range blk.Instrs {
				if st, isSt := ins.(*ssa.Store); isSt {
					t := ob.Of(st.Val, st)
					if _, m := ana.Match("bin<->(conv<int8>(bin<&>(bin<>>>(load(iaddr(faddr<h>(p0), $i)), $x), 1)), conv<int8>(bin<&>(bin<>>>(load(iaddr(faddr<l>(p0), $i)), $x), 1)))", t); m {
						ok = true
					}
				}
			}
		}
		r.Check(ok, "C11.lane-test.bct-encoding", c.P.Pos(of.Pos()), "dependency bct.Curl: trit = h-bit − l-bit, so for state words l^h == 0 in a lane iff that trit is zero (for the valid encodings (1,1),(0,1),(1,0))")
	} else {
		r.Undec("C11.lane-test.bct-encoding", "", "iota.go bct.Curl.out not loaded")
	}
}

func isFloat(t interface{ String() string }) bool {
	s := t.String()
	return s == "float64" || s == "float32"
}

// singleStoreTo returns the only store to a cell, or nil.
func singleStoreTo(a *ssa.Alloc) *ssa.Store {
	var st *ssa.Store
	for _, ref := range *a.Referrers() {
		if s, ok := ref.(*ssa.Store); ok && s.Addr == ssa.Value(a) {
			if st != nil {
				return nil
			}
			st = s
		}
	}
	return st
}

// searchParam names ("pK") the first parameter of fn with the given type; "p?" (matching nothing) when there is none.
func searchParam(fn *ssa.Function, typ string) string {
	for i, p := range fn.Params {
		if p.Type().String() == typ {
			return "p" + itoa(int64(i))
		}
	}
	return "p99"
}
