package props

import (
	"fmt"
	"go/types"
	"sort"

	"golang.org/x/tools/go/ssa"

	"verif/checker/internal/ana"
	"verif/checker/internal/bitdom"
)

// C16 — Bech32 checksum detects every error of up to four characters.

func init() {
	register(&Prop{
		ID:    "C16",
		Level: "other",
		Explanation: "The per-symbol step of the checksum routine is extracted from the source as a GF(2)-linear map M:(chk[0..29], v) -> chk' in the bit-level ANF domain (symbolic state injected at the loop header, inner generator loop unrolled over the constant table, the data-dependent XOR gated) and compared bit for bit with the BIP-173 step; " +
			"HRP expansion is decided for every length 1..83; the verify routine is polymod(expand(hrp) ‖ data)==1 and gates every success return of Decode, which also enforces the 90-character limit the distance argument needs. " +
			"On the extracted M the checker computes the syndromes of all weight-1 and weight-2 error patterns over the last 89 positions and shows them non-zero and pairwise distinct, which is equivalent to minimum distance >= 5 there (a decision on the extracted map, exhaustive over patterns; no repository code is run).",
		Run: runC16,
	})
}

type c16Fns struct {
	verify, polymod, expand, create *ssa.Function
}

func c16Resolve(c *Ctx, px string) *c16Fns {
	r := c.R
	dec := c.P.Func("pkg/bech32", "Decode")
	if dec == nil {
		r.Undec(px+".anchor.Decode", "", "Decode not found")
		return nil
	}
	b := ana.NewBuilder(c.P, dec)
	out := &c16Fns{}
	hl := `call<strings.LastIndex>(p0, "1")`
	lower := "call<strings.ToLower>(p0)"
	// the two parts of the lower-cased string, or each part lower-cased on its own (the string is ASCII there:
	// C04.ascii-before-fold.*, so folding preserves positions)
	hrpLow := "alt(slice(" + lower + ", 0, " + hl + "), call<strings.ToLower>(slice(p0, 0, " + hl + ")))"
	charsLow := "alt(slice(" + lower + ", bin<+>(" + hl + ", 1), none), call<strings.ToLower>(slice(p0, bin<+>(" + hl + ", 1), none)))"
	data := "ext#0(call<*>(load(global<repo/pkg/bech32.charset>), " + charsLow + "))"
	vpat := "call<*>(" + hrpLow + ", " + data + ")"
	for _, ce := range deepEdges(c, b) {
		if !ce.Taken || out.verify != nil {
			continue
		}
		if _, ok := ana.Match(vpat, ce.Lit); ok {
			out.verify = calleeOf(ce.Lit)
			// gate on every success return (in Decode or through the helper that verifies)
			for _, e := range ana.Exits(dec) {
				if !e.Panic && b.Of(e.Results[2], e.Instr).Is("nil") {
					// the gate must be this routine (the one decided below), not any call with the same arguments
					spec := "call<" + out.verify.String() + ">(" + hrpLow + ", " + data + ")"
					r.Check(c.passes(b, e.Instr.Block(), spec), px+".verify-gate.decode", c.ipos(e.Instr), "every success return of Decode passes verify(lower hrp, all decoded symbols incl. the last six) == true")
				}
			}
		}
	}
	if out.verify == nil {
		// the verification written out at the gate: polymod(expand(hrp) ‖ data) == 1
		ipat := "bin<==>(call<*>(concat(call<*>(" + hrpLow + "), " + data + ")), 1)"
		for _, ce := range deepEdges(c, b) {
			if _, ok := ana.Match(ipat, ce.Lit); !ok || out.polymod != nil {
				continue
			}
			out.polymod = calleeOf(ce.Lit.Arg(0))
			out.expand = calleeOf(ce.Lit.Arg(0).Arg(0).Arg(0))
			for _, e := range ana.Exits(dec) {
				if !e.Panic && b.Of(e.Results[2], e.Instr).Is("nil") {
					r.Check(c.passes(b, e.Instr.Block(), ipat), px+".verify-gate.decode", c.ipos(e.Instr), "every success return of Decode passes polymod(expand(lower hrp) ‖ all decoded symbols incl. the last six) == 1")
				}
			}
			r.OK(px+".verify-gate.term", c.P.Pos(ce.Pos()), "verification = (polymod(expand(hrp) ‖ data) == 1) and nothing else, written at the gate")
		}
		if out.polymod == nil || out.expand == nil {
			r.Undec(px+".verify-gate.decode", c.P.Pos(dec.Pos()), "no checksum verification over (lower-cased hrp, all data symbols) gates Decode")
			return nil
		}
	}
	var verifyExits []ana.Exit
	if out.verify != nil {
		r.Fn(ana.ShortFunc(out.verify))
		verifyExits = ana.Exits(out.verify)
	}
	vb := ana.NewBuilder(c.P, out.verify)
	for _, e := range verifyExits {
		if e.Panic {
			r.Viol(px+".verify-gate.term", c.ipos(e.Instr), "panic in verify")
			continue
		}
		t := vb.Of(e.Results[0], e.Instr)
		_, ok := ana.Match("bin<==>(call<*>(concat(alt(call<*>(p0), call<*>(p0, _)), p1)), 1)", t)
		// the same with a polymod that takes the running state and is fed the parts one after the other (a left fold,
		// C16.polymod-linear.*): polymod(polymod(1, expand(hrp)), data)
		_, okS := ana.Match("bin<==>(call<*>(call<*>(1, call<*>(p0)), p1), 1)", t)
		okS = okS && !ok && calleeOf(t.Arg(0)) != nil && calleeOf(t.Arg(0)) == calleeOf(t.Arg(0).Arg(0))
		r.Check(ok || okS, px+".verify-gate.term", c.ipos(e.Instr), "verify(hrp, data) = (polymod(expand(hrp) ‖ data) == 1) and nothing else: %s", short(t.String(), 260))
		if ok {
			out.polymod = calleeOf(t.Arg(0))
			out.expand = calleeOf(t.Arg(0).Arg(0).Arg(0))
		}
		if okS {
			out.polymod = calleeOf(t.Arg(0))
			out.expand = calleeOf(t.Arg(0).Arg(0).Arg(1))
		}
	}
	if out.polymod == nil || out.expand == nil {
		return nil
	}
	r.Fn(ana.ShortFunc(out.polymod))
	r.Fn(ana.ShortFunc(out.expand))
	// max length gate (premise of the distance argument)
	maxEdges := edgesMatching(b, "bin<<=>(len(p0), 90)")
	for _, e := range ana.Exits(dec) {
		if !e.Panic && b.Of(e.Results[2], e.Instr).Is("nil") {
			r.Check(len(maxEdges) > 0 && exitMustPass(dec, e, plainEdges(maxEdges)), px+".distance.length-limit", c.ipos(e.Instr), "Decode accepts only strings of at most 90 characters (the BCH code guarantees distance 5 only up to length 89 of expanded low part + data)")
		}
	}
	return out
}

func runC16(c *Ctx) {
	r := c.R
	r.Rule("C16.polymod-linear", "one iteration of the polymod loop is the GF(2)-linear map chk' = (chk & 0x1ffffff)<<5 ^ v ^ XOR_i gen_i·bit(25+i of chk) with the five BIP-173 generator words; bits >= 30 stay zero; the state starts at 1 and the final state is returned")
	r.Rule("C16.expand", "HRP expansion = [x>>5 for x in hrp] ‖ [0] ‖ [x&31 for x in hrp], for every length 1..83")
	r.Rule("C16.verify-gate", "verify = polymod(expand(hrp) ‖ data) == 1; it gates every success return of Decode; createChecksum = polymod(expand(hrp) ‖ data ‖ 0^6) ^ 1 cut into six 5-bit digits, most significant first, using the same routines")
	r.Rule("C16.distance", "on the extracted step map: syndromes of all error patterns of weight 1 and 2 over the last 89 symbol positions (31 non-zero differences each) are non-zero and pairwise distinct ⇒ every pattern of weight <= 4 there has a non-zero syndrome; same-kind HRP substitutions leave x>>5 unchanged")
	r.Assume("semantics of Go's integer bit operators as modelled by the ANF domain")

	// the distance argument is about strings Decode accepts as a whole: which strings reach the checksum test (case rule
	// over the whole string, character sets, lengths) is the statement of C04, whose obligations are decided here too
	r.Rule("C16.decode", "the obligations of C04 hold for Decode (a substitution that changes the case of part of the string must be rejected before the checksum is consulted)")
	reKey(c, "C04.", "C16.decode.", func() { runC04(c) })
	fns := c16Resolve(c, "C16")
	if fns == nil {
		return
	}
	pureScan(c, "C16.pure.no-package-state", c.P.Func("pkg/bech32", "Decode"), c.P.Func("pkg/bech32", "Encode"))
	M := c16Polymod(c, fns.polymod)
	c16Expand(c, fns.expand)
	c16Create(c, fns)
	if M != nil {
		c16Distance(c, M)
	}
}

// stepMap is the extracted linear step: column images for each input bit.
type stepMap struct {
	chkCol [30]uint32 // image of chk bit i
	vCol   [8]uint32  // image of v bit j
}

// expandArgs: the HRP expansion is handed the prefix; an extra integer parameter is a capacity hint (decided by its
// use: engine B runs the routine with 0 and the result must not depend on it — C16.expand.* compares the output).
func expandArgs(c *Ctx, fn *ssa.Function, s bitdom.Val) []bitdom.Val {
	args := []bitdom.Val{s}
	for i := 1; i < len(fn.Params); i++ {
		args = append(args, bitdom.ConstBV(0, c.wordBits(), true))
	}
	return args
}

// polymodArgs: the arguments that make the polymod routine run over vals from the initial state — vals alone, or
// (1, vals) for a routine that takes the running state first.
func polymodArgs(c *Ctx, fn *ssa.Function, vals bitdom.Val) []bitdom.Val {
	if len(fn.Params) == 2 {
		signed := true
		if bt, ok := fn.Params[0].Type().Underlying().(*types.Basic); ok && bt.Info()&types.IsUnsigned != 0 {
			signed = false
		}
		return []bitdom.Val{bitdom.ConstBV(1, c.wordBits(), signed), vals}
	}
	return []bitdom.Val{vals}
}

func c16Polymod(c *Ctx, fn *ssa.Function) *stepMap {
	r := c.R
	in := bitdom.New(c.P.SSA, c.wordBits())
	var chkPhi *ssa.Phi
	var chkSym *bitdom.BV
	W, signed := c.wordBits(), true
	in.PhiHook = func(phi *ssa.Phi, visit int) (bitdom.Val, bool) {
		if phi.Parent() != fn {
			return nil, false
		}
		if !isIntPhi(phi) || isInductionPhi(phi) {
			return nil, false
		}
		if chkPhi == nil {
			chkPhi = phi
		}
		if phi != chkPhi {
			return nil, false
		}
		if visit == 1 {
			// the state variable may be an int or a fixed-width integer wide enough for 30 bits
			W, signed = c.wordBits(), true
			if bt, ok := phi.Type().Underlying().(*types.Basic); ok {
				signed = bt.Info()&types.IsUnsigned == 0
				switch bt.Kind() {
				case types.Int32, types.Uint32:
					W = 32
				case types.Int64, types.Uint64:
					W = 64
				}
			}
			chkSym = in.SymBV("chk", W, 30, signed)
			return chkSym, false
		}
		return nil, true
	}
	vals := in.SymSlice("v", 1, 8, 8, false)
	// a polymod handed the running state: (state, values); the state a call starts from is decided at the calls
	stream := len(fn.Params) == 2
	vi := len(fn.Params) - 1
	_, err := in.Call(fn, polymodArgs(c, fn, vals))
	if chkPhi == nil || chkSym == nil {
		r.Undec("C16.polymod-linear.extract", c.P.Pos(fn.Pos()), "no loop-carried checksum state found in the polymod routine (%v)", err)
		return nil
	}
	cap := in.Captured[chkPhi]
	if len(cap) == 0 {
		r.Undec("C16.polymod-linear.extract", c.P.Pos(fn.Pos()), "one-iteration transfer not extractable: %v", err)
		return nil
	}
	next, ok := cap[0].(*bitdom.BV)
	if !ok {
		r.Undec("C16.polymod-linear.extract", c.P.Pos(fn.Pos()), "next state is not a bit-vector: %T", cap[0])
		return nil
	}
	// expected BIP-173 step on the same variables
	v := vals.A.Elems[0].(*bitdom.BV)
	exp := make([]bitdom.Poly, W)
	for i := range exp {
		exp[i] = bitdom.Zero()
	}
	for i := 0; i < 25; i++ {
		exp[i+5] = chkSym.Bits[i]
	}
	for j := 0; j < 8; j++ {
		exp[j] = bitdom.Xor(exp[j], v.Bits[j])
	}
	for i, g := range bip173Gen {
		top := chkSym.Bits[25+i]
		for k := 0; k < 30; k++ {
			if g>>uint(k)&1 == 1 {
				exp[k] = bitdom.Xor(exp[k], top)
			}
		}
	}
	good := true
	detail := ""
	if len(next.Bits) != W {
		r.Undec("C16.polymod-linear.extract", c.P.Pos(fn.Pos()), "next state has %d bits, the state variable %d", len(next.Bits), W)
		return nil
	}
	for k := 0; k < W; k++ {
		if !bitdom.Equal(next.Bits[k], exp[k]) {
			good = false
			if detail == "" {
				detail = fmt.Sprintf("bit %d: source gives %s, BIP-173 gives %s", k, next.Bits[k].Format(in.Name), exp[k].Format(in.Name))
			}
		}
		if next.Bits[k].Degree() > 1 {
			good = false
			if detail == "" {
				detail = fmt.Sprintf("bit %d is not linear", k)
			}
		}
	}
	r.Check(good, "C16.polymod-linear.step", c.P.Pos(fn.Pos()), "extracted step map equals the BIP-173 step on all 64 state bits (bits >= 30 constant zero) %s", detail)
	// initial value and returned value
	initOK := false
	for i, e := range chkPhi.Edges {
		if chkPhi.Block().Preds[i].Index < chkPhi.Block().Index {
			if cst, ok := e.(*ssa.Const); ok && cst.Value != nil && cst.Value.ExactString() == "1" {
				initOK = true
			}
		}
	}
	if stream {
		// the loop starts from the state parameter; every call in the package hands it the literal 1 or the result of
		// another call of this routine, so every chain of calls starts at 1
		for i, e := range chkPhi.Edges {
			if chkPhi.Block().Preds[i].Index < chkPhi.Block().Index && e == ssa.Value(fn.Params[0]) {
				initOK = true
			}
		}
		nCalls := 0
		for _, g := range c.P.RepoFuncs("pkg/bech32") {
			for _, ci := range ana.Calls(g) {
				if ci.Common().StaticCallee() != fn {
					continue
				}
				nCalls++
				switch a := ci.Common().Args[0].(type) {
				case *ssa.Const:
					initOK = initOK && a.Value != nil && a.Value.ExactString() == "1"
				case *ssa.Call:
					initOK = initOK && a.Call.StaticCallee() == fn
				default:
					initOK = false
				}
			}
		}
		initOK = initOK && nCalls > 0
	}
	r.Check(initOK, "C16.polymod-linear.initial-state", c.P.Pos(fn.Pos()), "checksum state starts at 1")
	retOK := false
	for _, e := range ana.Exits(fn) {
		if !e.Panic && len(e.Results) == 1 && e.Results[0] == ssa.Value(chkPhi) {
			retOK = true
		}
	}
	r.Check(retOK, "C16.polymod-linear.returns-state", c.P.Pos(fn.Pos()), "the routine returns the loop-carried state after the last symbol")
	// the loop ranges over the whole argument
	b := ana.NewBuilder(c.P, fn)
	whole := false
	for _, l := range rangeLoops(b) {
		if l.Coll.IsParam(vi) {
			whole = true
		}
	}
	r.Check(whole, "C16.polymod-linear.all-symbols", c.P.Pos(fn.Pos()), "the loop ranges over every element of the argument")
	// generator table single writer
	if w, g := c.writesOutsideInit("pkg/bech32", "gen"); g != nil {
		r.Check(w == 0, "C16.polymod-linear.gen-single-writer", c.P.Pos(g.Pos()), "the generator table (slice or array) is written by the package initialiser only: %d other writes", w)
	}
	if !good {
		return nil
	}
	// extract matrix columns from the (linear) polynomials
	m := &stepMap{}
	id := func(p bitdom.Poly) int { s := p.Support(); return s[0] }
	for k := 0; k < 30; k++ {
		for mono := range next.Bits[k] {
			vs := mono.Vars()
			if len(vs) != 1 {
				continue
			}
			for i := 0; i < 30; i++ {
				if vs[0] == id(chkSym.Bits[i]) {
					m.chkCol[i] |= 1 << uint(k)
				}
			}
			for j := 0; j < 8; j++ {
				if vs[0] == id(v.Bits[j]) {
					m.vCol[j] |= 1 << uint(k)
				}
			}
		}
	}
	return m
}

func isIntPhi(p *ssa.Phi) bool {
	return p.Type().Underlying().String() == "int" || p.Type().Underlying().String() == "uint32" || p.Type().Underlying().String() == "uint64" || p.Type().Underlying().String() == "uint"
}

func isInductionPhi(p *ssa.Phi) bool {
	for _, e := range p.Edges {
		if bo, ok := e.(*ssa.BinOp); ok && bo.X == ssa.Value(p) {
			if _, isC := bo.Y.(*ssa.Const); isC && (bo.Op.String() == "+" || bo.Op.String() == "-") {
				return true
			}
		}
	}
	return false
}

func c16Expand(c *Ctx, fn *ssa.Function) {
	r := c.R
	bad := 0
	first := ""
	for n := 0; n <= 83; n++ {
		in := bitdom.New(c.P.SSA, c.wordBits())
		s := in.SymSlice("hrp", n, 8, 8, true)
		ex, err := in.Call(fn, expandArgs(c, fn, s))
		if err != nil || ex.Panic {
			bad++
			if first == "" {
				first = fmt.Sprintf("n=%d: %v", n, err)
			}
			continue
		}
		res, ok := ex.Results[0].(*bitdom.Slice)
		if !ok || res.Len != 2*n+1 {
			bad++
			if first == "" {
				first = fmt.Sprintf("n=%d: result length %v", n, res)
			}
			continue
		}
		for i := 0; i < 2*n+1; i++ {
			got := res.A.Elems[res.Off+i].(*bitdom.BV)
			var want *bitdom.BV
			switch {
			case i < n:
				want = bitdom.BVShr(s.A.Elems[i].(*bitdom.BV), 5)
			case i == n:
				want = bitdom.ConstBV(0, 8, false)
			default:
				want = bitdom.BVAnd(s.A.Elems[i-n-1].(*bitdom.BV), bitdom.ConstBV(31, 8, false))
			}
			for k := 0; k < 8; k++ {
				if !bitdom.Equal(got.Bits[k], want.Bits[k]) {
					bad++
					if first == "" {
						first = fmt.Sprintf("n=%d element %d bit %d", n, i, k)
					}
				}
			}
		}
	}
	r.Check(bad == 0, "C16.expand.all-lengths", c.P.Pos(fn.Pos()), "HRP expansion decided for lengths 0..83 in the ANF domain: high parts, separator 0, low parts %s", first)
}

func c16Create(c *Ctx, fns *c16Fns) {
	r := c.R
	enc := c.P.Func("pkg/bech32", "Encode")
	if enc == nil {
		return
	}
	// find the checksum creation helper: a repo callee of Encode (other than those already known) that calls polymod
	var scan func(from *ssa.Function, depth int)
	scan = func(from *ssa.Function, depth int) {
		for _, ci := range ana.Calls(from) {
			cal := ana.StaticRepoCallee(ci.Common())
			if cal == nil || cal == fns.verify || cal == from || cal.Blocks == nil {
				continue
			}
			direct := false
			for _, cj := range ana.Calls(cal) {
				if ana.StaticRepoCallee(cj.Common()) == fns.polymod {
					direct = true
				}
			}
			if direct {
				fns.create = cal
			} else if depth < 1 && cal.Pkg == enc.Pkg {
				scan(cal, depth+1) // Encode's data-part assembly moved into a helper
			}
		}
	}
	scan(enc, 0)
	if fns.create == nil {
		r.Undec("C16.verify-gate.create", c.P.Pos(enc.Pos()), "checksum creation routine (a callee of Encode using the same polymod) not found")
		return
	}
	r.Fn(ana.ShortFunc(fns.create))
	usesExpand := false
	for _, cj := range ana.Calls(fns.create) {
		if ana.StaticRepoCallee(cj.Common()) == fns.expand {
			usesExpand = true
		}
	}
	r.Check(usesExpand, "C16.verify-gate.create-siblings", c.P.Pos(fns.create.Pos()), "createChecksum and verify share the polymod and expansion routines")
	// decide the digits in the ANF domain for a small instance: hrp of 2 symbolic chars, 3 symbolic data symbols;
	// result digits must make verify's polymod equal 1: checked by composing with the extracted routines symbolically
	in := bitdom.New(c.P.SSA, c.wordBits())
	hrp := in.SymSlice("hrp", 2, 8, 8, true)
	data := in.SymSlice("d", 3, 8, 5, false)
	ex, err := in.Call(fns.create, []bitdom.Val{hrp, data})
	if err != nil || ex.Panic {
		r.Undec("C16.verify-gate.create-term", c.P.Pos(fns.create.Pos()), "checksum creation not decidable in the ANF domain: %v", err)
		return
	}
	chk, ok := ex.Results[0].(*bitdom.Slice)
	if !ok || chk.Len != 6 {
		r.Viol("C16.verify-gate.create-term", c.P.Pos(fns.create.Pos()), "creation does not return six symbols")
		return
	}
	// expected: polymod(expand ‖ data ‖ 0^6) ^ 1, digit i = bits 5(5-i)..5(5-i)+4
	in2 := in
	ex2, err := in2.Call(fns.expand, expandArgs(c, fns.expand, hrp))
	if err != nil {
		r.Undec("C16.verify-gate.create-term", "", "expand: %v", err)
		return
	}
	exp := ex2.Results[0].(*bitdom.Slice)
	arr := &bitdom.Array{}
	for i := 0; i < exp.Len; i++ {
		arr.Elems = append(arr.Elems, exp.A.Elems[exp.Off+i])
	}
	for i := 0; i < data.Len; i++ {
		arr.Elems = append(arr.Elems, data.A.Elems[i])
	}
	for i := 0; i < 6; i++ {
		arr.Elems = append(arr.Elems, bitdom.ConstBV(0, 8, false))
	}
	ex3, err := in2.Call(fns.polymod, polymodArgs(c, fns.polymod, &bitdom.Slice{A: arr, Len: len(arr.Elems), Cap: len(arr.Elems)}))
	if err != nil {
		r.Undec("C16.verify-gate.create-term", "", "polymod: %v", err)
		return
	}
	pm := bitdom.BVXor(ex3.Results[0].(*bitdom.BV), bitdom.ConstBV(1, c.wordBits(), true))
	good := true
	for i := 0; i < 6; i++ {
		d := chk.A.Elems[chk.Off+i].(*bitdom.BV)
		for k := 0; k < 8; k++ {
			want := bitdom.Zero()
			if k < 5 {
				want = pm.Bits[5*(5-i)+k]
			}
			if !bitdom.Equal(d.Bits[k], want) {
				good = false
			}
		}
	}
	r.Check(good, "C16.verify-gate.create-term", c.P.Pos(fns.create.Pos()), "checksum digits = (polymod(expand(hrp) ‖ data ‖ 0^6) ^ 1) cut into six 5-bit digits, most significant first (decided symbolically for |hrp|=2, |data|=3; the routine has no length-dependent branch other than its loops)")
}

func (m *stepMap) applyA(s uint32) uint32 {
	var o uint32
	for i := 0; i < 30; i++ {
		if s>>uint(i)&1 == 1 {
			o ^= m.chkCol[i]
		}
	}
	return o
}

func c16Distance(c *Ctx, m *stepMap) {
	r := c.R
	const positions = 89
	// syndrome of difference e (5 bits) at position j from the end: A^j · B · e
	var base [32]uint32
	for e := 1; e < 32; e++ {
		var s uint32
		for j := 0; j < 5; j++ {
			if e>>uint(j)&1 == 1 {
				s ^= m.vCol[j]
			}
		}
		base[e] = s
	}
	syn := make([][32]uint32, positions)
	for e := 1; e < 32; e++ {
		s := base[e]
		for j := 0; j < positions; j++ {
			syn[j][e] = s
			s = m.applyA(s)
		}
	}
	all := make([]uint32, 0, positions*31+positions*(positions-1)/2*31*31)
	zero := 0
	for j := 0; j < positions; j++ {
		for e := 1; e < 32; e++ {
			all = append(all, syn[j][e])
			if syn[j][e] == 0 {
				zero++
			}
		}
	}
	w1 := len(all)
	for j1 := 0; j1 < positions; j1++ {
		for j2 := j1 + 1; j2 < positions; j2++ {
			for e1 := 1; e1 < 32; e1++ {
				for e2 := 1; e2 < 32; e2++ {
					s := syn[j1][e1] ^ syn[j2][e2]
					all = append(all, s)
					if s == 0 {
						zero++
					}
				}
			}
		}
	}
	sort.Slice(all, func(i, j int) bool { return all[i] < all[j] })
	dup := 0
	for i := 1; i < len(all); i++ {
		if all[i] == all[i-1] {
			dup++
		}
	}
	r.Check(zero == 0 && dup == 0, "C16.distance.weight-le-4", "", "%d weight-1 and %d weight-2 syndromes over the last %d positions computed on the extracted step map: %d zero, %d coincidences (0/0 ⇔ no pattern of weight <= 4 has a zero syndrome)", w1, len(all)-w1, positions, zero, dup)
	r.Extra["syndromes_enumerated"] = len(all)
	// same-kind substitutions keep the high part
	okKind := true
	for _, rng := range [][2]byte{{'a', 'z'}, {'A', 'Z'}, {'0', '9'}} {
		for ch := rng[0]; ch <= rng[1]; ch++ {
			if ch>>5 != rng[0]>>5 {
				okKind = false
			}
		}
	}
	r.Check(okKind, "C16.distance.same-kind-high-part", "", "letters of one case share x>>5, digits share x>>5: a same-kind HRP substitution changes only the low-part symbol, which lies in the contiguous tail covered above")
}
