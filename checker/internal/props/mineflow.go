package props

import (
	"go/token"

	"golang.org/x/tools/go/ssa"

	"verif/checker/internal/ana"
)

// mineResultFlow decides the provenance of the nonce a successful Mine
// returns: it is received from a channel made by this very call (a cell of
// Mine with a single store of a make(chan)), the channel is used for nothing
// but close / len / cap / receive in Mine and sends in Mine's closures, and
// every value sent on it is the first result of a call of the search routine
// whose digest argument is a variable of this call holding digestPat (a term
// over Mine's parameters). A channel, digest or result kept on the Worker or
// in a package-level variable lets an earlier call's nonce answer a later
// message.
func mineResultFlow(c *Ctx, prefix string, mine, search *ssa.Function, digestPat string) {
	r := c.R
	key := prefix + ".result-flow"
	b := ana.NewBuilder(c.P, mine)
	pos := c.P.Pos(mine.Pos())

	// 1. the result channel
	var cell *ssa.Alloc
	nRecv := 0
	for _, e := range ana.Exits(mine) {
		if e.Panic || len(e.Results) != 2 || !b.Of(e.Results[1], e.Instr).Is("nil") {
			continue
		}
		vt := b.Of(e.Results[0], e.Instr)
		if vt.C != nil {
			continue // constant results (the zero-target shortcut) are decided by their own rules
		}
		bd, ok := ana.MatchAny(vt, "ext#0(un<<->(load($ch)))", "un<<->(load($ch))")
		if !ok {
			r.Viol(key+".received", c.ipos(e.Instr), "a successful Mine returns something other than a value received from its result channel: %s", short(vt.String(), 200))
			continue
		}
		a, isCell := stripObj(bd["$ch"]).V.(*ssa.Alloc)
		if !isCell || a.Parent() != mine || (cell != nil && a != cell) {
			r.Viol(key+".per-call-channel", c.ipos(e.Instr), "the returned nonce is received from %s, which is not a channel variable of this call (a channel on the Worker or in a package variable carries nonces of earlier calls)", short(bd["$ch"].String(), 160))
			continue
		}
		cell = a
		nRecv++
	}
	if cell == nil {
		r.Check(false, key+".per-call-channel", pos, "no successful exit of Mine receives from a per-call result channel")
		return
	}
	nStore := 0
	made := false
	for _, ref := range *cell.Referrers() {
		if st, ok := ref.(*ssa.Store); ok && st.Addr == ssa.Value(cell) {
			nStore++
			_, made = st.Val.(*ssa.MakeChan)
		}
	}
	r.Check(nStore == 1 && made && nRecv >= 1, key+".per-call-channel", c.P.Pos(cell.Pos()), "the result channel is a variable of Mine assigned once, from make(chan) executed by this call (stores %d, receiving exits %d)", nStore, nRecv)

	// 2. every use of the channel
	nSend, bad := 0, 0
	checkSend := func(fn *ssa.Function, fb *ana.Builder, at ssa.Instruction, v ssa.Value, mc *ssa.MakeClosure) {
		nSend++
		t := fb.Of(v, at)
		bd, ok := ana.Match("ext#0($call)", t)
		if !ok || calleeOf(bd["$call"]) != search || len(bd["$call"].Args) < 1 {
			bad++
			r.Viol(key+".sent-value", c.ipos(at), "the value sent on the result channel is not the nonce returned by this goroutine's call of %s: %s", search.Name(), short(t.String(), 200))
			return
		}
		// the digest argument (first non-receiver argument) is this call's digest variable
		args := bd["$call"].Args
		var dig *ana.Term
		for _, a := range args {
			if a.V != nil && a.V.Type().String() == "[]byte" {
				dig = a
				break
			}
		}
		okDig := false
		why := "no []byte argument"
		if dig != nil {
			why = dig.String()
			if fbd, m := ana.MatchAny(dig, "load($fv)", "slice($fv, 0, none)"); m {
				if fv, isFV := fbd["$fv"].V.(*ssa.FreeVar); isFV && mc != nil {
					for i, f := range fn.FreeVars {
						if f != fv {
							continue
						}
						if dc, isCell := mc.Bindings[i].(*ssa.Alloc); isCell && dc.Parent() == mine {
							n := 0
							for _, ref := range *dc.Referrers() {
								if st, isSt := ref.(*ssa.Store); isSt && st.Addr == ssa.Value(dc) {
									n++
									dt := b.Of(st.Val, st)
									_, okDig = ana.Match(digestPat, dt)
									why = dt.String()
								}
							}
							okDig = okDig && n == 1
						}
					}
				}
			}
		}
		if !okDig {
			bad++
		}
		r.Check(okDig, key+".digest-arg", c.ipos(at), "the search that produced the sent nonce ran on this call's digest variable, assigned once from the digest of this call's data (%s)", short(why, 160))
	}
	useOfChan := func(fn *ssa.Function, fb *ana.Builder, ld *ssa.UnOp, mc *ssa.MakeClosure) {
		for _, u := range *ld.Referrers() {
			switch x := u.(type) {
			case *ssa.UnOp:
				if x.Op == token.ARROW && fn == mine {
					continue
				}
				bad++
				r.Viol(key+".channel-uses", c.ipos(x), "the result channel is received from inside a goroutine of Mine")
			case *ssa.Send:
				if x.Chan == ssa.Value(ld) {
					checkSend(fn, fb, x, x.X, mc)
				}
			case *ssa.Select:
				for _, st := range x.States {
					if st.Chan == ssa.Value(ld) {
						if st.Send != nil {
							checkSend(fn, fb, x, st.Send, mc)
						} else if fn != mine {
							bad++
							r.Viol(key+".channel-uses", c.ipos(x), "the result channel is received from inside a goroutine of Mine")
						}
					}
				}
			case *ssa.Call:
				if bi, ok := x.Call.Value.(*ssa.Builtin); ok && (bi.Name() == "close" || bi.Name() == "len" || bi.Name() == "cap") {
					continue
				}
				bad++
				r.Viol(key+".channel-uses", c.ipos(x), "the result channel is handed to %s", ana.CalleeName(x.Common()))
			case *ssa.DebugRef:
			default:
				bad++
				r.Viol(key+".channel-uses", c.ipos(u), "unexpected use of the result channel: %s", u.String())
			}
		}
	}
	for _, ref := range *cell.Referrers() {
		switch x := ref.(type) {
		case *ssa.Store, *ssa.DebugRef:
		case *ssa.UnOp:
			useOfChan(mine, b, x, nil)
		case *ssa.MakeClosure:
			cl := x.Fn.(*ssa.Function)
			cb := ana.NewBuilder(c.P, cl)
			for i, bd := range x.Bindings {
				if bd != ssa.Value(cell) {
					continue
				}
				for _, u := range *cl.FreeVars[i].Referrers() {
					if ld, ok := u.(*ssa.UnOp); ok && ld.Op == token.MUL {
						useOfChan(cl, cb, ld, x)
					} else if _, isDbg := u.(*ssa.DebugRef); !isDbg {
						bad++
						r.Viol(key+".channel-uses", c.ipos(u), "the result channel variable is written or re-captured inside a goroutine: %s", u.String())
					}
				}
			}
		default:
			bad++
			r.Viol(key+".channel-uses", c.ipos(ref), "the result channel variable escapes: %s", ref.String())
		}
	}
	r.Check(nSend >= 1 && bad == 0, key+".channel-uses", pos, "the result channel is only closed / measured / received from by Mine and sent to by Mine's goroutines; send sites %d, each sending the nonce its own search returned", nSend)
}
