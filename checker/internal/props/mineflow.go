package props

import (
	"go/token"

	"golang.org/x/tools/go/ssa"

	"verif/checker/internal/ana"
)

// mineResultFlow decides the provenance of the nonce a successful Mine
// returns: it is received from a channel made by this very call (a cell of
// Mine with a single store of a make(chan)), the channel is used for nothing
// but close / len / cap / receive in Mine and sends in Mine's closures, and
// every value sent on it is the first result of a call of the search routine
// whose digest argument is a variable of this call holding digestPat (a term
// over Mine's parameters). A channel, digest or result kept on the Worker or
// in a package-level variable lets an earlier call's nonce answer a later
// message.
func mineResultFlow(c *Ctx, prefix string, mine, search *ssa.Function, digestPat string) {
	r := c.R
	key := prefix + ".result-flow"
	b := ana.NewBuilder(c.P, mine)
	pos := c.P.Pos(mine.Pos())

	// 1. the result channel: the make(chan) of this call, held in a variable of Mine (a cell when closures capture it,
	//    a plain value when it is handed to named goroutine functions)
	var mk *ssa.MakeChan
	var cell *ssa.Alloc
	nRecv := 0
	chanOf := func(t *ana.Term) (*ssa.MakeChan, *ssa.Alloc) {
		t = stripObj(t)
		if t.Op == "load" && len(t.Args) == 1 {
			if a, isCell := stripObj(t.Args[0]).V.(*ssa.Alloc); isCell && a.Parent() == mine {
				n := 0
				var m *ssa.MakeChan
				for _, ref := range *a.Referrers() {
					if st, ok := ref.(*ssa.Store); ok && st.Addr == ssa.Value(a) {
						n++
						m, _ = st.Val.(*ssa.MakeChan)
					}
				}
				if n == 1 && m != nil {
					return m, a
				}
			}
			return nil, nil
		}
		if m, ok := t.V.(*ssa.MakeChan); ok && m.Parent() == mine {
			return m, nil
		}
		return nil, nil
	}
	for _, e := range ana.Exits(mine) {
		if e.Panic || len(e.Results) != 2 || !b.Of(e.Results[1], e.Instr).Is("nil") {
			continue
		}
		vt := b.Of(e.Results[0], e.Instr)
		if vt.C != nil {
			continue // constant results (the zero-target shortcut) are decided by their own rules
		}
		bd, ok := ana.MatchAny(vt, "ext#0(un<<->($ch))", "un<<->($ch)")
		if !ok {
			r.Viol(key+".received", c.ipos(e.Instr), "a successful Mine returns something other than a value received from its result channel: %s", short(vt.String(), 200))
			continue
		}
		m, a := chanOf(bd["$ch"])
		if m == nil || (mk != nil && m != mk) {
			r.Viol(key+".per-call-channel", c.ipos(e.Instr), "the returned nonce is received from %s, which is not a channel made by this call and held in a variable of it assigned once (a channel on the Worker or in a package variable carries nonces of earlier calls)", short(bd["$ch"].String(), 160))
			continue
		}
		mk, cell = m, a
		nRecv++
	}
	if mk == nil {
		r.Check(false, key+".per-call-channel", pos, "no successful exit of Mine receives from a per-call result channel")
		return
	}
	r.Check(nRecv >= 1, key+".per-call-channel", c.P.Pos(mk.Pos()), "the result channel is made by this call (make(chan)) and held in a variable of Mine assigned once (receiving exits %d)", nRecv)

	// 2. every use of the channel, followed into the goroutines it is shared with (captured cell or argument)
	nSend, bad := 0, 0
	type ctx struct {
		fn *ssa.Function
		fb *ana.Builder
		mc *ssa.MakeClosure    // the closure literal, when fn is one
		at ssa.CallInstruction // the call / go statement in Mine that starts a named fn (nil otherwise)
	}
	// digestIn: the term, in Mine's vocabulary, of a []byte value v of goroutine body cx.fn
	digestIn := func(cx ctx, dig *ana.Term) (*ana.Term, bool) {
		fbd, m := ana.MatchAny(dig, "load($fv)", "slice($fv, 0, none)", "$fv")
		if !m {
			return nil, false
		}
		switch x := fbd["$fv"].V.(type) {
		case *ssa.FreeVar:
			if cx.mc == nil {
				return nil, false
			}
			for i, f := range cx.fn.FreeVars {
				if f != x {
					continue
				}
				dc, isCell := cx.mc.Bindings[i].(*ssa.Alloc)
				if !isCell || dc.Parent() != mine {
					return nil, false
				}
				var dt *ana.Term
				n := 0
				for _, ref := range *dc.Referrers() {
					if st, isSt := ref.(*ssa.Store); isSt && st.Addr == ssa.Value(dc) {
						n++
						dt = b.Of(st.Val, st)
					}
				}
				return dt, n == 1
			}
		case *ssa.Parameter:
			if cx.at == nil {
				return nil, false
			}
			for i, p := range cx.fn.Params {
				if p == x && i < len(cx.at.Common().Args) {
					// the argument in Mine: the digest value, or a full view of the local array holding it
					at := b.Of(cx.at.Common().Args[i], cx.at)
					if sb, isSl := ana.Match("slice(obj($arr, store(self, $d)), 0, none)", at); isSl {
						return sb["$d"], true
					}
					return at, true
				}
			}
		}
		return nil, false
	}
	checkSend := func(cx ctx, at ssa.Instruction, v ssa.Value) {
		nSend++
		t := cx.fb.Of(v, at)
		bd, ok := ana.Match("ext#0($call)", t)
		if !ok || calleeOf(bd["$call"]) != search || len(bd["$call"].Args) < 1 {
			bad++
			r.Viol(key+".sent-value", c.ipos(at), "the value sent on the result channel is not the nonce returned by this goroutine's call of %s: %s", search.Name(), short(t.String(), 200))
			return
		}
		// the digest argument (first []byte argument) is this call's digest
		var dig *ana.Term
		for _, a := range bd["$call"].Args {
			if a.V != nil && a.V.Type().String() == "[]byte" {
				dig = a
				break
			}
		}
		okDig := false
		why := "no []byte argument"
		if dig != nil {
			why = dig.String()
			if dt, one := digestIn(cx, dig); dt != nil {
				_, okDig = ana.Match(digestPat, dt)
				okDig = okDig && one
				why = dt.String()
			}
		}
		if !okDig {
			bad++
		}
		r.Check(okDig, key+".digest-arg", c.ipos(at), "the search that produced the sent nonce ran on this call's digest variable, assigned once from the digest of this call's data (%s)", short(why, 160))
	}
	var uses func(cx ctx, v ssa.Value, depth int)
	uses = func(cx ctx, v ssa.Value, depth int) {
		for _, u := range *v.Referrers() {
			switch x := u.(type) {
			case *ssa.UnOp:
				if x.Op == token.ARROW && cx.fn == mine {
					continue
				}
				bad++
				r.Viol(key+".channel-uses", c.ipos(x), "the result channel is received from inside a goroutine of Mine")
			case *ssa.Send:
				if x.Chan == v {
					checkSend(cx, x, x.X)
				}
			case *ssa.Select:
				for _, st := range x.States {
					if st.Chan == v {
						if st.Send != nil {
							checkSend(cx, x, st.Send)
						} else if cx.fn != mine {
							bad++
							r.Viol(key+".channel-uses", c.ipos(x), "the result channel is received from inside a goroutine of Mine")
						}
					}
				}
			case *ssa.ChangeType: // chan T -> chan<- T for a parameter
				uses(cx, x, depth)
			case *ssa.Store:
				if cell != nil && x.Addr == ssa.Value(cell) && cx.fn == mine {
					continue // the one assignment of the variable
				}
				bad++
				r.Viol(key+".channel-uses", c.ipos(x), "the result channel is stored somewhere else")
			case ssa.CallInstruction:
				cc := x.Common()
				if bi, ok := cc.Value.(*ssa.Builtin); ok && (bi.Name() == "close" || bi.Name() == "len" || bi.Name() == "cap") && cx.fn == mine {
					continue
				}
				// handed to a named repository function (a goroutine body, or a helper of one): follow the parameter
				if cal := ana.StaticRepoCallee(cc); cal != nil && cal.Blocks != nil && depth < 2 && cx.fn == mine {
					followed := false
					for i, a := range cc.Args {
						if a == v && i < len(cal.Params) {
							uses(ctx{fn: cal, fb: ana.NewBuilder(c.P, cal), at: x}, cal.Params[i], depth+1)
							followed = true
						}
					}
					if followed {
						continue
					}
				}
				bad++
				r.Viol(key+".channel-uses", c.ipos(x), "the result channel is handed to %s", ana.CalleeName(cc))
			case *ssa.DebugRef:
			default:
				bad++
				r.Viol(key+".channel-uses", c.ipos(u), "unexpected use of the result channel: %s", u.String())
			}
		}
	}
	mineCx := ctx{fn: mine, fb: b}
	uses(mineCx, mk, 0)
	if cell != nil {
		for _, ref := range *cell.Referrers() {
			switch x := ref.(type) {
			case *ssa.Store, *ssa.DebugRef:
			case *ssa.UnOp:
				uses(mineCx, x, 0)
			case *ssa.MakeClosure:
				cl := x.Fn.(*ssa.Function)
				cx := ctx{fn: cl, fb: ana.NewBuilder(c.P, cl), mc: x}
				for i, bd := range x.Bindings {
					if bd != ssa.Value(cell) {
						continue
					}
					for _, u := range *cl.FreeVars[i].Referrers() {
						if ld, ok := u.(*ssa.UnOp); ok && ld.Op == token.MUL {
							uses(cx, ld, 1)
						} else if _, isDbg := u.(*ssa.DebugRef); !isDbg {
							bad++
							r.Viol(key+".channel-uses", c.ipos(u), "the result channel variable is written or re-captured inside a goroutine: %s", u.String())
						}
					}
				}
			default:
				bad++
				r.Viol(key+".channel-uses", c.ipos(ref), "the result channel variable escapes: %s", ref.String())
			}
		}
	}
	r.Check(nSend >= 1 && bad == 0, key+".channel-uses", pos, "the result channel is only closed / measured / received from by Mine and sent to by Mine's goroutines; send sites %d, each sending the nonce its own search returned", nSend)
}
