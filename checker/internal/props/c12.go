package props

import (
	"go/constant"
	"math/big"
	"strings"

	"golang.org/x/tools/go/ssa"

	"verif/checker/internal/ana"
)

// C12 — PoW v2 Mine is sound and never passes over a clearly qualifying nonce.

func init() {
	register(&Prop{
		ID:    "C12",
		Level: "other",
		Explanation: "Static decision of the structure of v2's three-stage lane test and thresholds: stage 1 ORs l[i]^h[i] over exactly the last s−1 positions and gives up iff every lane is non-zero there; stage 2 adds exactly position 243−s and returns the first all-zero lane; stage 3 iterates every remaining candidate lane (from the first zero bit to the highest) and accepts iff stateToInt(lane).Cmp(target) <= 0 — direction and inclusiveness are atoms of the rule; " +
			"lane extraction (bit idx of h[j], l[j] for all j as h−l), the trits→integer routine (digit map −1→2, top three trits then six 40-trit chunks high to low, Horner from each chunk's high end, +1 added once to the lowest chunk, radix 3^40 with 3^40 < 2^64 <= 3^41 computed by the checker), " +
			"the thresholds (s = first s with 3^s >= len·t over 0..40 else 41; target = floor(3^243/(len·t+1)) with 3^243 computed by the checker; Score = floor(3^243/h)/len saturating) and the absence of shared scratch state. The number-theoretic inequalities linking s, target and the difficulty are the specification the structure is compared with.",
		Run: runC12,
	})
}

const v2Pkg = "repo/pkg/pow/v2."

func runC12(c *Ctx) {
	r := c.R
	r.Rule("C12.stage-structure", "checkStateTrits(l,h,s,target): v = OR_{i=243-(s-1)}^{242}(l[i]^h[i]); v==all-ones → none; w = v | (l[243-s]^h[243-s]); w != all-ones → TrailingZeros(^w); else for i in [TrailingZeros(^v), Len(^v)): if bit i of v is 0 and stateToInt(l,h,i).Cmp(target) <= 0 → i; none otherwise")
	r.Rule("C12.lane-extract", "stateToInt: trits[j] = int8((h[j]>>idx)&1) − int8((l[j]>>idx)&1) for j = 242..0, then toInt(trits)")
	r.Rule("C12.toInt", "toInt: digit(t) = 2 for −1, else t; value = ((t[242]·9 + t[241]·3 + t[240]) then for i = 5..0: ·3^40 + Horner_{j=39..0}(digit(t[40i+j])) (+1 when i==0)); uint64Radix = 3^40; tritsPerUint64 = 40")
	r.Rule("C12.thresholds", "lx = uint64(len+8)·t; s = first index in 0..40 with 3^index >= lx else 41; target = Quo(maxHash, t·(len+8) + 1); maxHash = 3^243; Score = Quo(maxHash, toInt(hash)) / len(msg), saturating at MaxUint64; Mine returns (0,nil) for t == 0")
	r.Rule("C12.return", "the worker returns batch base + lane index when the lane test yields a lane < 64; lane i carries nonce base+i at trit offset EncodedLen(32)")
	r.Rule("C12.result-flow", "a successful Mine returns a value received from a channel made by this call; the channel is only closed/received by Mine and sent to by Mine's goroutines; every sent value is the nonce returned by a call of the worker routine on this call's digest variable (assigned once from blake2b.Sum256(data))")
	r.Rule("C12.no-shared-scratch", "functions reachable from Score and from the workers do not write package-level variables nor mutate objects held in them")
	r.Assume("math/big (Quo, Cmp, Mul, Add, SetUint64), math/bits.TrailingZeros/Len; iota.go bct.Curl / curl / b1t6 as documented")
	r.NotDec("the inequalities themselves: 3^s >= lx ⇒ s trailing zeros suffice; h <= floor(3^243/(lx+1)) ⇒ difficulty > lx")

	lane := c.fn("pkg/pow/v2", "checkStateTrits")
	if lane != nil {
		c12Lane(c, lane.Function)
	}
	c12ToInt(c)
	c12Thresholds(c)
	c12Worker(c)
}

func c12Lane(c *Ctx, fn *ssa.Function) {
	r := c.R
	b := ana.NewBuilder(c.P, fn)
	I := "ind<+1>(bin<->(244, p2))" // canonical form of 243-(s-1)
	V := "phi(0, bin<|>(cycle, bin<^>(load(iaddr(p0, " + I + ")), load(iaddr(p1, " + I + ")))))"
	W := "bin<|>(" + V + ", bin<^>(load(iaddr(p0, bin<->(243, p2))), load(iaddr(p1, bin<->(243, p2)))))"
	maxu := "18446744073709551615"
	if c.wordBits() == 32 {
		maxu = "4294967295"
	}
	J := "ind<+1>(call<math/bits.TrailingZeros>(un<^>(" + V + ")))"
	loop1 := countEdgesDeep(c, b, "bin<<>("+I+", 243)") == 1
	allNon := plainEdges(edgesMatching(b, "bin<==>("+V+", "+maxu+")"))
	someZero := plainEdges(edgesMatching(b, "bin<!=>("+V+", "+maxu+")"))
	fast := plainEdges(edgesMatching(b, "bin<!=>("+W+", "+maxu+")"))
	slow := plainEdges(edgesMatching(b, "bin<==>("+W+", "+maxu+")"))
	loop3 := plainEdges(edgesMatching(b, "bin<<>("+J+", call<math/bits.Len>(un<^>("+V+")))"))
	loop3out := plainEdges(edgesMatching(b, "bin<>=>("+J+", call<math/bits.Len>(un<^>("+V+")))"))
	// bit J of v is clear — tested on v or on its complement (J < Len(^v) <= the word size is the loop bound above)
	bitZero := plainEdges(edgesMatching(b, "bin<==>(bin<&>(bin<>>>("+V+", "+J+"), 1), 0)", "bin<!=>(bin<&>(bin<>>>(un<^>("+V+"), "+J+"), 1), 0)"))
	cmpLE := plainEdges(edgesMatching(b, "bin<<=>(call<(*math/big.Int).Cmp>(call<*>(p0, p1, conv<uint>("+J+")), p3), 0)"))
	r.Check(loop1 && len(allNon) == 1 && len(someZero) == 1, "C12.stage-structure.stage1-mask", c.P.Pos(fn.Pos()), "stage 1: v = OR of l[i]^h[i] for i = 243-(s-1) .. 242 (loop=%v), compared with all-ones", loop1)
	r.Check(len(fast) == 1 && len(slow) == 1, "C12.stage-structure.stage2-position", c.P.Pos(fn.Pos()), "stage 2: w = v | (l[243-s]^h[243-s]) — exactly one more position — compared with all-ones")
	r.Check(len(loop3) == 1 && len(bitZero) == 1 && len(cmpLE) == 1, "C12.stage-structure.stage3-compare", c.P.Pos(fn.Pos()), "stage 3: for i from TrailingZeros(^v) while i < Len(^v): candidate iff bit i of v is 0; accepted iff stateToInt(l,h,i).Cmp(target) <= 0 (`<` would pass over h == target) (loop=%d bit=%d cmp=%d)", len(loop3), len(bitZero), len(cmpLE))
	n64, nFast, nSlow := 0, 0, 0
	for _, e := range ana.Exits(fn) {
		if e.Panic {
			r.Viol("C12.stage-structure.no-panic", c.ipos(e.Instr), "explicit panic in the lane test")
			continue
		}
		t := b.Of(e.Results[0], e.Instr)
		blk := e.Instr.Block()
		_ = blk
		// the lane test reports "none" by the batch size, or returns (lane, found)
		found, two := true, len(e.Results) == 2
		if two {
			ft := b.Of(e.Results[1], e.Instr).String()
			if ft != "true" && ft != "false" {
				r.Viol("C12.stage-structure.exits", c.ipos(e.Instr), "the lane test's second result is not a constant verdict: %s", ft)
				continue
			}
			found = ft == "true"
		}
		switch {
		case two && !found, !two && (t.IsInt(64) || t.IsInt(32)):
			n64++
			ok := exitMustPass(fn, e, allNon) || (exitMustPass(fn, e, slow) && exitMustPass(fn, e, loop3out))
			r.Check(ok, "C12.stage-structure.none-exit", c.ipos(e.Instr), "`none` is returned only when every lane misses the s−1 zeros, or after stage 3 examined every candidate lane")
		case found && matches("call<math/bits.TrailingZeros>(un<^>("+W+"))", t):
			nFast++
			r.Check(exitMustPass(fn, e, someZero) && exitMustPass(fn, e, fast), "C12.stage-structure.fast-accept", c.ipos(e.Instr), "fast accept = first lane with s trailing zeros, only when such a lane exists")
		case found && matches(J, t):
			nSlow++
			r.Check(exitMustPass(fn, e, slow) && exitMustPass(fn, e, loop3) && exitMustPass(fn, e, bitZero) && exitMustPass(fn, e, cmpLE), "C12.stage-structure.slow-accept", c.ipos(e.Instr), "stage-3 accept returns the examined lane i, a candidate whose integer is <= target")
		default:
			r.Viol("C12.stage-structure.exits", c.ipos(e.Instr), "unexpected result of the lane test: %s", short(t.String(), 200))
		}
	}
	r.Check(n64 == 2 && nFast == 1 && nSlow == 1, "C12.stage-structure.exits", c.P.Pos(fn.Pos()), "four exits: none (stage 1), fast accept, slow accept, none (stage 3): %d/%d/%d", n64, nFast, nSlow)
	// the loop of stage 3 advances by one lane per iteration and nothing else leaves it
	for _, ce := range edgesMatching(b, "bin<<=>(call<(*math/big.Int).Cmp>(call<*>(p0, p1, conv<uint>("+J+")), p3), 0)") {
		if ext := calleeOf(ce.Lit.Arg(0).Arg(0)); ext != nil {
			c12Extract(c, ext)
		}
	}
}

func c12Extract(c *Ctx, fn *ssa.Function) {
	r := c.R
	r.Fn(ana.ShortFunc(fn))
	b := ana.NewBuilder(c.P, fn)
	ws := itoa(int64(c.wordBits() - 1))
	idx := "bin<&>(p2, " + ws + ")"
	// every position 0..242 is filled, in either direction (the order of independent stores is immaterial)
	J := "ind<-1>(242)"
	okLoop := len(edgesMatching(b, "bin<>=>("+J+", 0)")) == 1
	if !okLoop {
		J = "ind<+1>(0)"
		okLoop = len(edgesMatching(b, "bin<<>("+J+", alt(243, len(_)))")) == 1
	}
	stored := false
	for _, blk := range fn.Blocks {
		for _, ins := range blk.Instrs {
			if st, ok := ins.(*ssa.Store); ok {
				at, vt := b.Of(st.Addr, st), b.Of(st.Val, st)
				if _, m := ana.Match("iaddr(_, "+J+")", at); m {
					_, stored = ana.Match("bin<->(conv<int8>(bin<&>(bin<>>>(load(iaddr(p1, "+J+")), "+idx+"), 1)), conv<int8>(bin<&>(bin<>>>(load(iaddr(p0, "+J+")), "+idx+"), 1)))", vt)
					if !stored {
						r.Viol("C12.lane-extract.term", c.ipos(st), "trit is not (h-bit − l-bit) of lane idx: %s", short(vt.String(), 260))
					}
				}
			}
		}
	}
	okRet := false
	for _, e := range ana.Exits(fn) {
		if !e.Panic {
			t := b.Of(e.Results[0], e.Instr)
			_, okRet = ana.Match("call<"+c12Name(c, "toInt")+">(slice(obj(alloc<[243]int8>, maybe(_)), 0, none))", t)
		}
	}
	r.Check(okLoop && stored && okRet, "C12.lane-extract.term", c.P.Pos(fn.Pos()), "stateToInt: for every j in 0..242 trits[j] = int8((h[j]>>idx)&1) − int8((l[j]>>idx)&1); result toInt(trits[:]) (loop=%v store=%v ret=%v)", okLoop, stored, okRet)
}

func c12ToInt(c *Ctx) {
	r := c.R
	f := c.fn("pkg/pow/v2", "toInt")
	if f == nil {
		return
	}
	fn := f.Function
	b := ana.NewBuilder(c.P, fn)
	// digit map
	if d := c.helper("pkg/pow/v2", "tritToUint"); d != nil {
		r.Fn(ana.ShortFunc(d))
		db := ana.NewBuilder(c.P, d)
		vs := &ana.VSA{B: db, Tracked: []string{"p0"}, Ranges: [][2]int64{{-1, 1}}}
		sets, tuples := vs.Run()
		got := map[int64]string{}
		for _, e := range ana.Exits(d) {
			if e.Panic {
				continue
			}
			for idx := range sets[e.Instr.Block()] {
				t := ana.TupleOf(tuples, idx)[0]
				if v, ok := vs.Eval(e.Results[0], []int64{t}); ok {
					got[t] = itoa(v)
				}
			}
		}
		r.Check(got[-1] == "2" && got[0] == "0" && got[1] == "1" && vs.Opaque == 0, "C12.toInt.digit-map", c.P.Pos(d.Pos()), "digit(−1)=2, digit(0)=0, digit(1)=1: %v", got)
	}
	// constants
	pk := c.P.Pkg("pkg/pow/v2")
	three40 := new(big.Int).Exp(big.NewInt(3), big.NewInt(40), nil)
	three41 := new(big.Int).Mul(three40, big.NewInt(3))
	two64 := new(big.Int).Lsh(big.NewInt(1), 64)
	radix, w, g := c.globalInit("pkg/pow/v2", "uint64Radix")
	okR := false
	if radix != nil {
		if bd, ok := ana.Match("obj(alloc<math/big.Int>, call<(*math/big.Int).SetUint64>(self, $v))", radix); ok && bd["$v"].C != nil {
			val, _ := new(big.Int).SetString(bd["$v"].Name, 10)
			okR = val != nil && val.Cmp(three40) == 0 && three40.Cmp(two64) < 0 && three41.Cmp(two64) >= 0
		}
	}
	_ = pk
	if !okR && radix != nil {
		if v, ok := evalBig(c, radix, 0); ok && v != nil {
			okR = v.Cmp(three40) == 0 && three40.Cmp(two64) < 0 && three41.Cmp(two64) >= 0
		}
	}
	if g == nil {
		// renamed or turned into a constant: the value 3^40 is then part of the folded term C12.toInt.structure matches
		// (ana.ConstGlobal folds only variables with a single writer, the initialiser)
		r.Check(three40.Cmp(two64) < 0 && three41.Cmp(two64) >= 0 && three40.String() == "12157665459056928801", "C12.toInt.radix", "", "radix 3^40 = %s (3^40 < 2^64 <= 3^41) is decided as a constant of C12.toInt.structure", three40)
	} else {
		r.Check(okR && w == 1, "C12.toInt.radix", c.P.Pos(g.Pos()), "uint64Radix = 3^40 = %s (3^40 < 2^64 <= 3^41), single writer (chunks of 40 trits are decided by C12.toInt.structure)", three40)
	}
	// structure
	hdr := "obj(alloc<math/big.Int>, call<(*math/big.Int).SetUint64>(self, bin<+>(bin<+>(call<*>(load(iaddr(p0, 240))), bin<*>(call<*>(load(iaddr(p0, 241))), 3)), bin<*>(call<*>(load(iaddr(p0, 242))), 9))), ...)"
	chunk := "slice(p0, bin<+>(bin<*>(ind<-1>(0), 40), 200), bin<+>(bin<*>(ind<-1>(0), 40), 240))" // canonical form of t[i*40 : i*40+40] for i = 5..0
	horner := "phi(0, bin<+>(bin<*>(cycle, 3), call<*>(load(iaddr(" + chunk + ", ind<-1>(bin<->(len(" + chunk + "), 1)))))))"
	okOuter := len(edgesMatching(b, "bin<>=>(ind<-1>(5), 0)")) == 1
	okInner := countEdgesDeep(c, b, "bin<>=>(ind<-1>(bin<->(len("+chunk+"), 1)), 0)") == 1
	plus1 := plainEdges(edgesMatching(b, "bin<==>(ind<-1>(5), 0)"))
	for _, e := range ana.Exits(fn) {
		if e.Panic {
			es := plainEdges(edgesMatching(b, "bin<!=>(len(p0), 243)"))
			r.Check(exitMustPass(fn, e, es), "C12.toInt.length-guard", c.ipos(e.Instr), "toInt panics only for a slice that is not 243 trits")
			continue
		}
		t := b.Of(e.Results[0], e.Instr)
		_, okH := ana.Match(hdr, t)
		mul, _ := ana.Find("maybe(call<(*math/big.Int).Mul>(self, self, obj(alloc<math/big.Int>, call<(*math/big.Int).SetUint64>(self, 12157665459056928801))))", t)
		if mul == nil && okR && w == 1 && g != nil {
			// the radix read from its package variable, whose single initialiser folds to 3^40 (C12.toInt.radix)
			mul, _ = ana.Find("maybe(call<(*math/big.Int).Mul>(self, self, load(global<"+g.String()+">)))", t)
		}
		add, _ := ana.Find("maybe(call<(*math/big.Int).Add>(self, self, obj(alloc<math/big.Int>, call<(*math/big.Int).SetUint64>(self, phi(bin<+>("+horner+", 1), "+horner+")), ...)))", t)
		if add == nil {
			add, _ = ana.Find("maybe(call<(*math/big.Int).Add>(self, self, obj(alloc<math/big.Int>, maybe(call<(*math/big.Int).SetUint64>(self, phi(bin<+>("+horner+", 1), "+horner+"))))))", t)
		}
		// … or every chunk added as it is and the +1 added once to the finished number (the last thing done to it)
		plusAfter := false
		if add == nil && t.Op == "obj" {
			for _, p := range []string{
				"maybe(call<(*math/big.Int).Add>(self, self, obj(alloc<math/big.Int>, call<(*math/big.Int).SetUint64>(self, " + horner + "), ...)))",
				"maybe(call<(*math/big.Int).Add>(self, self, obj(alloc<math/big.Int>, maybe(call<(*math/big.Int).SetUint64>(self, " + horner + ")))))",
			} {
				if a2, _ := ana.Find(p, t); a2 != nil {
					last := t.Args[len(t.Args)-1]
					if matches("call<(*math/big.Int).Add>(self, self, call<math/big.NewInt>(1))", last) {
						n1 := 0
						for _, ev := range t.Args[1:] {
							if w, _ := ana.Find("call<math/big.NewInt>(1)", ev); w != nil {
								n1++
							}
						}
						if n1 == 1 {
							add, plusAfter = a2, true
						}
					}
				}
			}
		}
		r.Check(okH && mul != nil && add != nil && okOuter && okInner, "C12.toInt.structure", c.ipos(e.Instr), "b = 9·d(t[242]) + 3·d(t[241]) + d(t[240]); for i = 5..0: b = b·3^40 + v_i, v_i = Horner over chunk i from its high end (header=%v mul=%v add=%v outer=%v inner=%v)", okH, mul != nil, add != nil, okOuter, okInner)
		// +1 only for the lowest chunk: the phi picks v+1 exactly on the i==0 edge
		okPlus := false
		if add != nil {
			if w, _ := ana.Find("phi(bin<+>("+horner+", 1), "+horner+")", add); w != nil {
				if phi, isPhi := w.V.(*ssa.Phi); isPhi {
					okPlus = true
					for i, ev := range phi.Edges {
						_, isInc := ev.(*ssa.BinOp)
						e := ana.Edge{From: phi.Block().Preds[i], To: phi.Block()}
						if isInc && !edgeMustPass(fn, e, plus1) {
							okPlus = false
						}
						if !isInc && edgeMustPass(fn, e, plus1) {
							okPlus = false
						}
					}
				}
			}
		}
		if plusAfter {
			r.OK("C12.toInt.plus-one-lowest", c.ipos(e.Instr), "the +1 is added exactly once, to the finished number")
			continue
		}
		r.Check(okPlus && len(plus1) == 1, "C12.toInt.plus-one-lowest", c.ipos(e.Instr), "the +1 (hash read as base-3 number plus one) is added exactly once, to the lowest chunk (i == 0)")
	}
}

func c12Thresholds(c *Ctx) {
	r := c.R
	three243 := new(big.Int).Exp(big.NewInt(3), big.NewInt(243), nil)
	mh, w, g := c.globalInit("pkg/pow/v2", "maxHash")
	okM := false
	if mh != nil {
		if bd, ok := ana.Match("call<*>($s)", mh); ok {
			if s, isS := bd["$s"].Str(); isS {
				v, _ := new(big.Int).SetString(s, 16)
				okM = v != nil && v.Cmp(three243) == 0
				if h := calleeOf(mh); h != nil {
					hb := ana.NewBuilder(c.P, h)
					for _, e := range ana.Exits(h) {
						if !e.Panic {
							_, m := ana.Match("obj(alloc<math/big.Int>, call<(*math/big.Int).SetString>(self, p0, 16))", hb.Of(e.Results[0], e.Instr))
							okM = okM && m
						}
					}
				}
			}
		}
	}
	if !okM && mh != nil {
		// however the constant is written (hex literal, Exp(3, 243), …): the initialiser folds to 3^243
		if v, ok := evalBig(c, mh, 0); ok && v != nil && v.Cmp(three243) == 0 {
			okM = true
		}
	}
	if g == nil {
		r.Undec("C12.thresholds.max-hash", "", "package variable holding 3^243 not found")
	} else {
		r.Check(okM && w == 1, "C12.thresholds.max-hash", c.P.Pos(g.Pos()), "maxHash = 3^243 (parsed base 16 from the constant), single writer")
	}
	if one, w1, g1 := c.globalInit("pkg/pow/v2", "one"); g1 != nil {
		r.Check(one != nil && w1 == 1 && matches("call<math/big.NewInt>(1)", one), "C12.thresholds.one", "", "one = 1, single writer")
	} else {
		r.OK("C12.thresholds.one", "", "the constant 1 of the target hash is decided as part of C12.thresholds.target-hash (folded value)")
	}

	// the threshold routines are analysed from their call in Mine, with their parameters bound to the arguments: the
	// terms below are in Mine's vocabulary (p2 = data, p3 = target score) whatever the routines take (the data slice,
	// or the message length computed by the caller)
	boundFromMine := func(h *ssa.Function) *ana.Builder {
		mf := c.P.Func("pkg/pow/v2", "Worker.Mine")
		if mf == nil || h == nil {
			return nil
		}
		mbb := ana.NewBuilder(c.P, mf)
		for _, ci := range ana.Calls(mf) {
			if ana.StaticRepoCallee(ci.Common()) == h {
				if call := stripObj(mbb.CallTermAt(ci)); call.Op == "call" && len(call.Args) == len(h.Params) {
					return boundBuilderP(c.P, call)
				}
			}
		}
		return nil
	}
	if f := c.fn("pkg/pow/v2", "targetHash"); f != nil {
		b := boundFromMine(f.Function)
		if b == nil {
			r.Undec("C12.thresholds.target-hash", c.P.Pos(f.Function.Pos()), "targetHash is not called by Mine")
			b = ana.NewBuilder(c.P, f.Function)
		}
		for _, e := range ana.Exits(f.Function) {
			if e.Panic {
				continue
			}
			t := b.Of(e.Results[0], e.Instr)
			want := "obj(alloc<math/big.Int>, call<(*math/big.Int).SetUint64>(self, p3), call<(*math/big.Int).Mul>(self, self, call<math/big.NewInt>(conv<int64>(bin<+>(len(p2), 8)))), call<(*math/big.Int).Add>(self, self, call<math/big.NewInt>(1)), call<(*math/big.Int).Quo>(self, load(global<" + v2Pkg + "maxHash>), self))"
			_, ok := ana.Match(want, t)
			r.Check(ok, "C12.thresholds.target-hash", c.ipos(e.Instr), "target = Quo(3^243, t·(len+8) + 1) %s", ana.Explain(want, t))
		}
	}
	if f := c.fn("pkg/pow/v2", "sufficientTrailingZeros"); f != nil {
		fn := f.Function
		b := boundFromMine(fn)
		if b == nil {
			r.Undec("C12.thresholds.sufficient-zeros", c.P.Pos(fn.Pos()), "sufficientTrailingZeros is not called by Mine")
			b = ana.NewBuilder(c.P, fn)
		}
		lx := "bin<*>(conv<uint64>(bin<+>(len(p2), 8)), p3)"
		v := "phi(1, bin<*>(cycle, 3))"
		hit := plainEdges(edgesMatching(b, "bin<>=>("+v+", "+lx+")"))
		in := len(edgesMatching(b, "bin<<=>(ind<+1>(0), 40)")) == 1
		out := plainEdges(edgesMatching(b, "bin<>>(ind<+1>(0), 40)"))
		okS, ok41 := false, false
		for _, e := range ana.Exits(fn) {
			if e.Panic {
				es := plainEdges(edgesMatching(b, "bin<<>(bin<+>(bin</>(18446744073709551614, conv<uint64>(bin<+>(len(p2), 8))), 1), p3)"))
				r.Check(exitMustPass(fn, e, es), "C12.thresholds.overflow-guard", c.ipos(e.Instr), "panics only when len·t would not fit 64 bits")
				continue
			}
			t := b.Of(e.Results[0], e.Instr)
			if t.String() == "ind<+1>(0)" {
				okS = exitMustPass(fn, e, hit)
			}
			if t.IsInt(41) {
				ok41 = exitMustPass(fn, e, out)
			}
		}
		// the same search with `break` instead of `return s` and a single `return s` after the loop: s is then either the
		// hit index or 41 (the counter after 41 misses)
		if !ok41 && in && len(hit) == 1 && len(out) == 1 {
			both := append(append([]ana.Edge{}, hit...), out...)
			n := 0
			for _, e := range ana.Exits(fn) {
				if e.Panic {
					continue
				}
				n++
				if b.Of(e.Results[0], e.Instr).String() == "ind<+1>(0)" && exitMustPass(fn, e, both) {
					okS, ok41 = true, true
				}
			}
			if n != 1 {
				ok41 = false
			}
		}
		// the same search written as `for v < lx { if s == 40 { return 41 }; v *= 3; s++ }; return s`: the miss edge
		// v < lx is the loop condition, and 41 is returned exactly when the 41st comparison (s == 40, v = 3^40) missed too
		if !(ok41 && in) {
			miss := plainEdges(edgesMatching(b, "bin<<>("+v+", "+lx+")"))
			last := edgesMatching(b, "bin<==>(ind<+1>(0), 40)")
			if len(miss) == 1 && len(last) == 1 && mustPass(fn, last[0].From, miss) {
				for _, e := range ana.Exits(fn) {
					if !e.Panic && b.Of(e.Results[0], e.Instr).IsInt(41) {
						ok41 = exitMustPass(fn, e, plainEdges(last))
						in = true
					}
				}
			}
		}
		r.Check(okS && ok41 && in && len(hit) == 1, "C12.thresholds.sufficient-zeros", c.P.Pos(fn.Pos()), "s = first index in 0..40 with 3^index >= lx (v starts at 1, ×3 per step, test `>=`), else 41 (hit=%v none=%v loop=%v)", okS, ok41, in)
	}
	// Score and difficulty
	if f := c.fn("pkg/pow/v2", "Score"); f != nil {
		fn := f.Function
		b := ana.NewBuilder(c.P, fn)
		d := "call<*>(slice(obj(alloc<[32]byte>, store(self, call<golang.org/x/crypto/blake2b.Sum256>(slice(p0, 0, bin<->(len(p0), 8))))), 0, none), call<(encoding/binary.littleEndian).Uint64>(load(global<encoding/binary.LittleEndian>), slice(p0, bin<->(len(p0), 8), none)))"
		n1, n2, n3 := 0, 0, 0
		var diff *ssa.Function
		// the exits of Score, looking through a tail call into a helper that does the saturated division
		// (results in Score's vocabulary: the helper's parameters are bound to the arguments)
		for _, v := range c.vexits(b) {
			if v.Panic {
				r.Check(c.vpasses(v, "bin<<>(len(p0), 8)"), "C12.thresholds.score-length-guard", c.vpos(v), "Score panics only for messages shorter than a nonce")
				continue
			}
			t := v.Results[0]
			switch {
			case matches("bin</>(call<(*math/big.Int).Uint64>("+d+"), conv<uint64>(len(p0)))", t):
				n1++
				diff = calleeOf(t.Arg(0).Arg(0))
				r.Check(c.vpasses(v, "call<(*math/big.Int).IsUint64>("+d+")"), "C12.thresholds.score-fast", c.vpos(v), "fast path: d fits 64 bits → d/len")
			case matches("call<(*math/big.Int).Uint64>(obj("+d+", call<(*math/big.Int).Quo>(self, self, call<math/big.NewInt>(conv<int64>(len(p0))))))", t):
				n2++
			case matches("18446744073709551615", t):
				n3++
			}
		}
		r.Check(n1 == 1 && n2 == 1 && n3 == 1, "C12.thresholds.score", c.P.Pos(fn.Pos()), "Score = floor(d/len) with d = difficulty(BLAKE2b-256(msg[:len-8]), LE nonce); big-int fallback; saturates at MaxUint64 (%d/%d/%d)", n1, n2, n3)
		if diff != nil {
			r.Fn(ana.ShortFunc(diff))
			db := ana.NewBuilder(c.P, diff)
			for _, e := range ana.Exits(diff) {
				if e.Panic {
					continue
				}
				t := db.Of(e.Results[0], e.Instr)
				blk := "slice(obj(alloc<[243]int8>, call<github.com/iotaledger/iota.go/encoding/b1t6.Encode>(slice(self, 0, 243), p0), call<*>(slice(slice(self, 0, 243), call<github.com/iotaledger/iota.go/encoding/b1t6.Encode>(_, p0), none), p1)), 0, 243)"
				want := "obj(call<" + c12Name(c, "toInt") + ">(ext#0(call<*>(obj(call<github.com/iotaledger/iota.go/curl.NewCurlP81>, call<*>(self, " + blk + ")), 243))), call<(*math/big.Int).Quo>(self, load(global<" + v2Pkg + "maxHash>), self))"
				_, ok := ana.Match(want, t)
				r.Check(ok, "C12.thresholds.difficulty", c.ipos(e.Instr), "difficulty = Quo(3^243, toInt(Curl-P-81(b1t6(digest) ‖ b1t6(LE nonce)))) — the same toInt the lane test uses %s", ana.Explain(want, t))
			}
		}
	}
	if f := c.fn("pkg/pow/v2", "Worker.Mine"); f != nil {
		fn := f.Function
		b := ana.NewBuilder(c.P, fn)
		z := plainEdges(edgesMatching(b, "bin<==>(p3, 0)"))
		ok := false
		for _, e := range ana.Exits(fn) {
			if !e.Panic && exitMustPass(fn, e, z) {
				ok = b.Of(e.Results[0], e.Instr).IsInt(0) && b.Of(e.Results[1], e.Instr).Is("nil")
			}
		}
		r.Check(ok, "C12.return.zero-target", c.P.Pos(fn.Pos()), "targetScore == 0 → (0, nil) before anything is started")
	}
}

// fillEveryBatch: some call of b's function that does the lane filling — its term, or a term of the helper it calls,
// matches one of pats — cannot be bypassed on the way to the lane test (c12EveryBatch).
func fillEveryBatch(c *Ctx, b *ana.Builder, hit []ana.Edge, pats ...string) bool {
	isFill := func(t *ana.Term) bool {
		if calleeOf(t) == nil {
			return false
		}
		for _, p := range pats {
			if matches(p, t) {
				return true
			}
		}
		return false
	}
	for _, ci := range ana.Calls(b.Fn) {
		t := b.CallTermAt(ci)
		ok := isFill(t)
		if !ok {
			if h := ana.StaticRepoCallee(ci.Common()); h != nil && h.Blocks != nil {
				if call := stripObj(t); call != nil && call.Op == "call" && len(call.Args) == len(h.Params) {
					for _, t2 := range deepCallTerms(c, boundBuilderP(c.P, call)) {
						ok = ok || isFill(t2)
					}
				}
			}
		}
		if ok && c12EveryBatch(b.Fn, ci.Block(), hit) {
			return true
		}
	}
	return false
}

// c12EveryBatch: every path to the block that tests the lanes (the source of the hit edges) — from the entry, and from
// that block round the mining loop back to itself — passes the header of the loop that does the filling at block f (f
// itself when the filling is a single call in the mining loop's body).
func c12EveryBatch(fn *ssa.Function, f *ssa.BasicBlock, hit []ana.Edge) bool {
	if len(hit) == 0 {
		return false
	}
	var inner map[*ssa.BasicBlock]bool
	var header *ssa.BasicBlock
	for _, e := range ana.BackEdges(fn) {
		if lb := ana.LoopBlocks(e); lb[f] && (inner == nil || len(lb) < len(inner)) {
			inner, header = lb, e.To
		}
	}
	if inner == nil {
		return false
	}
	node := header
	for _, h := range hit {
		if inner[h.From] {
			node = f // the innermost loop round the filling is the mining loop itself
		}
	}
	var removed []ana.Edge
	for _, p := range node.Preds {
		removed = append(removed, ana.Edge{From: p, To: node})
	}
	for _, h := range hit {
		if h.From == node || ana.ReachableAvoiding(fn, removed)[h.From] {
			return false
		}
		for _, s := range h.From.Succs {
			if ana.ReachableFrom(s, removed)[h.From] {
				return false
			}
		}
	}
	return true
}

func c12Worker(c *Ctx) {
	r := c.R
	f := c.fn("pkg/pow/v2", "Worker.worker")
	mine := c.P.Func("pkg/pow/v2", "Worker.Mine")
	if f == nil || mine == nil {
		return
	}
	fn := f.Function
	b := ana.NewBuilder(c.P, fn)
	WS := itoa(int64(c.wordBits()))
	// the worker's parameters by role (method or plain function): digest []byte, start nonce uint64, sufficient zeros int, target *big.Int
	PD, PS, PZ, PTG := searchParam(fn, "[]byte"), searchParam(fn, "uint64"), searchParam(fn, "int"), searchParam(fn, "*math/big.Int")
	hit := plainEdges(edgesMatching(b, "bin<<>(call<*>(_, _, "+PZ+", "+PTG+"), "+WS+")"))
	laneVal := "call<*>(_, _, " + PZ + ", " + PTG + ")"
	if len(hit) == 0 {
		// (lane, found) form: the verdict is the second result (constant per exit of the lane test, C12.stage-structure.*)
		for _, ce := range edgesMatching(b, "raw:ext#1(call<*>(_, _, "+PZ+", "+PTG+"))") {
			if ce.Taken {
				hit = append(hit, ce.Edge)
				laneVal = "ext#0(call<*>(_, _, " + PZ + ", " + PTG + "))"
			}
		}
	}
	for _, e := range ana.Exits(fn) {
		if e.Panic {
			es := plainEdges(edgesMatching(b, "bin<>>("+PZ+", 243)"))
			r.Check(exitMustPass(fn, e, es), "C12.return.target-range", c.ipos(e.Instr), "the worker panics only for more than 243 sufficient zeros")
			continue
		}
		if b.Of(e.Results[1], e.Instr).Is("nil") {
			vt := b.Of(e.Results[0], e.Instr)
			_, ok := ana.Match("bin<+>(ind<+"+WS+">("+PS+"), conv<uint64>("+laneVal+"))", vt)
			r.Check(ok && exitMustPass(fn, e, hit), "C12.return.nonce", c.ipos(e.Instr), "returned nonce = batch base + lane index, only when the lane test found a lane: %s", short(vt.String(), 140))
		}
	}
	fill := false
	fillPat := "call<*>(slice(load(iaddr(_, bin<+>(ind<+1>(-1), 1))), call<github.com/iotaledger/iota.go/encoding/b1t6.EncodedLen>(len(" + PD + ")), none), bin<+>(ind<+" + WS + ">(" + PS + "), conv<uint64>(bin<+>(ind<+1>(-1), 1))))"
	for _, t := range deepCallTerms(c, b) {
		if matches(fillPat, t) && calleeOf(t) != nil {
			fill = true
		}
	}
	// … on every trip of the mining loop, before the lanes are tested: the call of the worker that does the filling
	// (itself, or through a helper) cannot be bypassed on the way to the lane test, neither from the entry nor from one
	// lane test to the next (round-8 seed C12-r8-2: the full nonce only re-encoded when its high bytes change)
	if !fill {
		// the nonce window of every lane buffer taken once into an array of views (as in C11): views[i] = buf[i][off:] stored
		// by a loop over the whole batch, nothing else stored into it, and the lane loop ranges over the views
		off := "call<github.com/iotaledger/iota.go/encoding/b1t6.EncodedLen>(len(" + PD + "))"
		for _, t := range deepCallTerms(c, b) {
			bd, ok := ana.Match("call<*>(load(iaddr(slice($views, 0, none), bin<+>(ind<+1>(-1), 1))), bin<+>(ind<+"+WS+">("+PS+"), conv<uint64>(bin<+>(ind<+1>(-1), 1))))", t)
			if !ok || bd["$views"].V == nil {
				continue
			}
			vw := bd["$views"]
			vb, m := ana.Match("obj(alloc<["+WS+"][]int8>, maybe(store(iaddr(self, ind<+1>(0)), slice(load(iaddr($buf, ind<+1>(0))), "+off+", none))))", vw)
			if !m || vb["$buf"].V == nil || !matches("slice(obj(alloc<["+WS+"][]int8>, ...), 0, none)", vb["$buf"]) {
				continue
			}
			root, bufRoot := b.Root(vw.V), b.Root(vb["$buf"].V)
			nSt, whole := 0, false
			for _, blk := range fn.Blocks {
				for _, ins := range blk.Instrs {
					st, isSt := ins.(*ssa.Store)
					if !isSt || b.Root(st.Addr) != root {
						continue
					}
					nSt++
					for _, l := range rangeLoopsAll(b) {
						if l.Blocks[blk] && l.Coll.V != nil && (b.Root(l.Coll.V) == root || b.Root(l.Coll.V) == bufRoot) {
							whole = true
						}
					}
				}
			}
			if nSt == 1 && whole {
				fill = true
			}
		}
	}
	r.Check(fill, "C12.return.lane-filling", c.P.Pos(fn.Pos()), "lane i of each batch carries nonce base+i at the digest offset")
	// … on every trip of the mining loop, before the lanes are tested (round-8 seed C12-r8-2: the full nonce re-encoded
	// only when its high bytes change, the low bytes patched otherwise)
	if fill {
		viewsPat := "call<*>(load(iaddr(slice(_, 0, none), bin<+>(ind<+1>(-1), 1))), bin<+>(ind<+" + WS + ">(" + PS + "), conv<uint64>(bin<+>(ind<+1>(-1), 1))))"
		r.Check(fillEveryBatch(c, b, hit, fillPat, viewsPat), "C12.return.lane-filling-every-batch", c.P.Pos(fn.Pos()), "the nonce base+i is encoded into every lane on every trip of the mining loop: no path from the entry, or from one lane test to the next, reaches the lane test without passing the filling loop")
	}
	// thresholds are computed once in Mine and handed to every worker
	mb := ana.NewBuilder(c.P, mine)
	var sCell, tCell bool
	for _, ci := range ana.Calls(mine) {
		// computed by Mine from its own arguments (and kept in a variable or handed straight to the workers)
		t := mb.CallTermAt(ci)
		if t.Is("call", c12Name(c, "sufficientTrailingZeros")) {
			sCell = true
		}
		if t.Is("call", c12Name(c, "targetHash")) {
			tCell = true
		}
	}
	r.Check(sCell && tCell, "C12.thresholds.mine-wiring", c.P.Pos(mine.Pos()), "Mine computes s = sufficientTrailingZeros(data, t) and target = targetHash(data, t) from its own arguments")
	mineResultFlow(c, "C12", mine, fn, "call<golang.org/x/crypto/blake2b.Sum256>(p2)")
	// no shared scratch
	pureScan(c, "C12.no-shared-scratch", fn, c.P.Func("pkg/pow/v2", "Score"))
}

// c12Name is the full name of a v2 helper as it is called on the analysed tree.
func c12Name(c *Ctx, name string) string {
	if f := c.helper("pkg/pow/v2", name); f != nil {
		return f.String()
	}
	return "<missing " + name + ">"
}

// evalBig folds a term that denotes a constant *big.Int (an initialiser): NewInt(c), new(big.Int) followed by
// SetString / SetUint64 / SetInt64 / Exp / Mul / Add / Sub / Lsh with constant operands, or a repository helper that
// computes one (looked through). ok is false for anything else.
func evalBig(c *Ctx, t *ana.Term, depth int) (*big.Int, bool) {
	if t == nil || depth > 6 {
		return nil, false
	}
	if k, isInt := t.Int(); isInt {
		return big.NewInt(k), true
	}
	if t.C != nil && t.C.Kind() == constant.Int {
		if v, ok := new(big.Int).SetString(t.C.ExactString(), 10); ok {
			return v, true
		}
	}
	switch {
	case t.Is("nil"):
		return nil, true
	case t.Is("conv"):
		return evalBig(c, t.Arg(0), depth+1)
	case t.Is("alloc", "math/big.Int"):
		return new(big.Int), true
	case t.Is("call", "math/big.NewInt"):
		return evalBig(c, t.Arg(0), depth+1)
	case t.Is("obj"):
		cur, ok := evalBig(c, t.Arg(0), depth+1)
		if !ok || cur == nil {
			return nil, false
		}
		cur = new(big.Int).Set(cur)
		arg := func(a *ana.Term) (*big.Int, bool) {
			if a.Is("self") {
				return new(big.Int).Set(cur), true
			}
			return evalBig(c, a, depth+1)
		}
		for _, ev := range t.Args[1:] {
			if !ev.Is("call") || len(ev.Args) < 2 || !ev.Arg(0).Is("self") || !strings.HasPrefix(ev.Name, "(*math/big.Int).") {
				return nil, false
			}
			m := strings.TrimPrefix(ev.Name, "(*math/big.Int).")
			switch m {
			case "SetString":
				str, isS := ev.Arg(1).Str()
				base, okB := ev.Arg(2).Int()
				if !isS || !okB {
					return nil, false
				}
				v, okV := new(big.Int).SetString(str, int(base))
				if !okV {
					return nil, false
				}
				cur = v
			case "SetUint64", "SetInt64", "Set":
				v, okV := arg(ev.Arg(1))
				if !okV || v == nil {
					return nil, false
				}
				cur = v
			case "Exp", "Mul", "Add", "Sub", "Lsh":
				x, ok1 := arg(ev.Arg(1))
				y, ok2 := arg(ev.Arg(2))
				if !ok1 || !ok2 || x == nil || y == nil {
					return nil, false
				}
				switch m {
				case "Exp":
					var mod *big.Int
					if len(ev.Args) > 3 {
						mm, ok3 := arg(ev.Arg(3))
						if !ok3 {
							return nil, false
						}
						mod = mm
					}
					if y.BitLen() > 16 {
						return nil, false
					}
					cur = new(big.Int).Exp(x, y, mod)
				case "Mul":
					cur = new(big.Int).Mul(x, y)
				case "Add":
					cur = new(big.Int).Add(x, y)
				case "Sub":
					cur = new(big.Int).Sub(x, y)
				case "Lsh":
					if y.BitLen() > 16 {
						return nil, false
					}
					cur = new(big.Int).Lsh(x, uint(y.Int64()))
				}
			default:
				return nil, false
			}
		}
		return cur, true
	case t.Is("call"):
		if x, ch := ana.ExpandCalls(c.P, t); ch && x.String() != t.String() {
			return evalBig(c, x, depth+1)
		}
	}
	return nil, false
}
