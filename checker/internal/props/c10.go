package props

import (
	"go/constant"
	"strings"

	"golang.org/x/tools/go/ssa"

	"verif/checker/internal/ana"
	"verif/checker/internal/relang"
)

// C10 — BIP-32 path text form round-trips and is read as decimal.

func init() {
	register(&Prop{
		ID:    "C10",
		Level: "other",
		Explanation: "Static decision of the parser/printer mechanism of bip32path: numeric base and bit size of every strconv parse reachable from ParsePath (typed constant arguments), " +
			"the language of the component pattern (decided against [0-9]+[H']? by product exploration of the subset automata of both regexp/syntax programs — a decision procedure over the alphabet partition, not sampling), " +
			"the whole-component and error gates on every path that appends an index, the hardened marker logic, guarded constant indexing of the sub-match slice (no panic), and agreement of the printer's table (verb, marker, separator, prefix) with the parser's. " +
			"Does not decide strconv/regexp library behaviour.",
		Run: runC10,
	})
}

func runC10(c *Ctx) {
	r := c.R
	r.Rule("C10.base", "every strconv.ParseUint/ParseInt/Atoi reachable from ParsePath has constant base 10 and bit size 31; the digits argument is capture group 1")
	r.Rule("C10.regexp", "the component pattern denotes exactly [0-9]+[H']? and consists of two top-level capture groups denoting [0-9]+ and [H']?; matches[0]==key gates the success path")
	r.Rule("C10.exits", "\"\"/\"m\" → empty path; one optional \"m/\" prefix removed (TrimPrefix); split on \"/\"; hardened iff group 2 non-empty; value = parsed | 1<<31; errors wrap ErrInvalidPathFormat or the strconv error")
	r.Rule("C10.print-parse-agree", "printer verb %d (decimal) on idx&^(1<<31), marker written iff idx>=1<<31 and accepted by group 2, separator and prefix equal the parser's")
	r.Rule("C10.no-panic", "no explicit panic reachable from ParsePath; constant indices into the sub-match slice are dominated by a sufficient len test; MustCompile on a constant the checker compiled")
	r.Assume("strconv.ParseUint(s, 10, 31) reads ASCII decimal digits only and fails above 2^31-1; regexp FindStringSubmatch returns leftmost-first matches")

	f := c.fn("pkg/bip32path", "ParsePath")
	if f == nil {
		return
	}
	fn := f.Function
	b := ana.NewBuilder(c.P, fn)

	// ---- the collection ranged over
	var splitT *ana.Term
	for _, ci := range ana.CallsTo(fn, "strings.Split") {
		splitT = b.CallTermAt(ci)
	}
	sep := ""
	if splitT == nil {
		r.Undec("C10.exits.split", c.P.Pos(fn.Pos()), "no strings.Split call")
	} else if bd, ok := ana.Match("call<strings.Split>(call<strings.TrimPrefix>(p0, $pre), $sep)", splitT); ok {
		pre, _ := bd["$pre"].Str()
		sep, _ = bd["$sep"].Str()
		r.Check(pre == "m/" && sep == "/", "C10.exits.split", c.P.Pos(splitT.V.Pos()), "components = Split(TrimPrefix(s, %q), %q): exactly one optional master prefix is removed (TrimPrefix, not TrimLeft)", pre, sep)
	} else {
		r.Viol("C10.exits.split", c.P.Pos(splitT.V.Pos()), "components are not Split(TrimPrefix(s, \"m/\"), \"/\"): %s", splitT)
	}
	elem := "load(iaddr(" + termPat(splitT) + ", bin<+>(ind<+1>(-1), 1)))"

	// ---- the key routine: the function that applies the regexp to one component — ParsePath itself, or a helper
	// ParsePath calls with the component (analysed with its parameters bound to the arguments, so that the
	// component and everything derived from it print the same in both)
	type site struct {
		fn *ssa.Function
		b  *ana.Builder
	}
	reCallIn := func(s site) (ssa.CallInstruction, *ana.Term) {
		for _, ci := range ana.Calls(s.fn) {
			if strings.HasPrefix(ana.CalleeName(ci.Common()), "(*regexp.Regexp).") {
				return ci, s.b.CallTermAt(ci)
			}
		}
		return nil, nil
	}
	key := site{fn, b}
	var keyCall *ana.Term
	reCI, reT := reCallIn(key)
	if reCI == nil {
		for _, ci := range ana.Calls(fn) {
			h := ana.StaticRepoCallee(ci.Common())
			if h == nil || h.Blocks == nil {
				continue
			}
			call := stripObj(b.CallTermAt(ci))
			if call.Op != "call" || len(call.Args) != len(h.Params) {
				continue
			}
			takesElem := false
			for _, a := range call.Args {
				if matches(elem, a) {
					takesElem = true
				}
			}
			if !takesElem {
				continue
			}
			cand := site{h, boundBuilderP(c.P, call)}
			if ci2, t2 := reCallIn(cand); ci2 != nil {
				key, keyCall, reCI, reT = cand, call, ci2, t2
				r.Fn(ana.ShortFunc(h))
			}
		}
	}

	// ---- regexp
	var groupPats []string
	pattern := ""
	var reGlobal string
	anchored := false
	if reCI != nil {
		name := ana.CalleeName(reCI.Common())
		if _, ok := ana.Match("call<*>(load(global<*>), ...)", reT); ok {
			reGlobal = reT.Arg(0).Arg(0).Name
		}
		r.Check(name == "(*regexp.Regexp).FindStringSubmatch", "C10.regexp.method", c.ipos(reCI), "regexp method used on a component is FindStringSubmatch (leftmost match + groups): %s", name)
	}
	if reGlobal == "" {
		r.Undec("C10.regexp.anchor", c.P.Pos(fn.Pos()), "ParsePath does not use a package-level *regexp.Regexp; rule template inapplicable")
	} else {
		gname := reGlobal[strings.LastIndex(reGlobal, ".")+1:]
		init, writers, g := c.globalInit("pkg/bip32path", gname)
		if init == nil {
			r.Undec("C10.regexp.anchor", "", "initialiser of %s not found", gname)
		} else if bd, ok := ana.Match("call<regexp.MustCompile>($p)", init); !ok {
			r.Undec("C10.regexp.anchor", c.P.Pos(g.Pos()), "%s is not initialised by regexp.MustCompile(constant): %s", gname, init)
		} else if p, isStr := bd["$p"].Str(); !isStr {
			r.Undec("C10.regexp.anchor", c.P.Pos(g.Pos()), "pattern is not a constant string")
		} else {
			pattern = p
			anchored = relang.Anchored(p)
			r.Check(writers == 1, "C10.regexp.single-writer", c.P.Pos(g.Pos()), "%s has %d writer(s); only its initialiser may write it", gname, writers)
			res, err := relang.Equiv(p, `[0-9]+[H']?`)
			if err != nil {
				r.Undec("C10.regexp.language", c.P.Pos(g.Pos()), "cannot decide: %v", err)
			} else {
				r.Check(res.Equal, "C10.regexp.language", c.P.Pos(g.Pos()), "L(%q) == L([0-9]+[H']?) for whole-string match; product automaton states=%d alphabet classes=%d counterexample=%q (in repo language: %v)", p, res.States, res.Classes, res.Counterexample, res.InFirst)
			}
			groups, err := relang.Captures(p)
			if err != nil || len(groups) != 2 {
				r.Viol("C10.regexp.groups", c.P.Pos(g.Pos()), "pattern must be two top-level capture groups (digits)(marker): %v %v", groups, err)
			} else {
				groupPats = groups
				r1, e1 := relang.Equiv(groups[0], `[0-9]+`)
				r2, e2 := relang.Equiv(groups[1], `[H']?`)
				r.Check(e1 == nil && r1.Equal, "C10.regexp.group1-digits", c.P.Pos(g.Pos()), "group 1 %q denotes [0-9]+ (cex %q)", groups[0], r1.Counterexample)
				r.Check(e2 == nil && r2.Equal, "C10.regexp.group2-marker", c.P.Pos(g.Pos()), "group 2 %q denotes [H']? (cex %q)", groups[1], r2.Counterexample)
			}
		}
	}
	mt := "call<(*regexp.Regexp).FindStringSubmatch>(load(global<" + reGlobal + ">), " + elem + ")"
	// FindStringSubmatch returns nil or 1+groups entries (3 here): "some match" has these spellings
	matchedPats := []string{"bin<>=>(len(" + mt + "), 2)", "bin<>=>(len(" + mt + "), 1)", "bin<>=>(len(" + mt + "), 3)", "bin<==>(len(" + mt + "), 3)", "bin<!=>(" + mt + ", nil)"}
	noMatchPats := []string{"bin<<>(len(" + mt + "), 2)", "bin<<>(len(" + mt + "), 1)", "bin<<>(len(" + mt + "), 3)", "bin<!=>(len(" + mt + "), 3)", "bin<==>(" + mt + ", nil)"}
	// the match is the whole component: compared with it, or of the same length (a match is a substring of the component)
	wholePats := []string{"bin<==>(load(iaddr(" + mt + ", 0)), " + elem + ")", "bin<==>(" + elem + ", load(iaddr(" + mt + ", 0)))", "bin<==>(len(load(iaddr(" + mt + ", 0))), len(" + elem + "))", "bin<==>(len(" + elem + "), len(load(iaddr(" + mt + ", 0))))"}
	partPats := []string{"bin<!=>(load(iaddr(" + mt + ", 0)), " + elem + ")", "bin<!=>(" + elem + ", load(iaddr(" + mt + ", 0)))", "bin<!=>(len(load(iaddr(" + mt + ", 0))), len(" + elem + "))", "bin<!=>(len(" + elem + "), len(load(iaddr(" + mt + ", 0))))"}
	// the numeric parse of capture group 1, written out or behind a parse helper (looked through by the matcher)
	parseVal := "alt(conv<uint32>(ext#0(call<strconv.ParseUint>(load(iaddr(" + mt + ", 1)), _, _))), ext#0(call<*>(load(iaddr(" + mt + ", 1)))))"
	parseErr := "alt(ext#1(call<strconv.ParseUint>(load(iaddr(" + mt + ", 1)), _, _)), ext#1(call<*>(load(iaddr(" + mt + ", 1)))), ext#1(call<*>(load(iaddr(" + mt + ", 1)), _)))" // (a helper handed the digits, or the digits and the marker verdict: C10.base.helper-error)
	rejectPats := append(append(append([]string{}, noMatchPats...), partPats...), "bin<!=>("+parseErr+", nil)")

	// ---- exits of ParsePath
	// errOK: the error is ErrInvalidPathFormat or the numeric parse error, possibly wrapped with %w
	errOK := func(errT *ana.Term, needWrap bool) (bool, string) {
		_, w1 := ana.Find("load(global<repo/pkg/bip32path.ErrInvalidPathFormat>)", errT)
		pe, _ := ana.Find(parseErr, errT)
		fmtS := ""
		if bd, ok := ana.Match("call<fmt.Errorf>($f, _)", errT); ok {
			fmtS, _ = bd["$f"].Str()
		}
		wrapped := strings.Contains(fmtS, "%w")
		bare := errT.Is("load") || errT.Is("ext")
		return (w1 != nil || pe != nil) && (wrapped || !needWrap && bare), fmtS
	}
	emptyEdges := plainEdges(edgesMatching(b, `bin<==>(p0, "")`, `bin<==>(p0, "m")`))
	nEmpty, nLoopRet, nErr := 0, 0, 0
	for _, e := range ana.Exits(fn) {
		if e.Panic {
			r.Viol("C10.no-panic.explicit", c.ipos(e.Instr), "explicit panic in ParsePath")
			continue
		}
		errT := b.Of(e.Results[1], e.Instr)
		valT := b.Of(e.Results[0], e.Instr)
		if errT.Is("nil") {
			if _, ok := ana.Match("slice(alloc<[0]uint32>, 0, none)", valT); ok {
				nEmpty++
				r.Check(exitMustPass(fn, e, emptyEdges) && len(emptyEdges) == 2, "C10.exits.empty-path", c.ipos(e.Instr), "empty path returned exactly under s==\"\" or s==\"m\"")
			} else {
				nLoopRet++
				// success return after the loop must not be reachable through the empty shortcuts
				r.Check(!exitMustPass(fn, e, emptyEdges), "C10.exits.path-return", c.ipos(e.Instr), "path return comes from the component loop")
			}
			continue
		}
		nErr++
		r.Check(valT.Is("nil"), "C10.exits.error-no-path", c.ipos(e.Instr), "error return carries a nil path")
		ok, fmtS := errOK(errT, true)
		if !ok && keyCall != nil {
			// the key routine's error, wrapped here: each of its failing exits carries one of the two errors
			if w, _ := ana.Find("ext#1("+termPat(keyCall)+")", errT); w != nil && strings.Contains(fmtS, "%w") {
				ok = true
				for _, ke := range ana.Exits(key.fn) {
					if ke.Panic || len(ke.Results) != 2 {
						continue
					}
					if ket := key.b.Of(ke.Results[1], ke.Instr); !ket.Is("nil") {
						if good, _ := errOK(ket, false); !good {
							ok = false
						}
					}
				}
			}
		}
		r.Check(ok, "C10.exits.error-wrap", c.ipos(e.Instr), "error wraps (%%w) ErrInvalidPathFormat or the numeric parse error: format %q", fmtS)
	}
	r.Floor("C10.floor.exits", nEmpty+nLoopRet+nErr, 2, "returns of ParsePath")
	// closed list of reject reasons: an error return is reachable only through one of these edges (in ParsePath, or —
	// for "the key routine failed" — in the key routine)
	rejectEdges := c.rejectEdges(b, rejectPats...)
	avoid := ana.ReachableAvoiding(fn, rejectEdges)
	for _, e := range ana.Exits(fn) {
		if e.Panic || b.Of(e.Results[1], e.Instr).Is("nil") {
			continue
		}
		r.Check(!avoid[e.Instr.Block()], "C10.exits.reject-closed", c.ipos(e.Instr), "error return reachable only through {no digit group matched, match is not the whole component, numeric parse error} (%d reject edges found); any other rejection refuses a string the statement accepts", len(rejectEdges))
	}

	// ---- value sites: where the index of one component is final — the appended value, or (key routine) its successful results
	type vsite struct {
		s   site
		blk *ssa.BasicBlock
		v   *ana.Term
		at  ssa.Instruction
		via *ana.Edge // one case of a merged return: the selecting edge
	}
	var sites []vsite
	valRoutines := map[*ssa.Function]bool{}
	outerGates := map[*ssa.Function]ssa.CallInstruction{}
	for _, ci := range ana.CallsTo(fn, "builtin.append") {
		t := b.CallTermAt(ci)
		elemT, _ := ana.Find("store(iaddr(self, 0), $v)", t.Arg(1))
		if elemT == nil {
			r.Undec("C10.exits.append", c.ipos(ci), "appended element not recognised: %s", short(t.String(), 300))
			continue
		}
		v := elemT.Arg(1)
		if keyCall != nil && matches("ext#0("+termPat(keyCall)+")", v) {
			gk := plainEdges(edgesMatching(b, "bin<==>(ext#1("+termPat(keyCall)+"), nil)"))
			r.Check(mustPass(fn, ci.Block(), gk), "C10.exits.gate-parse-error", c.ipos(ci), "append only after the key routine returned no error")
			for _, ke := range ana.Exits(key.fn) {
				if ke.Panic || len(ke.Results) != 2 || !key.b.Of(ke.Results[1], ke.Instr).Is("nil") {
					continue
				}
				sites = append(sites, vsite{key, ke.Instr.Block(), key.b.Of(ke.Results[0], ke.Instr), ke.Instr, ke.Via})
			}
			continue
		}
		// the value finished by a (value, error) helper of its own — it parses the digits and applies the marker it is handed:
		// its successful exits are the sites, analysed with its parameters bound to the arguments
		if hc := stripObj(v); hc.Op == "ext" && hc.Idx == 0 && len(hc.Args) == 1 && stripObj(hc.Args[0]).Op == "call" {
			call := stripObj(hc.Args[0])
			if h := calleeOf(call); h != nil && h.Blocks != nil && ana.InRepo(h) && len(ana.BackEdges(h)) == 0 && len(call.Args) == len(h.Params) && len(h.Params) >= 2 && h.Signature.Results().Len() == 2 && len(h.Blocks) > 2 {
				hb := c.boundBuilder(call)
				gk := plainEdges(edgesMatching(b, "raw:bin<==>(ext#1("+termPat(call)+"), nil)"))
				var hs []vsite
				for _, he := range ana.Exits(h) {
					if he.Panic || len(he.Results) != 2 || !hb.Of(he.Results[1], he.Instr).Is("nil") {
						continue
					}
					hs = append(hs, vsite{site{h, hb}, he.Instr.Block(), hb.Of(he.Results[0], he.Instr), he.Instr, he.Via})
				}
				if len(gk) > 0 && len(hs) > 0 {
					r.Fn(ana.ShortFunc(h))
					r.Check(mustPass(fn, ci.Block(), gk), "C10.exits.gate-parse-error", c.ipos(ci), "append only after the value routine returned no error")
					sites = append(sites, hs...)
					valRoutines[h] = true
					outerGates[h] = ci
					continue
				}
			}
		}
		sites = append(sites, vsite{site{fn, b}, ci.Block(), v, ci, nil})
	}
	var parseCall *ssa.Call
	for _, vs := range sites {
		sb, sfn, blk, v, pos := vs.s.b, vs.s.fn, vs.blk, vs.v, c.ipos(vs.at)
		via := vs.via
		mustPass := func(fn *ssa.Function, blk *ssa.BasicBlock, edges []ana.Edge) bool { // edge-aware for merged returns
			if via != nil {
				return edgeMustPass(fn, *via, edges)
			}
			return !ana.ReachableAvoiding(fn, edges)[blk] && len(edges) > 0
		}
		hardPats := []string{"bin<>>(len(load(iaddr(" + mt + ", 2))), 0)", "bin<!=>(len(load(iaddr(" + mt + ", 2))), 0)", "bin<!=>(load(iaddr(" + mt + ", 2)), \"\")"}
		softPats := []string{"bin<<=>(len(load(iaddr(" + mt + ", 2))), 0)", "bin<==>(len(load(iaddr(" + mt + ", 2))), 0)", "bin<==>(load(iaddr(" + mt + ", 2)), \"\")", "bin<<=>(len(" + mt + "), 2)"}
		// v + 2^31 equals v | 2^31 for v < 2^31, which the 31-bit parse (C10.base.bitsize31) guarantees
		bd, ok := ana.Match("phi(alt(bin<|>($v, 2147483648), bin<+>($v, 2147483648)), $v)", v)
		if !ok {
			// one site per branch instead of one merged value
			if hb, isHard := ana.Match("alt(bin<|>($v, 2147483648), bin<+>($v, 2147483648))", v); isHard {
				bd, ok = hb, true
				r.Check(mustPass(sfn, blk, plainEdges(edgesMatching(sb, hardPats...))), "C10.exits.hardened-iff-marker", pos, "v|1<<31 is produced only when capture group 2 is non-empty")
			} else if _, isParse := ana.Match(parseVal, v); isParse {
				bd, ok = ana.Binds{"$v": v}, true
				r.Check(mustPass(sfn, blk, plainEdges(edgesMatching(sb, softPats...))), "C10.exits.unhardened-iff-no-marker", pos, "plain v is produced only when capture group 2 is empty or absent")
			}
		}
		if !ok {
			r.Viol("C10.exits.hardened-value", pos, "component value is not v or v|1<<31: %s", short(v.String(), 300))
			continue
		}
		_, ok = ana.Match(parseVal, bd["$v"])
		r.Check(ok, "C10.exits.digits-group", pos, "numeric value is parsed from capture group 1 of the component's match: %s", short(bd["$v"].String(), 200))
		if ok && bd["$v"].Is("ext") {
			if call, isCall := bd["$v"].Arg(0).V.(*ssa.Call); isCall {
				parseCall = call
			}
		}
		g1 := plainEdges(edgesMatching(sb, matchedPats...))
		g2 := plainEdges(edgesMatching(sb, wholePats...))
		g3 := plainEdges(edgesMatching(sb, "bin<==>("+parseErr+", nil)"))
		// (for a site inside the value routine the match gates are passed on the way to its call in the key routine)
		pass := func(inner []ana.Edge, pats []string) bool {
			if mustPass(sfn, blk, inner) {
				return true
			}
			if o := outerGates[sfn]; o != nil {
				og := plainEdges(edgesMatching(b, pats...))
				return len(og) > 0 && !ana.ReachableAvoiding(fn, og)[o.Block()]
			}
			return false
		}
		okMatched, okWhole := pass(g1, matchedPats), pass(g2, wholePats)
		r.Check(okMatched, "C10.exits.gate-matched", pos, "component value only after a match was found (a digit group matched)")
		r.Check(anchored && okMatched || okWhole, "C10.regexp.whole-component", pos, "component value only after matches[0]==component, or with a pattern anchored at both ends (the whole component matches)")
		r.Check(mustPass(sfn, blk, g3), "C10.exits.gate-parse-error", pos, "component value only after the numeric parse returned no error")
		// hardened variant selected iff group 2 non-empty
		if phi, isPhi := v.V.(*ssa.Phi); isPhi {
			hardEdges := plainEdges(edgesMatching(sb, hardPats...))
			softEdges := plainEdges(edgesMatching(sb, softPats...))
			for i, ev := range phi.Edges {
				pred := phi.Block().Preds[i]
				edge := ana.Edge{From: pred, To: phi.Block()}
				if _, isOr := ev.(*ssa.BinOp); isOr {
					r.Check(edgeMustPass(sfn, edge, hardEdges), "C10.exits.hardened-iff-marker", pos, "v|1<<31 is chosen only when capture group 2 is non-empty")
				} else {
					r.Check(edgeMustPass(sfn, edge, softEdges), "C10.exits.unhardened-iff-no-marker", pos, "plain v is chosen only when capture group 2 is empty or absent")
				}
			}
		}
	}

	// ---- base / bit size
	nParse := 0
	for _, rf := range reachableRepoFuncs(fn) {
		r.Fn(ana.ShortFunc(rf))
		rb := ana.NewBuilder(c.P, rf)
		for _, ci := range ana.Calls(rf) {
			name := ana.CalleeName(ci.Common())
			switch name {
			case "strconv.ParseUint", "strconv.ParseInt":
				nParse++
				t := rb.CallTermAt(ci)
				base, okb := t.Arg(1).Int()
				bits, okz := t.Arg(2).Int()
				r.Check(okb && base == 10, "C10.base.decimal", c.ipos(ci), "%s base argument is %s; base 0 reads a leading 0 as octal and accepts 0x/0b/_ forms, the statement requires decimal", name, t.Arg(1))
				r.Check(okz && bits == 31 && name == "strconv.ParseUint", "C10.base.bitsize31", c.ipos(ci), "%s bit size argument is %s (values must be below 2^31)", name, t.Arg(2))
				if rf != fn && rf != key.fn {
					r.Check(t.Arg(0).IsParam(0), "C10.base.digits-arg", c.ipos(ci), "the parsed text is the helper's argument: %s", t.Arg(0))
					for _, e := range ana.Exits(rf) {
						if e.Panic {
							continue
						}
						et := rb.Of(e.Results[1], e.Instr)
						vt := rb.Of(e.Results[0], e.Instr)
						if et.Is("nil") && valRoutines[rf] {
							continue // its value is decided above, exit by exit (C10.exits.hardened-iff-marker)
						}
						if et.Is("nil") {
							// (a value below 2^31 is unchanged by & 0x7fffffff)
							_, ok := ana.MatchAny(vt, "conv<uint32>(ext#0(call<"+name+">(p0, _, _)))", "conv<uint32>(bin<&>(ext#0(call<"+name+">(p0, _, _)), 2147483647))", "bin<&>(conv<uint32>(ext#0(call<"+name+">(p0, _, _))), 2147483647)")
							r.Check(ok, "C10.base.helper-value", c.ipos(e.Instr), "helper returns the parsed number unchanged: %s", vt)
						} else {
							_, ok := ana.Match("ext#1(call<"+name+">(p0, _, _))", et)
							r.Check(ok, "C10.base.helper-error", c.ipos(e.Instr), "helper propagates the strconv error: %s", et)
						}
					}
				}
			case "strconv.Atoi", "fmt.Sscanf", "fmt.Sscan", "(*math/big.Int).SetString":
				nParse++
				r.Viol("C10.base.decimal", c.ipos(ci), "numeric parse through %s does not bound the value to 31 bits", name)
			}
		}
		for _, e := range ana.Exits(rf) {
			if e.Panic {
				r.Viol("C10.no-panic.explicit", c.ipos(e.Instr), "explicit panic reachable from ParsePath in %s", rf.Name())
			}
		}
	}
	r.Floor("C10.floor.parse-sites", nParse, 1, "numeric parse call sites")
	if parseCall != nil {
		r.OK("C10.base.callee-resolved", c.ipos(parseCall), "numeric parse helper resolved through the call graph: %s", ana.CalleeName(&parseCall.Call))
	}

	// ---- no-panic: constant indices into matches (in the key routine)
	nIdx := 0
	for _, blk := range key.fn.Blocks {
		for _, ins := range blk.Instrs {
			ia, ok := ins.(*ssa.IndexAddr)
			if !ok {
				continue
			}
			t := key.b.Of(ia, ia)
			if bd, ok := ana.Match("iaddr("+mt+", $k)", t); ok {
				k, isInt := bd["$k"].Int()
				nIdx++
				// a non-nil result has 1+groups entries, so "some match" guards every group index
				guarded := isInt && constIndexGuarded(key.b, ia, t.Arg(0), k)
				if !guarded && isInt && len(groupPats) == 2 && k <= 2 {
					guarded = mustPass(key.fn, blk, plainEdges(edgesMatching(key.b, matchedPats...)))
				}
				r.Check(guarded, "C10.no-panic.index-guarded", c.ipos(ia), "matches[%s] evaluated only under a test that implies it exists (len test, or non-nil result of a pattern with two groups)", bd["$k"])
			}
		}
	}
	r.Floor("C10.floor.index-sites", nIdx, 1, "constant index sites on the sub-match slice")
	if pattern != "" {
		r.OK("C10.no-panic.mustcompile", "", "MustCompile argument %q compiled by the checker without error", pattern)
	}

	pureScan(c, "C10.pure.no-package-state", fn, c.P.Func("pkg/bip32path", "Path.String"), c.P.Func("pkg/bip32path", "Path.UnmarshalText"), c.P.Func("pkg/bip32path", "Path.MarshalText"))

	// ---- printer
	if sf := c.fn("pkg/bip32path", "Path.String"); sf != nil {
		sb := ana.NewBuilder(c.P, sf.Function)
		for _, e := range ana.Exits(sf.Function) {
			if e.Panic {
				continue
			}
			t := sb.Of(e.Results[0], e.Instr)
			bd, ok := ana.Match("call<(*strings.Builder).String>(obj(alloc<strings.Builder>, call<(*strings.Builder).WriteByte>(self, $m), maybe(call<(*strings.Builder).WriteString>(self, call<fmt.Sprintf>($f, slice(obj(_, store(iaddr(self, 0), $val)), 0, none)))), maybe(call<(*strings.Builder).WriteByte>(self, $h))))", t)
			if !ok {
				// the separator byte and the decimal digits written separately: strconv.FormatUint(uint64(v), 10) / Itoa print what %d prints
				bd2, ok2 := ana.Match("call<(*strings.Builder).String>(obj(alloc<strings.Builder>, call<(*strings.Builder).WriteByte>(self, $m), maybe(call<(*strings.Builder).WriteByte>(self, $s)), maybe(call<(*strings.Builder).WriteString>(self, alt(call<strconv.FormatUint>(conv<uint64>($val), 10), call<strconv.Itoa>(conv<int>($val))))), maybe(call<(*strings.Builder).WriteByte>(self, $h))))", t)
				if sb2, isInt := bd2["$s"].Int(); ok2 && isInt {
					lit := constant.MakeString(string(rune(sb2)) + "%d")
					bd2["$f"] = &ana.Term{Op: "const", Name: lit.ExactString(), C: lit}
					bd, ok = bd2, true
				}
			}
			if !ok {
				r.Undec("C10.print-parse-agree.shape", c.ipos(e.Instr), "printer is not m, then per index Sprintf(sep+verb, value) and an optional marker byte: %s", short(t.String(), 500))
				continue
			}
			m, _ := bd["$m"].Int()
			h, _ := bd["$h"].Int()
			fs, _ := bd["$f"].Str()
			r.Check(m == 'm', "C10.print-parse-agree.prefix", c.ipos(e.Instr), "printer starts with %q; parser accepts \"m\" alone and strips \"m/\"", string(rune(m)))
			r.Check(fs == sep+"%d" && sep != "", "C10.print-parse-agree.verb-separator", c.ipos(e.Instr), "printer format %q = parser separator %q + decimal verb %%d (parser base must be 10, see C10.base)", fs, sep)
			_, okv := ana.MatchAny(bd["$val"], "bin<&^>(load(iaddr(p0, bin<+>(ind<+1>(-1), 1))), 2147483648)", "bin<&>(load(iaddr(p0, bin<+>(ind<+1>(-1), 1))), 2147483647)")
			r.Check(okv, "C10.print-parse-agree.value", c.ipos(e.Instr), "printed number is idx &^ 1<<31: %s", bd["$val"])
			if len(groupPats) == 2 {
				q := quoteRe(string(rune(h)))
				res, err := relang.Equiv("(?:"+groupPats[1]+")|"+q, groupPats[1])
				r.Check(err == nil && res.Equal, "C10.print-parse-agree.marker", c.ipos(e.Instr), "printer's hardened marker %q is in the language of the parser's marker group %q", string(rune(h)), groupPats[1])
			}
			// marker written iff idx >= 1<<31
			es := edgesMatching(sb, "bin<>=>(load(iaddr(p0, bin<+>(ind<+1>(-1), 1))), 2147483648)")
			okm := false
			for _, ci := range ana.CallsTo(sf.Function, "(*strings.Builder).WriteByte") {
				ct := sb.CallTermAt(ci)
				if ct.Arg(1).String() == bd["$h"].String() && ci.Block() != sf.Function.Blocks[0] {
					okm = mustPass(sf.Function, ci.Block(), plainEdges(es))
				}
			}
			r.Check(okm, "C10.print-parse-agree.marker-iff-hardened", c.ipos(e.Instr), "marker byte is written exactly under idx >= 1<<31")
		}
	}
}

func quoteRe(s string) string {
	var sb strings.Builder
	for _, r := range s {
		if strings.ContainsRune(`\.+*?()|[]{}^$'`, r) {
			sb.WriteByte('\\')
		}
		sb.WriteRune(r)
	}
	return sb.String()
}

// termPat renders a term as a pattern that matches exactly it.
func termPat(t *ana.Term) string {
	if t == nil {
		return "_"
	}
	return t.String()
}

// pathAvoids reports whether `to` is reachable from `from` without using the edges.
func pathAvoids(fn *ssa.Function, from, to *ssa.BasicBlock, edges []ana.Edge) bool {
	return ana.ReachableFrom(from, edges)[to]
}
