package props

import (
	"fmt"
	"go/token"
	"go/types"
	"strings"

	"golang.org/x/tools/go/ssa"

	"verif/checker/internal/ana"
)

// C13 — PoW Mine terminates, honours cancellation and is race- and leak-free.

func init() {
	register(&Prop{
		ID:    "C13",
		Level: "other",
		Explanation: "Static concurrency-skeleton analysis (engine K) of both Mine functions and everything their goroutines call: every variable shared with a goroutine is accessed only through sync/atomic, is a channel / WaitGroup used only through its operations, or is written only before the `go` that shares it; no function reachable from a worker writes package-level state; " +
			"the results channel's capacity term equals the bound of the loop that spawns the senders and each sender sends at most once; wg.Add precedes each spawn, Done is deferred first, Wait precedes close/receive/return; close(closing) lies on every path from the watcher's spawn to a return; " +
			"the watcher blocks only in one select on ctx.Done() and closing and stores the flag atomically; every unbounded cycle of the worker polls the flag atomically with the loop exit depending on it; ErrCancelled is returned exactly on a receive from the closed empty channel. " +
			"This is sufficient for race freedom of these functions under the Go memory model and for no-blocked-send / no-leak; wall-clock bounds and scheduler fairness are not static notions. " +
			"The clause that a returned nonce meets the target is the statement of C11 (v1) and C12 (v2); their obligations are decided here as well (C13.meets-target.*).",
		Run: runC13,
	})
}

func runC13(c *Ctx) {
	r := c.R
	r.Rule("C13.shared-access", "every cell shared between Mine and a goroutine it starts (closure capture or address passed on) is (a) touched only via sync/atomic, or (b) a sync.WaitGroup / channel used only through its operations, or (c) stored only before the go statement that shares it and only loaded afterwards; functions reachable from the goroutines do not write package-level variables nor mutate objects loaded from them")
	r.Rule("C13.sender-capacity", "cap(results) term equals the bound term of the spawning loop; every spawned closure contains at most one send, outside any loop; Mine and the watcher do not send")
	r.Rule("C13.join", "wg.Add(1) dominates each worker go; the worker closure's first instruction defers wg.Done; wg.Wait dominates close(results), the receive and every return after the spawn loop")
	r.Rule("C13.watcher-release", "the watcher blocks only in one select over {ctx.Done(), closing}; close(closing) is on every path from the watcher's go statement to a return of Mine")
	r.Rule("C13.cancel-flow", "the ctx.Done() case stores 1 to done atomically; every cycle of the worker that is not a range/const-bounded loop has the atomic load of done as its loop condition; a finder stores done atomically before sending")
	r.Rule("C13.result", "ErrCancelled is returned exactly when the receive from the closed results channel reports !ok; otherwise the received nonce; a worker returns without sending only when its search returned an error")
	r.NotDec("wall-clock bound of one batch; scheduler fairness")
	r.Assume("Go memory model: sync/atomic operations, channel operations and WaitGroup Add/Done/Wait synchronise as documented")

	for _, rel := range []string{"pkg/pow", "pkg/pow/v2"} {
		c13Mine(c, rel)
	}
	// "Mine returns either a nonce that meets the target or the cancellation error": the first half is the statement of
	// C11 (v1) and C12 (v2); their obligations are decided here as well (a change to the target computation inside Mine
	// breaks this property too)
	r.Rule("C13.meets-target", "the obligations of C11 (pow v1) and C12 (pow v2) hold: a nonce handed out by Mine meets the target score")
	reKey(c, "C11.", "C13.meets-target.v1.", func() { runC11(c) })
	reKey(c, "C12.", "C13.meets-target.v2.", func() { runC12(c) })
}

type sharedCell struct {
	cell   *ssa.Alloc
	name   string
	goUses []*ssa.Go // go statements whose closure captures it
}

func c13Mine(c *Ctx, rel string) {
	r := c.R
	tag := map[string]string{"pkg/pow": "v1", "pkg/pow/v2": "v2"}[rel]
	K := func(s string) string { return s + "." + tag }
	f := c.P.Func(rel, "Worker.Mine")
	if f == nil {
		r.Undec(K("C13.anchor.Mine"), "", "Mine not found in %s", rel)
		return
	}
	r.Fn(ana.ShortFunc(f))
	b := ana.NewBuilder(c.P, f)

	// ---- go statements and their closures
	var gos []*ssa.Go
	for _, ci := range ana.Calls(f) {
		if g, ok := ci.(*ssa.Go); ok {
			gos = append(gos, g)
		}
	}
	r.Floor(K("C13.floor.go-sites"), len(gos), 2, "go statements in Mine")
	// the body a go statement starts: a closure literal, or a named repository function / method
	closureOf := func(g *ssa.Go) (*ssa.Function, *ssa.MakeClosure) {
		if mc, ok := g.Call.Value.(*ssa.MakeClosure); ok {
			return mc.Fn.(*ssa.Function), mc
		}
		if cal := ana.StaticRepoCallee(&g.Call); cal != nil && cal.Blocks != nil {
			return cal, nil
		}
		return nil, nil
	}
	type goSite struct {
		g  *ssa.Go
		fn *ssa.Function
		mc *ssa.MakeClosure
	}
	var watcherS, workerS goSite
	var watcher, worker *ssa.Function
	var watcherGo, workerGo *ssa.Go
	for _, g := range gos {
		fn, mc := closureOf(g)
		if fn == nil {
			r.Undec(K("C13.anchor.go"), c.ipos(g), "go statement starts neither a closure literal nor a repository function")
			continue
		}
		r.Fn(ana.ShortFunc(fn))
		hasSelect := false
		for _, blk := range fn.Blocks {
			for _, ins := range blk.Instrs {
				if _, ok := ins.(*ssa.Select); ok {
					hasSelect = true
				}
			}
		}
		if hasSelect {
			watcher, watcherGo, watcherS = fn, g, goSite{g, fn, mc}
		} else {
			worker, workerGo, workerS = fn, g, goSite{g, fn, mc}
		}
	}
	if watcher == nil || worker == nil {
		r.Undec(K("C13.anchor.closures"), c.P.Pos(f.Pos()), "expected one watcher goroutine (with a select) and one worker goroutine")
		return
	}

	// ---- shared cells
	cells := map[*ssa.Alloc]*sharedCell{}
	share := func(a *ssa.Alloc, g *ssa.Go) {
		sc := cells[a]
		if sc == nil {
			sc = &sharedCell{cell: a, name: a.Comment}
			cells[a] = sc
		}
		sc.goUses = append(sc.goUses, g)
	}
	for _, g := range gos {
		_, mc := closureOf(g)
		if mc == nil {
			// a named goroutine function shares what it is handed by address
			for _, a := range g.Call.Args {
				switch x := a.(type) {
				case *ssa.Alloc:
					share(x, g)
				case *ssa.Slice: // a view of a local array
					if al, ok := x.X.(*ssa.Alloc); ok {
						share(al, g)
					}
				}
			}
			continue
		}
		for _, bd := range mc.Bindings {
			if a, ok := bd.(*ssa.Alloc); ok {
				share(a, g)
			} else {
				r.Viol(K("C13.shared-access.capture"), c.ipos(g), "closure captures a non-cell value %s", bd.Name())
			}
		}
	}
	r.Floor(K("C13.floor.shared-cells"), len(cells), 1, "cells shared with goroutines")
	// Variables are identified by what they denote, never by name. An entity is the make(chan) instruction of a
	// channel, the cell of a flag / counter / WaitGroup, or a parameter of Mine (the context); inMine resolves a value
	// of Mine to its entity, inBody a value inside a goroutine body (captured variable or parameter of a named function).
	var inMine func(v ssa.Value) ssa.Value
	inMine = func(v ssa.Value) ssa.Value {
		switch x := v.(type) {
		case *ssa.UnOp:
			if a, ok := x.X.(*ssa.Alloc); ok && x.Op == token.MUL {
				if st := firstStore(a); st != nil {
					switch st.Val.(type) {
					case *ssa.MakeChan, *ssa.Parameter:
						return inMine(st.Val)
					}
				}
				return a
			}
		case *ssa.ChangeType:
			return inMine(x.X)
		case *ssa.MakeInterface:
			return inMine(x.X)
		}
		return v
	}
	inBody := func(s goSite, v ssa.Value) ssa.Value {
		binding := func(fv *ssa.FreeVar) ssa.Value {
			if s.mc == nil {
				return nil
			}
			for i, f := range s.fn.FreeVars {
				if f == fv && i < len(s.mc.Bindings) {
					return s.mc.Bindings[i]
				}
			}
			return nil
		}
		switch x := v.(type) {
		case *ssa.UnOp:
			if fv, ok := x.X.(*ssa.FreeVar); ok && x.Op == token.MUL {
				if cell, _ := binding(fv).(*ssa.Alloc); cell != nil {
					if st := firstStore(cell); st != nil {
						switch st.Val.(type) {
						case *ssa.MakeChan, *ssa.Parameter:
							return inMine(st.Val)
						}
					}
					return cell
				}
			}
		case *ssa.FreeVar:
			if bv := binding(x); bv != nil {
				return bv
			}
		case *ssa.Parameter:
			for i, p := range s.fn.Params {
				if p == x && i < len(s.g.Call.Args) {
					return inMine(s.g.Call.Args[i])
				}
			}
		case *ssa.ChangeType:
			return x.X
		}
		return v
	}
	termIn := func(s goSite, t *ana.Term) ssa.Value {
		if t == nil || t.V == nil {
			return nil
		}
		return inBody(s, t.V)
	}
	var doneCell *ssa.Alloc
	var ctxEnt ssa.Value
	if len(f.Params) > 1 {
		ctxEnt = f.Params[1]
	}
	for a, sc := range cells {
		if et := a.Type().(*types.Pointer).Elem().String(); et == "uint32" && len(sc.goUses) == 2 {
			doneCell = a
		}
	}

	for _, sc := range cells {
		kind, detail := c13Classify(c, f, sc, gos)
		key := K("C13.shared-access." + sc.name)
		if kind == "" {
			r.Viol(key, c.P.Pos(sc.cell.Pos()), "shared variable %s: %s", sc.name, detail)
		} else {
			r.OK(key, c.P.Pos(sc.cell.Pos()), "shared variable %s: %s (%s)", sc.name, kind, detail)
		}
	}
	// no package-level mutable state in anything the goroutines reach
	pureScan(c, K("C13.shared-access.no-global-writes"), watcher, worker)

	// ---- channels
	// ---- channels: made by this call, shared with the goroutines (captured or passed)
	var resMake, closeMake *ssa.MakeChan
	noteChan := func(v ssa.Value) {
		if mk, ok := inMine(v).(*ssa.MakeChan); ok && mk.Parent() == f {
			if elem := mk.Type().Underlying().(*types.Chan).Elem(); elem.String() == "uint64" {
				resMake = mk
			} else {
				closeMake = mk
			}
		}
	}
	for a := range cells {
		if st := firstStore(a); st != nil {
			noteChan(st.Val)
		}
	}
	for _, g := range gos {
		for _, a := range g.Call.Args {
			noteChan(a)
		}
	}
	if resMake == nil || closeMake == nil {
		r.Undec(K("C13.anchor.channels"), c.P.Pos(f.Pos()), "results / closing channels not identified")
		return
	}

	// ---- sender capacity
	capT := b.Of(resMake.Size, resMake)
	var loopBound *ana.Term
	var spawnLoop ana.CondEdge
	for _, ce := range b.CondEdges() {
		if bd, ok := ana.Match("bin<<>(ind<+1>(0), $n)", ce.Lit); ok && ce.Taken {
			lb := ana.LoopBlocks(ana.Edge{From: workerGo.Block(), To: ce.From})
			if lb[workerGo.Block()] || workerGo.Block().Dominates(ce.From) == false {
				loopBound = bd["$n"]
				spawnLoop = ce
			}
		}
	}
	inLoop := false
	for _, be := range ana.BackEdges(f) {
		if ana.LoopBlocks(be)[workerGo.Block()] {
			inLoop = true
		}
	}
	r.Check(loopBound != nil && inLoop && capT.String() == loopBound.String(), K("C13.sender-capacity.cap-equals-senders"), c.ipos(resMake), "cap(results) = %s; senders are spawned for i < %s: a finder can never block on the send", short(capT.String(), 80), short(fmt.Sprint(loopBound), 80))
	// the bound is not written between make and loop: w.numWorkers has no store in Mine
	for _, blk := range f.Blocks {
		for _, ins := range blk.Instrs {
			if st, ok := ins.(*ssa.Store); ok {
				if fa, isF := st.Addr.(*ssa.FieldAddr); isF && strings.Contains(b.Of(fa, st).String(), "numWorkers") {
					r.Viol(K("C13.sender-capacity.bound-stable"), c.ipos(st), "numWorkers is written inside Mine")
				}
			}
		}
	}
	sends := map[*ssa.Function]int{}
	for _, fn := range append([]*ssa.Function{f, watcher, worker}, worker.AnonFuncs...) {
		for _, blk := range fn.Blocks {
			for _, ins := range blk.Instrs {
				if s, ok := ins.(*ssa.Send); ok {
					sends[fn]++
					for _, be := range ana.BackEdges(fn) {
						if ana.LoopBlocks(be)[s.Block()] {
							r.Viol(K("C13.sender-capacity.one-send"), c.ipos(s), "send inside a loop")
						}
					}
				}
			}
		}
	}
	r.Check(sends[worker] == 1 && sends[f] == 0 && sends[watcher] == 0, K("C13.sender-capacity.one-send"), c.P.Pos(worker.Pos()), "each worker closure sends at most once; Mine and the watcher never send (worker=%d mine=%d watcher=%d)", sends[worker], sends[f], sends[watcher])
	// sends in callees of the worker
	for _, fn := range reachableRepoFuncs(worker) {
		if fn == worker {
			continue
		}
		for _, blk := range fn.Blocks {
			for _, ins := range blk.Instrs {
				if _, ok := ins.(*ssa.Send); ok {
					r.Viol(K("C13.sender-capacity.one-send"), c.ipos(ins), "%s (called from the worker) sends on a channel", fn.Name())
				}
			}
		}
	}

	// ---- join
	var addCall, waitCall ssa.CallInstruction
	for _, ci := range ana.Calls(f) {
		switch ana.CalleeName(ci.Common()) {
		case "(*sync.WaitGroup).Add":
			addCall = ci
		case "(*sync.WaitGroup).Wait":
			waitCall = ci
		}
	}
	okAdd := addCall != nil && ana.InstrDominates(addCall, workerGo) && addCall.Block() == workerGo.Block()
	if okAdd {
		t := b.CallTermAt(addCall)
		okAdd = t.Arg(1).IsInt(1)
	}
	if !okAdd && addCall != nil {
		// all workers registered at once: wg.Add(n) before a loop i = 0..n-1 that spawns exactly one worker per iteration
		nT := b.CallTermAt(addCall).Arg(1)
		for _, ce := range b.CondEdges() {
			if !ce.Taken || !matches("bin<<>(ind<+1>(0), alt("+termPat(nT)+", conv<int>("+termPat(nT)+")))", ce.Lit) && !matches("bin<<>(conv<int>(ind<+1>(0)), "+termPat(nT)+")", ce.Lit) {
				continue
			}
			var back []ana.Edge
			for _, e := range ana.BackEdges(f) {
				if e.To == ce.From {
					back = append(back, e)
				}
			}
			if len(back) == 1 && addCall.Block().Dominates(ce.From) && addCall.Block() != ce.From && ce.To.Dominates(workerGo.Block()) && workerGo.Block().Dominates(back[0].From) {
				okAdd = true
			}
		}
	}
	r.Check(okAdd, K("C13.join.add-before-go"), c.ipos(workerGo), "wg.Add(1) executes in the spawning iteration before the go statement (not inside the goroutine)")
	firstIsDefer := false
	if len(worker.Blocks) > 0 && len(worker.Blocks[0].Instrs) > 0 {
		if d, ok := worker.Blocks[0].Instrs[0].(*ssa.Defer); ok && ana.CalleeName(&d.Call) == "(*sync.WaitGroup).Done" {
			firstIsDefer = true
		}
	}
	okRD := true
	for _, blk := range worker.Blocks {
		if _, isRet := blk.Instrs[len(blk.Instrs)-1].(*ssa.Return); isRet && blk != worker.Recover {
			hasRD := false
			for _, ins := range blk.Instrs {
				if _, ok := ins.(*ssa.RunDefers); ok {
					hasRD = true
				}
			}
			okRD = okRD && hasRD
		}
	}
	r.Check(firstIsDefer && okRD, K("C13.join.deferred-done"), c.P.Pos(worker.Pos()), "the worker's first statement is `defer wg.Done()` and every return runs it")
	var closeRes, closeClosing ssa.CallInstruction
	var recv *ssa.UnOp
	for _, ci := range ana.CallsTo(f, "builtin.close") {
		t := b.CallTermAt(ci)
		switch {
		case inMine(ci.Common().Args[0]) == ssa.Value(resMake):
			closeRes = ci
		case inMine(ci.Common().Args[0]) == ssa.Value(closeMake):
			closeClosing = ci
		default:
			r.Viol(K("C13.join.close-targets"), c.ipos(ci), "close of an unexpected channel: %s", t)
		}
	}
	for _, blk := range f.Blocks {
		for _, ins := range blk.Instrs {
			if u, ok := ins.(*ssa.UnOp); ok && u.Op.String() == "<-" {
				recv = u
			}
		}
	}
	okJoin := waitCall != nil && closeRes != nil && recv != nil && ana.InstrDominates(waitCall, closeRes) && ana.InstrDominates(closeRes, recv)
	if okJoin {
		for _, e := range ana.Exits(f) {
			if !e.Panic && canReachBlock(workerGo.Block(), e.Instr.Block()) {
				okJoin = okJoin && ana.InstrDominates(waitCall, e.Instr)
			}
		}
		// the receive must come from the results channel and happen exactly once, outside loops
		okJoin = okJoin && inMine(recv.X) == ssa.Value(resMake) && recv.CommaOk
	}
	r.Check(okJoin, K("C13.join.wait-close-receive"), c.P.Pos(f.Pos()), "wg.Wait() dominates close(results), which dominates the single `v, ok := <-results`, and every return after spawning")

	// ---- watcher release
	okSel, doneStore := false, false
	nBlocking := 0
	wb := ana.NewBuilder(c.P, watcher)
	for _, blk := range watcher.Blocks {
		for _, ins := range blk.Instrs {
			switch x := ins.(type) {
			case *ssa.Select:
				nBlocking++
				if x.Blocking && len(x.States) == 2 {
					var sawDone, sawClosing bool
					for _, st := range x.States {
						// ctx.Done() of Mine's own context, and the closing channel of this call
						if dc, isCall := st.Chan.(*ssa.Call); isCall && dc.Call.IsInvoke() && dc.Call.Method.Name() == "Done" && ctxEnt != nil && inBody(watcherS, dc.Call.Value) == ctxEnt {
							sawDone = true
						}
						if inBody(watcherS, st.Chan) == ssa.Value(closeMake) {
							sawClosing = true
						}
						if st.Dir != types.RecvOnly {
							sawDone = false
						}
					}
					okSel = sawDone && sawClosing
				}
			case *ssa.UnOp:
				if x.Op.String() == "<-" {
					nBlocking++
				}
			case *ssa.Send:
				nBlocking++
			case ssa.CallInstruction:
				n := ana.CalleeName(x.Common())
				if n == "sync/atomic.StoreUint32" {
					t := wb.CallTermAt(x)
					bd, m := ana.Match("call<*>($c, 1)", t)
					doneStore = m && doneCell != nil && termIn(watcherS, bd["$c"]) == ssa.Value(doneCell)
					// under case 0 (ctx.Done)
				}
				if strings.HasPrefix(n, "(*sync.") || n == "time.Sleep" {
					nBlocking++
				}
			}
		}
	}
	r.Check(okSel && nBlocking == 1, K("C13.watcher-release.single-select"), c.P.Pos(watcher.Pos()), "the watcher's only blocking operation is one blocking select receiving from ctx.Done() and closing")
	r.Check(doneStore, K("C13.cancel-flow.watcher-stores-done"), c.P.Pos(watcher.Pos()), "on cancellation the watcher stores 1 to done with sync/atomic")
	okRel := closeClosing != nil
	if okRel {
		// every return reachable from the watcher's go statement passes close(closing)
		for _, e := range ana.Exits(f) {
			if e.Panic || !canReachBlock(watcherGo.Block(), e.Instr.Block()) {
				continue
			}
			if !ana.InstrDominates(closeClosing, e.Instr) {
				okRel = false
				r.Viol(K("C13.watcher-release.close-on-every-path"), c.ipos(e.Instr), "this return is reachable after the watcher was started without passing close(closing): the watcher goroutine leaks until the context is cancelled")
			}
		}
	}
	if okRel {
		r.OK(K("C13.watcher-release.close-on-every-path"), c.ipos(closeClosing), "close(closing) dominates every return reachable after the watcher's go statement")
	} else if closeClosing == nil {
		r.Viol(K("C13.watcher-release.close-on-every-path"), c.P.Pos(f.Pos()), "closing is never closed")
	}

	// ---- cancel flow in the search routine
	var search *ssa.Function
	for _, ci := range ana.Calls(worker) {
		if cal := ana.StaticRepoCallee(ci.Common()); cal != nil {
			search = cal
		}
	}
	if search == nil {
		r.Undec(K("C13.cancel-flow.poll"), c.P.Pos(worker.Pos()), "search routine not found")
	} else {
		r.Fn(ana.ShortFunc(search))
		sb := ana.NewBuilder(c.P, search)
		unbounded, polled := 0, 0
		for _, be := range ana.BackEdges(search) {
			hdr := be.To
			ifi, ok := hdr.Instrs[len(hdr.Instrs)-1].(*ssa.If)
			bounded := false
			var lit *ana.Term
			if ok {
				lit = sb.Of(ifi.Cond, ifi)
				if _, m := ana.MatchAny(lit, "bin<<>(bin<+>(ind<+1>(-1), 1), len(_))", "bin<<>(ind<+1>(_), $k)", "bin<>=>(ind<-1>(_), 0)"); m {
					bounded = true
				}
			}
			if bounded {
				continue
			}
			unbounded++
			// every trip round the cycle passes an edge on which a fresh atomic load of the done flag (a parameter) read 0 —
			// as the loop condition or as `if load != 0 { break / return }` anywhere in the body
			var polls []ana.Edge
			loop := ana.LoopBlocks(be)
			for _, ce := range sb.CondEdges() {
				if !loop[ce.From] {
					continue
				}
				if bd, m := ana.Match("bin<==>(call<sync/atomic.LoadUint32>($d), 0)", ce.Lit); m && bd["$d"].Op == "param" {
					if ld, isCall := ce.Lit.Arg(0).V.(*ssa.Call); isCall && loop[ld.Block()] {
						polls = append(polls, ce.Edge)
					}
				}
			}
			beIsPoll := false
			for _, p := range polls {
				if p == be {
					beIsPoll = true
				}
			}
			if len(polls) > 0 && (beIsPoll || !ana.ReachableFrom(hdr, polls)[be.From]) {
				polled++
				continue
			}
			r.Viol(K("C13.cancel-flow.poll"), c.P.Pos(hdr.Instrs[0].Pos()), "unbounded cycle in %s whose continuation does not depend on an atomic load of the done flag: %s", search.Name(), short(fmt.Sprint(lit), 120))
		}
		r.Check(unbounded >= 1 && unbounded == polled, K("C13.cancel-flow.poll"), c.P.Pos(search.Pos()), "%d unbounded cycle(s) in the search routine, each continuing only while atomic.LoadUint32(done) == 0", unbounded)
		// callees of the search routine must not loop unboundedly either (repo functions only)
		for _, fn := range reachableRepoFuncs(search) {
			if fn == search {
				continue
			}
			fb := ana.NewBuilder(c.P, fn)
			for _, be := range ana.BackEdges(fn) {
				hdr := be.To
				ifi, ok := hdr.Instrs[len(hdr.Instrs)-1].(*ssa.If)
				if !ok {
					r.Viol(K("C13.cancel-flow.callee-loops"), c.P.Pos(fn.Pos()), "loop without condition in %s", fn.Name())
					continue
				}
				lit := fb.Of(ifi.Cond, ifi)
				if _, m := ana.MatchAny(lit, "bin<<>(bin<+>(ind<+1>(-1), 1), len(_))", "bin<<>(ind<+1>(_), _)", "bin<<=>(ind<+1>(_), _)", "bin<>=>(ind<-1>(_), 0)"); !m {
					r.Viol(K("C13.cancel-flow.callee-loops"), c.P.Pos(fn.Pos()), "loop in %s is not a counted/range loop: %s", fn.Name(), short(lit.String(), 100))
				}
			}
		}
	}
	// finder stores done before sending
	var storeDone ssa.CallInstruction
	var send *ssa.Send
	for _, blk := range worker.Blocks {
		for _, ins := range blk.Instrs {
			if ci, ok := ins.(ssa.CallInstruction); ok {
				// done is non-zero afterwards: Store(done, 1), or CompareAndSwap(done, 0, 1) (if it fails done was non-zero already)
				t := ana.NewBuilder(c.P, worker).CallTermAt(ci)
				bd, m := ana.MatchAny(t, "call<sync/atomic.StoreUint32>($c, 1)", "call<sync/atomic.CompareAndSwapUint32>($c, 0, 1)")
				if m && doneCell != nil && termIn(workerS, bd["$c"]) == ssa.Value(doneCell) {
					storeDone = ci
				}
			}
			if s, ok := ins.(*ssa.Send); ok {
				send = s
			}
		}
	}
	r.Check(storeDone != nil && send != nil && ana.InstrDominates(storeDone, send), K("C13.cancel-flow.finder-stores-done"), c.P.Pos(worker.Pos()), "a finder stores done atomically before sending its nonce")

	// ---- result
	wkb := ana.NewBuilder(c.P, worker)
	errE := plainEdges(edgesMatching(wkb, "bin<!=>(ext#1(call<*>(...)), nil)"))
	okE := plainEdges(edgesMatching(wkb, "bin<==>(ext#1(call<*>(...)), nil)"))
	okRes := send != nil && len(errE) == 1 && mustPass(worker, send.Block(), okE)
	if okRes {
		st := wkb.Of(send.X, send)
		okRes = matches("ext#0(call<*>(...))", st)
	}
	r.Check(okRes, K("C13.result.worker"), c.P.Pos(worker.Pos()), "the worker sends exactly the nonce its search returned, and only when the search returned no error")
	okMine := false
	nCancel := 0
	okEdge := plainEdges(edgesMatching(b, "ext#1(un<<->($ch))"))
	notOk := plainEdges(edgesMatching(b, "un<!>(ext#1(un<<->($ch)))"))
	for _, e := range ana.Exits(f) {
		if e.Panic || !canReachBlock(workerGo.Block(), e.Instr.Block()) {
			continue
		}
		et := b.Of(e.Results[1], e.Instr)
		vt := b.Of(e.Results[0], e.Instr)
		if et.Is("nil") {
			okMine = matches("ext#0(un<<->(_))", vt) && exitMustPass(f, e, okEdge)
		} else if strings.Contains(et.String(), "ErrCancelled") {
			nCancel++
			if !exitMustPass(f, e, notOk) {
				okMine = false
				r.Viol(K("C13.result.mine"), c.ipos(e.Instr), "ErrCancelled returned on a path other than the !ok receive")
			}
		}
	}
	r.Check(okMine && nCancel == 1, K("C13.result.mine"), c.P.Pos(f.Pos()), "Mine returns the received nonce when ok, ErrCancelled exactly when the closed channel is empty")
	_ = spawnLoop
	_ = wb
}

// chanCellOf: value is a load of a channel-holding cell; returns the cell.
func chanCellOf(v ssa.Value) *ssa.Alloc {
	if u, ok := v.(*ssa.UnOp); ok && u.Op.String() == "*" {
		if a, ok := u.X.(*ssa.Alloc); ok {
			return a
		}
	}
	return nil
}

func chanFreeVar(v ssa.Value) string {
	if u, ok := v.(*ssa.UnOp); ok && u.Op.String() == "*" {
		if fv, ok := u.X.(*ssa.FreeVar); ok {
			return fv.Name()
		}
	}
	return ""
}

func firstStore(a *ssa.Alloc) *ssa.Store {
	for _, ref := range *a.Referrers() {
		if st, ok := ref.(*ssa.Store); ok && st.Addr == ssa.Value(a) {
			return st
		}
	}
	return nil
}

// c13Classify classifies all accesses to a shared cell.
func c13Classify(c *Ctx, mine *ssa.Function, sc *sharedCell, gos []*ssa.Go) (kind, detail string) {
	type use struct {
		fn  *ssa.Function
		ins ssa.Instruction
		ptr ssa.Value
	}
	var uses []use
	var collect func(fn *ssa.Function, ptr ssa.Value, depth int)
	collect = func(fn *ssa.Function, ptr ssa.Value, depth int) {
		if depth > 4 {
			return
		}
		for _, ref := range *ptr.Referrers() {
			switch x := ref.(type) {
			case *ssa.MakeClosure:
				cl := x.Fn.(*ssa.Function)
				for i, bd := range x.Bindings {
					if bd == ptr {
						collect(cl, cl.FreeVars[i], depth+1)
					}
				}
			case *ssa.DebugRef:
			case ssa.CallInstruction:
				cc := x.Common()
				if cal := ana.StaticRepoCallee(cc); cal != nil {
					for i, a := range cc.Args {
						if a == ptr && i < len(cal.Params) {
							collect(cal, cal.Params[i], depth+1)
						}
					}
					continue
				}
				uses = append(uses, use{fn, x, ptr})
			default:
				uses = append(uses, use{fn, x, ptr})
			}
		}
	}
	collect(mine, sc.cell, 0)
	elem := sc.cell.Type().(*types.Pointer).Elem()
	allAtomic, allWG := len(uses) > 0, len(uses) > 0
	var plain []use
	for _, u := range uses {
		isAtomic, isWG := false, false
		if ci, ok := u.ins.(ssa.CallInstruction); ok {
			n := ana.CalleeName(ci.Common())
			if strings.HasPrefix(n, "sync/atomic.") && len(ci.Common().Args) > 0 && ci.Common().Args[0] == u.ptr {
				isAtomic = true
			}
			if strings.HasPrefix(n, "(*sync.WaitGroup).") && ci.Common().Args[0] == u.ptr {
				isWG = true
			}
		}
		if !isAtomic {
			allAtomic = false
		}
		if !isWG {
			allWG = false
		}
		if !isAtomic && !isWG {
			plain = append(plain, u)
		}
	}
	if allAtomic {
		return "atomic-only", fmt.Sprintf("%d accesses, all through sync/atomic", len(uses))
	}
	if allWG && elem.String() == "sync.WaitGroup" {
		return "WaitGroup", fmt.Sprintf("%d uses, all Add/Done/Wait", len(uses))
	}
	// read-only after spawn: every store is in Mine, before each go that shares the cell; everything else is a load
	for _, u := range plain {
		switch x := u.ins.(type) {
		case *ssa.UnOp:
			if x.Op.String() != "*" {
				return "", fmt.Sprintf("unexpected use %s in %s", x, u.fn.Name())
			}
		case *ssa.Slice:
			// a view of an array cell handed on: every consumer must only read through it
			fb := ana.NewBuilder(c.P, u.fn)
			for _, ref := range *x.Referrers() {
				ci, ok := ref.(ssa.CallInstruction)
				if !ok {
					if _, dbg := ref.(*ssa.DebugRef); dbg {
						continue
					}
					return "", fmt.Sprintf("slice of the shared array used by %T in %s", ref, u.fn.Name())
				}
				for i, a := range ci.Common().Args {
					if a == ssa.Value(x) && fb.MayMutateOperand(ci.Common(), i) {
						return "", fmt.Sprintf("%s may write through a slice of the shared array in %s", ana.CalleeName(ci.Common()), u.fn.Name())
					}
				}
			}
		case *ssa.Store:
			if u.fn != mine || x.Addr != u.ptr {
				return "", fmt.Sprintf("plain store in %s at %s — a data race with the goroutines sharing it", u.fn.Name(), c.ipos(x))
			}
			for _, g := range sc.goUses {
				if !ana.InstrDominates(x, g) {
					// a store that can execute after a go that shares the cell
					if canReachBlock(g.Block(), x.Block()) {
						return "", fmt.Sprintf("store at %s can execute after the go statement at %s that shares it", c.ipos(x), c.ipos(g))
					}
				}
			}
		default:
			if _, isAtomicMix := u.ins.(ssa.CallInstruction); isAtomicMix {
				return "", fmt.Sprintf("address passed to %s in %s", ana.CalleeName(u.ins.(ssa.CallInstruction).Common()), u.fn.Name())
			}
			return "", fmt.Sprintf("unexpected use %T in %s", u.ins, u.fn.Name())
		}
	}
	// mixed atomic and plain access is a race
	nAtomic := len(uses) - len(plain)
	if nAtomic > 0 {
		stores := 0
		for _, u := range plain {
			if _, ok := u.ins.(*ssa.Store); ok {
				stores++
			}
		}
		loads := len(plain) - stores
		if loads > 0 {
			return "", fmt.Sprintf("mixes %d atomic and %d plain accesses", nAtomic, len(plain))
		}
	}
	return "read-only after spawn", fmt.Sprintf("%d accesses: stores only in Mine before the sharing go statement(s), loads elsewhere", len(uses))
}

// reachableRepoAndDeps: repository functions reachable through static calls (incl. closures).
func reachableRepoAndDeps(fn *ssa.Function) []*ssa.Function { return reachableRepoFuncs(fn) }
