package props

import (
	"fmt"
	"go/types"
	"runtime"
	"sync"

	"golang.org/x/tools/go/ssa"

	"verif/checker/internal/ana"
	"verif/checker/internal/bitdom"
)

// C06 — Batched Curl equals independent Curl-P-81 sponges, lane by lane.

func init() {
	register(&Prop{
		ID:    "C06",
		Level: "other",
		Explanation: "Static decision of the structural premises of lane independence: in the bit-level ANF domain, for every lane index 0..W-1, Curl.in changes only bit idx of the first 243 state words (as a function of that word's old bit and the lane's trit) and Curl.out reads only bit idx; the trit encoding (−1,0,1) ↔ (l,h) = (1,0),(1,1),(0,1) is extracted from those polynomials; " +
			"Absorb resets all 243 rate words of both planes before absorbing each block, absorbs every lane at block offset i, then transforms; Squeeze transforms exactly when the sponge is already squeezing at block start; no store to the receiver happens on any path to an error return; Clone copies every (value-typed) field and Reset re-initialises all of them. " +
			"The permutation itself is C20. Equality with a reference sponge over arbitrary call histories is a behavioural composition of these premises and is not claimed as such.",
		Configs: func(tier string) []ana.Config {
			cs := []ana.Config{{Tags: []string{"purego"}}}
			if tier == "thorough" {
				cs = append(cs, ana.Config{GOARCH: "386"})
			}
			return cs
		},
		Run: runC06,
	})
}

func runC06(c *Ctx) {
	r := c.R
	r.Rule("C06.lane-noninterference", "for every idx in 0..W-1: after in(src, idx), bit j != idx of every state word is unchanged, words >= 243 are unchanged, and bit idx of l[i] (h[i]) is old ∧ (src[i] <= 0) (old ∧ (src[i] >= 0)); out(dst, idx) depends only on bit idx of h[i], l[i]")
	r.Rule("C06.trit-encoding", "on a reset lane, in maps trit −1,0,1 to (l,h) = (1,0),(1,1),(0,1); out = h-bit − l-bit inverts it")
	r.Rule("C06.rate-reset", "Absorb, per block i = 0,243,… < tritsCount: l[j],h[j] = all-ones for j = 0..242, then in(src[k][i:], k) for every lane k, then transform()")
	r.Rule("C06.squeeze-order", "Squeeze, per block: transform() iff direction == Squeezing at block start; direction = Squeezing; out(dst[k][i:], k) for every lane k; destination slices are fresh")
	r.Rule("C06.error-before-effect", "every instruction of Absorb/Squeeze that can modify the receiver (store, or call with the receiver as a mutated operand) executes only after all argument validation edges; error returns are reachable only through their negations")
	r.Rule("C06.clone-reset-exhaustive", "every field of Curl is value-typed; Clone's result carries each field of the receiver; Reset stores all-ones to all 729 words of both planes and Absorbing to direction")
	r.NotDec("equality with a reference sponge over arbitrary Absorb/Squeeze/Clone/Reset histories (composition of the decided premises with C20)")

	pureScan(c, "C06.pure.no-package-state", c.P.Func("pkg/curl", "Curl.Absorb"), c.P.Func("pkg/curl", "Curl.Squeeze"), c.P.Func("pkg/curl", "Curl.Clone"), c.P.Func("pkg/curl", "Curl.Reset"), c.P.Func("pkg/curl", "Curl.CopyState"), c.P.Func("pkg/curl", "NewCurlP81"))
	W := c.wordBits()
	c06Lanes(c, W)
	c06Sponge(c)
	c06CloneReset(c)
}

func c06Lanes(c *Ctx, W int) {
	r := c.R
	inFn := c06LaneFn(c, "Curl.in", "Curl.Absorb")
	outFn := c06LaneFn(c, "Curl.out", "Curl.Squeeze")
	if inFn == nil || outFn == nil {
		r.Undec("C06.lane-noninterference.anchor", "", "Curl.in / Curl.out not found")
		return
	}
	r.Fn(ana.ShortFunc(inFn))
	r.Fn(ana.ShortFunc(outFn))
	// decided once, before the lanes are interpreted in parallel: building terms is not safe for concurrent use
	inBit, outBit := laneBitForm(c, inFn), laneBitForm(c, outFn)
	st, _ := c.P.Pkg("pkg/curl").Pkg.Scope().Lookup("Curl").Type().Underlying().(*types.Struct)
	if st == nil || st.NumFields() != 3 {
		r.Undec("C06.lane-noninterference.anchor", "", "Curl struct shape changed")
		return
	}
	mkState := func(in *bitdom.Interp) (*bitdom.Struct, *bitdom.Array, *bitdom.Array) {
		l, h := &bitdom.Array{Name: "l"}, &bitdom.Array{Name: "h"}
		for i := 0; i < 729; i++ {
			if i < 243+2 { // the words in/out may touch plus two witnesses beyond the rate
				l.Elems = append(l.Elems, in.SymBV(fmt.Sprintf("l[%d]", i), W, W, false))
				h.Elems = append(h.Elems, in.SymBV(fmt.Sprintf("h[%d]", i), W, W, false))
			} else {
				l.Elems = append(l.Elems, bitdom.ConstBV(0, W, false))
				h.Elems = append(h.Elems, bitdom.ConstBV(0, W, false))
			}
		}
		s := &bitdom.Struct{Fields: []bitdom.Val{l, h, bitdom.ConstBV(0, 64, true)}}
		return s, l, h
	}
	bad := ""
	note := func(f string, a ...interface{}) {
		if bad == "" {
			bad = fmt.Sprintf(f, a...)
		}
	}
	enc := map[int][2]bool{}
	var mu sync.Mutex
	origNote := note
	note = func(f string, a ...interface{}) {
		mu.Lock()
		defer mu.Unlock()
		origNote(f, a...)
	}
	isBad := func() bool {
		mu.Lock()
		defer mu.Unlock()
		return bad != ""
	}
	parallelLanes(W, func(idx int) {
		in := bitdom.New(c.P.SSA, W)
		s, l, h := mkState(in)
		oldL := append([]bitdom.Val{}, l.Elems...)
		oldH := append([]bitdom.Val{}, h.Elems...)
		src := in.SymSlice("t", 243, 8, 8, false)
		for _, e := range src.A.Elems {
			e.(*bitdom.BV).Signed = true
		}
		ex, err := in.Call(inFn, laneArgs(inFn, W, &bitdom.Ptr{Cell: &bitdom.Cell{V: s}}, src, idx, inBit))
		if err != nil || ex.Panic {
			note("in(idx=%d): %v", idx, err)
			return
		}
		if len(in.Cons) != 0 {
			note("in(idx=%d) rejects data-dependently", idx)
		}
		for i := 0; i < 245 && !isBad(); i++ {
			for pl, pair := range [][2]*bitdom.Array{{l, nil}, {h, nil}} {
				arr := pair[0]
				old := oldL
				if pl == 1 {
					old = oldH
				}
				nw := arr.Elems[i].(*bitdom.BV)
				ow := old[i].(*bitdom.BV)
				for j := 0; j < W; j++ {
					if j != idx || i >= 243 {
						if !bitdom.Equal(nw.Bits[j], ow.Bits[j]) {
							note("in(idx=%d) changes bit %d of %s[%d]", idx, j, arr.Name, i)
						}
						continue
					}
					// bit idx: old ∧ pred(trit i); pred depends only on trit i's bits
					sup := nw.Bits[j].Support()
					t := src.A.Elems[i].(*bitdom.BV)
					allowed := map[int]bool{}
					for _, p := range t.Bits {
						for _, v := range p.Support() {
							allowed[v] = true
						}
					}
					for _, v := range ow.Bits[j].Support() {
						allowed[v] = true
					}
					for _, v := range sup {
						if !allowed[v] {
							note("in(idx=%d): bit %d of %s[%d] depends on %s", idx, j, arr.Name, i, in.Name(v))
						}
					}
					// evaluate for trit −1,0,1 with old bit = 1 (reset lane)
					if i == 0 && idx == 0 {
						for _, tv := range []int{-1, 0, 1} {
							val := func(id int) bool {
								for k, p := range t.Bits {
									if s := p.Support(); len(s) == 1 && s[0] == id {
										return uint8(int8(tv))>>uint(k)&1 == 1
									}
								}
								return true // old state bit set
							}
							mu.Lock()
							e := enc[tv]
							e[pl] = nw.Bits[j].Eval(val)
							enc[tv] = e
							mu.Unlock()
						}
					}
				}
			}
		}
	})
	r.Check(bad == "", "C06.lane-noninterference.in", c.P.Pos(inFn.Pos()), "Curl.in decided in the %d-bit ANF domain for every lane index 0..%d with symbolic state and trits: only bit idx of l[i], h[i] (i < 243) changes and only as a function of its old value and trit i %s", W, W-1, bad)
	okEnc := enc[-1] == [2]bool{true, false} && enc[0] == [2]bool{true, true} && enc[1] == [2]bool{false, true}
	r.Check(okEnc, "C06.trit-encoding.in", c.P.Pos(inFn.Pos()), "on a reset lane in() encodes −1,0,1 as (l,h) = %v,%v,%v (want (1,0),(1,1),(0,1))", enc[-1], enc[0], enc[1])

	bad = ""
	decOK := true
	parallelLanes(W, func(idx int) {
		in := bitdom.New(c.P.SSA, W)
		s, l, h := mkState(in)
		dst := bitdom.ConstSlice(make([]uint64, 243), 8)
		for _, e := range dst.A.Elems {
			e.(*bitdom.BV).Signed = true
		}
		ex, err := in.Call(outFn, laneArgs(outFn, W, &bitdom.Ptr{Cell: &bitdom.Cell{V: s}}, dst, idx, outBit))
		if err != nil || ex.Panic {
			note("out(idx=%d): %v", idx, err)
			return
		}
		for i := 0; i < 243 && !isBad(); i++ {
			t := dst.A.Elems[i].(*bitdom.BV)
			lb := l.Elems[i].(*bitdom.BV).Bits[idx]
			hb := h.Elems[i].(*bitdom.BV).Bits[idx]
			lv, hv := lb.Support()[0], hb.Support()[0]
			for k, p := range t.Bits {
				for _, v := range p.Support() {
					if v != lv && v != hv {
						note("out(idx=%d): trit %d bit %d depends on %s", idx, i, k, in.Name(v))
					}
				}
			}
			if i == 0 {
				for _, cse := range []struct {
					l, h bool
					want int
				}{{true, false, -1}, {true, true, 0}, {false, true, 1}} {
					val := func(id int) bool {
						if id == lv {
							return cse.l
						}
						return cse.h
					}
					var x uint8
					for k, p := range t.Bits {
						if p.Eval(val) {
							x |= 1 << uint(k)
						}
					}
					if int(int8(x)) != cse.want {
						mu.Lock()
						decOK = false
						mu.Unlock()
					}
				}
			}
		}
	})
	r.Check(bad == "", "C06.lane-noninterference.out", c.P.Pos(outFn.Pos()), "Curl.out decided for every lane index: trit i of the output depends only on bit idx of l[i] and h[i] %s", bad)
	r.Check(decOK, "C06.trit-encoding.out", c.P.Pos(outFn.Pos()), "out() decodes (1,0),(1,1),(0,1) to −1,0,1 (h-bit − l-bit)")
}

func c06Sponge(c *Ctx) {
	r := c.R
	curlMethod := c.helper("pkg/curl", "Curl.transform")
	inName, outName := "<missing>", "<missing>"
	if f := c06LaneFn(c, "Curl.in", "Curl.Absorb"); f != nil {
		inName = f.String()
	}
	if f := c06LaneFn(c, "Curl.out", "Curl.Squeeze"); f != nil {
		outName = f.String()
	}
	for _, name := range []string{"Absorb", "Squeeze"} {
		f := c.fn("pkg/curl", "Curl."+name)
		if f == nil {
			continue
		}
		fn := f.Function
		b := ana.NewBuilder(c.P, fn)
		valid := [][]string{
			{"bin<>=>(len(p1), 1)", "bin<>>(len(p1), 0)"},
			{"bin<<=>(len(p1), 64)", "bin<<=>(len(p1), 32)"},
			{"bin<==>(bin<%>(p2, 243), 0)"},
		}
		invalid := plainEdges(edgesMatching(b, "bin<<>(len(p1), 1)", "bin<>>(len(p1), 64)", "bin<>>(len(p1), 32)", "bin<!=>(bin<%>(p2, 243), 0)"))
		var gates [][]ana.Edge
		for _, v := range valid {
			gates = append(gates, plainEdges(edgesMatching(b, v...)))
		}
		// effects on the receiver or on the destination
		nEff := 0
		for _, blk := range fn.Blocks {
			for _, ins := range blk.Instrs {
				eff := false
				switch x := ins.(type) {
				case *ssa.Store:
					root := b.Root(x.Addr)
					if root == ssa.Value(fn.Params[0]) || root == ssa.Value(fn.Params[1]) {
						eff = true
					}
				case ssa.CallInstruction:
					cc := x.Common()
					for i, a := range cc.Args {
						if root := b.Root(a); (root == ssa.Value(fn.Params[0]) || root == ssa.Value(fn.Params[1])) && b.MayMutateOperand(cc, i) {
							eff = true
						}
					}
				}
				if !eff {
					continue
				}
				nEff++
				for gi, g := range gates {
					if !(len(g) > 0 && mustPass(fn, blk, g)) {
						r.Viol("C06.error-before-effect."+name, c.ipos(ins), "state-changing instruction executes before validation gate %d passed: a call rejected with an error could have modified the sponge", gi)
					}
				}
			}
		}
		r.Check(nEff >= 1, "C06.error-before-effect."+name, c.P.Pos(fn.Pos()), "%d state-changing instructions in %s, all behind the three validation edges (batch size >= 1, <= W, length multiple of 243)", nEff, name)
		avoid := ana.ReachableAvoiding(fn, invalid)
		for _, e := range ana.Exits(fn) {
			if e.Panic {
				if name == "Absorb" {
					es := plainEdges(edgesMatching(b, "bin<!=>(load(faddr<#2>(p0)), 0)"))
					r.Check(exitMustPass(fn, e, es), "C06.error-before-effect.Absorb-panic", c.ipos(e.Instr), "Absorb panics only when called after a squeeze (direction != Absorbing), before any state change")
				} else {
					r.Viol("C06.error-before-effect.Squeeze-panic", c.ipos(e.Instr), "explicit panic in Squeeze")
				}
				continue
			}
			et := b.Of(e.Results[0], e.Instr)
			if !et.Is("nil") {
				r.Check(!avoid[e.Instr.Block()], "C06.error-before-effect."+name+"-errors", c.ipos(e.Instr), "error return reachable only through a failed validation: %s", short(et.String(), 100))
			}
		}
		// block structure
		blockLoop := edgesMatching(b, "bin<<>(ind<+243>(0), p2)")
		if name == "Absorb" {
			// the per-block work (reset, lanes, transform) sits in Absorb's block loop or in a helper the loop calls
			// with the batch and the block offset; the helper is analysed with its parameters bound to those arguments
			// resetIn: the reset loop of fn — its continue edges, its exit edges, and whether l[j] / h[j] are set to all-ones
			resetIn := func(fn *ssa.Function, b *ana.Builder) (loop []ana.CondEdge, exit []ana.Edge, stL, stH bool) {
				// j = 0..242 as a counted loop or as a range over l[:243] / h[:243]
				loop = edgesMatching(b, "bin<<>(ind<+1>(0), alt(243, len(slice(_, 0, 243))))")
				exit = plainEdges(edgesMatching(b, "bin<>=>(ind<+1>(0), alt(243, len(slice(_, 0, 243))))"))
				for _, blk := range fn.Blocks {
					for _, ins := range blk.Instrs {
						if st, ok := ins.(*ssa.Store); ok {
							at := b.Of(st.Addr, st)
							vt := b.Of(st.Val, st)
							allOnes := vt.String() == "18446744073709551615" || vt.String() == "4294967295"
							if _, m := ana.Match("iaddr(faddr<#0>(_), ind<+1>(0))", at); m && allOnes {
								stL = true
							}
							if _, m := ana.Match("iaddr(faddr<#1>(_), ind<+1>(0))", at); m && allOnes {
								stH = true
							}
						}
					}
				}
				return
			}
			blockBody := func(fn *ssa.Function, b *ana.Builder) (nReset int, stL, stH, okOrder bool) {
				resetLoop, resetExit, stL, stH := resetIn(fn, b)
				var resetCall ssa.CallInstruction
				if len(resetLoop) == 0 {
					// the reset alone in a method of the same receiver that does nothing else: one loop, one exit, no calls
					for _, ci := range ana.Calls(fn) {
						h := ana.StaticRepoCallee(ci.Common())
						if h == nil || h == fn || h == curlMethod || h.Blocks == nil || len(ana.Calls(h)) != 0 || len(ana.BackEdges(h)) != 1 {
							continue
						}
						call := stripObj(b.CallTermAt(ci))
						if call.Op != "call" || len(call.Args) != len(h.Params) || len(call.Args) == 0 || call.Args[0].String() != "p0" {
							continue
						}
						hb := boundBuilderP(c.P, call)
						l2, x2, sl, sh := resetIn(h, hb)
						rets := 0
						okRet := true
						for _, e := range ana.Exits(h) {
							if e.Panic {
								okRet = false
								continue
							}
							rets++
							okRet = okRet && exitMustPass(h, e, x2)
						}
						if len(l2) == 1 && len(x2) == 1 && sl && sh && rets == 1 && okRet {
							r.Fn(ana.ShortFunc(h))
							resetLoop, stL, stH, resetCall = l2, sl, sh, ci
						}
					}
				}
				var inCall, trCall ssa.CallInstruction
				for _, ci := range ana.Calls(fn) {
					t := b.CallTermAt(ci)
					// in(src[k][i:], k), or the whole lane with the block offset: in(src[k], i, k)
					if laneCall(t, inName, "p1") {
						inCall = ci
					}
					if ci.Common().StaticCallee() != nil && ci.Common().StaticCallee() == curlMethod {
						trCall = ci
					}
				}
				okOrder = false
				if inCall != nil && trCall != nil && (len(resetExit) == 1 || resetCall != nil) {
					lanes := false
					var laneExit []ana.Edge
					for _, l := range rangeLoops(b) {
						if l.Coll.IsParam(1) && l.Blocks[inCall.Block()] {
							lanes = true
							laneExit = []ana.Edge{{From: l.Header, To: l.Exit}}
						}
					}
					resetDone := resetCall == nil && mustPass(fn, inCall.Block(), resetExit) ||
						resetCall != nil && ana.InstrDominates(resetCall, inCall) && !laneLoopHas(rangeLoops(b), resetCall.Block())
					okOrder = lanes && resetDone && mustPass(fn, trCall.Block(), laneExit) && !mustPass(fn, trCall.Block(), plainEdges(edgesMatching(b, "bin<>=>(ind<+243>(0), p2)")))
				}
				return len(resetLoop), stL, stH, okOrder
			}
			nReset, stL, stH, okOrder := blockBody(fn, b)
			if !(nReset == 1 && stL && stH && okOrder) {
				for _, ci := range ana.Calls(fn) {
					h := ana.StaticRepoCallee(ci.Common())
					if h == nil || h == fn || h == curlMethod {
						continue
					}
					call := stripObj(b.CallTermAt(ci))
					if call.Op != "call" || len(call.Args) != len(h.Params) || len(blockLoop) != 1 || !mustPass(fn, ci.Block(), plainEdges(blockLoop)) {
						continue
					}
					if n2, l2, h2, o2 := blockBody(h, boundBuilderP(c.P, call)); n2 == 1 && l2 && h2 && o2 {
						r.Fn(ana.ShortFunc(h))
						nReset, stL, stH, okOrder = n2, l2, h2, o2
					}
				}
			}
			r.Check(len(blockLoop) == 1 && nReset == 1 && stL && stH && okOrder, "C06.rate-reset.absorb-block", c.P.Pos(fn.Pos()), "per block i (step 243, while i < tritsCount): reset l[j], h[j] to all-ones for j = 0..242; then in(src[k][i:], k) for every lane; then transform (block=%d reset=%d l=%v h=%v order=%v)", len(blockLoop), nReset, stL, stH, okOrder)
		} else {
			// `fresh` is decided in Squeeze itself; the per-block order in Squeeze's block loop or in the helper it calls per block
			fresh := false
			for _, blk := range fn.Blocks {
				for _, ins := range blk.Instrs {
					if st, ok := ins.(*ssa.Store); ok {
						at := b.Of(st.Addr, st)
						if matches("iaddr(p1, bin<+>(ind<+1>(-1), 1))", at) && matches("makeslice<[]int8>(p2, p2)", b.Of(st.Val, st)) {
							fresh = true
						}
					}
				}
			}
			squeezeBody := func(fn *ssa.Function, b *ana.Builder, body *ssa.BasicBlock) bool {
				sq := plainEdges(edgesMatching(b, "bin<==>(load(faddr<#2>(_)), 1)"))
				var trCall, outCall ssa.CallInstruction
				var dirStore *ssa.Store
				for _, ci := range ana.Calls(fn) {
					t := b.CallTermAt(ci)
					if ci.Common().StaticCallee() != nil && ci.Common().StaticCallee() == curlMethod {
						trCall = ci
					}
					if laneCall(t, outName, "_") {
						outCall = ci
					}
				}
				for _, blk := range fn.Blocks {
					for _, ins := range blk.Instrs {
						if st, ok := ins.(*ssa.Store); ok {
							if matches("faddr<#2>(_)", b.Of(st.Addr, st)) && b.Of(st.Val, st).IsInt(1) {
								dirStore = st
							}
						}
					}
				}
				if trCall == nil || outCall == nil || dirStore == nil || len(sq) != 1 || body == nil {
					return false
				}
				// (1) transform only when the sponge is already squeezing; (2) on that path transform always precedes out;
				// (3) out is reached only when direction == Squeezing was read or has just been stored — in whichever
				// way the two branches are arranged
				sqEdges := edgesMatching(b, "bin<==>(load(faddr<#2>(_)), 1)")
				ok1 := mustPass(fn, trCall.Block(), sq)
				ok2 := !canReachBlockAvoiding(fn, sqEdges[0].To, trCall.Block(), outCall.Block())
				removed := append([]ana.Edge{}, sq...)
				for _, sx := range dirStore.Block().Succs {
					removed = append(removed, ana.Edge{From: dirStore.Block(), To: sx})
				}
				ok3 := !ana.ReachableFrom(body, removed)[outCall.Block()] || outCall.Block() == dirStore.Block() && ana.InstrDominates(dirStore, outCall)
				return ok1 && ok2 && ok3 && canReachBlock(body, dirStore.Block())
			}
			ok := false
			if len(blockLoop) == 1 {
				ok = squeezeBody(fn, b, blockLoop[0].To)
				if !ok {
					for _, ci := range ana.Calls(fn) {
						h := ana.StaticRepoCallee(ci.Common())
						if h == nil || h == fn || h == curlMethod || !mustPass(fn, ci.Block(), plainEdges(blockLoop)) {
							continue
						}
						call := stripObj(b.CallTermAt(ci))
						if call.Op == "call" && len(call.Args) == len(h.Params) && squeezeBody(h, boundBuilderP(c.P, call), h.Blocks[0]) {
							r.Fn(ana.ShortFunc(h))
							ok = true
						}
					}
				}
			}
			r.Check(ok && fresh, "C06.squeeze-order.block", c.P.Pos(fn.Pos()), "per block: transform() only under direction == Squeezing as read at block start; then direction = Squeezing; then out(dst[k][i:], k) for every lane; every dst[k] is a fresh slice of tritsCount trits (fresh=%v)", fresh)
		}
	}
}

// canReachBlockAvoiding: is `to` reachable from `from` without passing through `via`?
func canReachBlockAvoiding(fn *ssa.Function, from, via, to *ssa.BasicBlock) bool {
	seen := map[*ssa.BasicBlock]bool{via: true}
	var dfs func(x *ssa.BasicBlock) bool
	dfs = func(x *ssa.BasicBlock) bool {
		if x == to {
			return true
		}
		if seen[x] {
			return false
		}
		seen[x] = true
		for _, s := range x.Succs {
			if dfs(s) {
				return true
			}
		}
		return false
	}
	return dfs(from)
}

func c06CloneReset(c *Ctx) {
	r := c.R
	st, _ := c.P.Pkg("pkg/curl").Pkg.Scope().Lookup("Curl").Type().Underlying().(*types.Struct)
	if st == nil {
		r.Undec("C06.clone-reset-exhaustive.anchor", "", "Curl struct not found")
		return
	}
	valueTyped := true
	var fields []string
	for i := 0; i < st.NumFields(); i++ {
		fields = append(fields, ana.FieldName(st, i))
		switch u := st.Field(i).Type().Underlying().(type) {
		case *types.Array:
			if _, ok := u.Elem().Underlying().(*types.Basic); !ok {
				valueTyped = false
			}
		case *types.Basic:
		default:
			valueTyped = false
		}
	}
	r.Check(valueTyped, "C06.clone-reset-exhaustive.value-fields", "", "every field of Curl %v is an array of scalars or a scalar (a struct copy is a deep copy)", fields)
	if f := c.fn("pkg/curl", "Curl.Clone"); f != nil {
		b := ana.NewBuilder(c.P, f.Function)
		for _, e := range ana.Exits(f.Function) {
			if e.Panic {
				continue
			}
			t := b.Of(e.Results[0], e.Instr)
			all := matches("obj(alloc<repo/pkg/curl.Curl>, ...)", t)
			for _, fl := range fields {
				if w, _ := ana.Find("store(faddr<"+fl+">(self), load(faddr<"+fl+">(p0)))", t); w == nil {
					all = false
				}
			}
			whole, _ := ana.Match("obj(alloc<repo/pkg/curl.Curl>, store(self, load(p0)))", t)
			r.Check(all || whole != nil, "C06.clone-reset-exhaustive.clone", c.ipos(e.Instr), "Clone returns a new Curl carrying every field of the receiver (%v): %s", fields, short(t.String(), 200))
		}
		r.Check(globalsTouched(f.Function) == 0, "C06.clone-reset-exhaustive.clone-no-shared", c.P.Pos(f.Pos()), "Clone shares nothing with the original through package-level state")
	}
	if f := c.fn("pkg/curl", "Curl.Reset"); f != nil {
		fn := f.Function
		b := ana.NewBuilder(c.P, fn)
		// one loop over both arrays or one loop per array: every element store sits in a loop counting 0..728
		full := plainEdges(edgesMatching(b, "bin<<>(ind<+1>(0), alt(729, len(_)))"))
		loop := len(full) >= 1
		done := plainEdges(edgesMatching(b, "bin<>=>(ind<+1>(0), alt(729, len(_)))"))
		var sl, sh, sd, copyL, copyH bool
		for _, blk := range fn.Blocks {
			for _, ins := range blk.Instrs {
				if st, ok := ins.(*ssa.Store); ok {
					at, vt := b.Of(st.Addr, st), b.Of(st.Val, st)
					ones := vt.String() == "18446744073709551615" || vt.String() == "4294967295"
					if matches("iaddr(faddr<#0>(_), ind<+1>(0))", at) && ones {
						sl = mustPass(fn, blk, full)
					}
					if matches("iaddr(faddr<#1>(_), ind<+1>(0))", at) && ones {
						sh = mustPass(fn, blk, full)
					}
					if matches("faddr<#2>(_)", at) && vt.IsInt(0) {
						sd = true
					}
					// one array filled by the loop and then assigned as a whole to the other (c.h = c.l after the loop)
					if matches("faddr<#1>(_)", at) && matches("load(faddr<#0>(_))", vt) && mustPass(fn, blk, done) {
						copyH = true
					}
					if matches("faddr<#0>(_)", at) && matches("load(faddr<#1>(_))", vt) && mustPass(fn, blk, done) {
						copyL = true
					}
				}
			}
		}
		sl, sh = sl || copyL && sh, sh || copyH && sl
		r.Check(loop && sl && sh && sd && len(fields) == 3, "C06.clone-reset-exhaustive.reset", c.P.Pos(fn.Pos()), "Reset sets l[i], h[i] = all-ones for i = 0..728 and direction = Absorbing — every field (loop=%v l=%v h=%v direction=%v)", loop, sl, sh, sd)
	}
	if f := c.fn("pkg/curl", "NewCurlP81"); f != nil {
		b := ana.NewBuilder(c.P, f.Function)
		for _, e := range ana.Exits(f.Function) {
			if !e.Panic {
				t := b.Of(e.Results[0], e.Instr)
				_, ok := ana.Match("obj(alloc<repo/pkg/curl.Curl>, call<(*repo/pkg/curl.Curl).Reset>(self))", t)
				r.Check(ok, "C06.clone-reset-exhaustive.new", c.ipos(e.Instr), "a new instance is a zero Curl after Reset: Reset returns an instance to exactly the initial state")
			}
		}
	}
}

// parallelLanes runs f for every lane index on all cores (each run has its own interpreter).
// A panic inside a lane (a value the rule did not expect, e.g. an undecidable Top) is re-raised on the calling
// goroutine after all lanes finished, where the driver turns it into an UNDECIDED obligation.
func parallelLanes(w int, f func(idx int)) {
	n := runtime.NumCPU()
	if n > 16 {
		n = 16
	}
	ch := make(chan int)
	var wg sync.WaitGroup
	var mu sync.Mutex
	var failure interface{}
	for k := 0; k < n; k++ {
		wg.Add(1)
		go func() {
			defer wg.Done()
			for idx := range ch {
				func() {
					defer func() {
						if e := recover(); e != nil {
							mu.Lock()
							if failure == nil {
								failure = fmt.Sprintf("lane %d: %v", idx, e)
							}
							mu.Unlock()
						}
					}()
					f(idx)
				}()
			}
		}()
	}
	for idx := 0; idx < w; idx++ {
		ch <- idx
	}
	close(ch)
	wg.Wait()
	if failure != nil {
		panic(failure)
	}
}

func laneLoopHas(loops []rangeLoop, blk *ssa.BasicBlock) bool {
	for _, l := range loops {
		if l.Coll.IsParam(1) && l.Blocks[blk] {
			return true
		}
	}
	return false
}

// laneCall: t is the per-lane call name(recv, …) inside the lane loop over coll — the block of lane k as
// coll[k][i:] plus the lane k, or the whole lane coll[k] with the block offset i and the lane k (offset before lane, as
// laneArgs reads the signature); the trit slice and the lane may come in either order.
func laneCall(t *ana.Term, name, coll string) bool {
	t = stripObj(t)
	if t == nil || t.Op != "call" || t.Name != name || len(t.Args) < 3 {
		return false
	}
	const k = "bin<+>(ind<+1>(-1), 1)"
	kinds := ""
	// the state: the receiver, or — the lane routine as a plain function — the addresses of the receiver's two planes,
	// l before h (laneArgs binds the routine's first array parameter to l, its second to h)
	state := ""
	for i, a := range t.Args {
		switch {
		case i == 0 && (a.String() == "p0" || a.Op == "obj" && len(a.Args) > 0 && a.Args[0].String() == "p0"):
			state += "R"
			continue
		case matches("faddr<#0>(_)", a) && len(a.Args) == 1 && stripObj(a.Args[0]).String() == "p0":
			state += "A"
			continue
		case matches("faddr<#1>(_)", a) && len(a.Args) == 1 && stripObj(a.Args[0]).String() == "p0":
			state += "B"
			continue
		}
		switch {
		case matches("slice(load(iaddr("+coll+", "+k+")), ind<+243>(0), none)", a):
			kinds += "S"
		case matches("load(iaddr("+coll+", "+k+"))", a):
			kinds += "L"
		case matches("ind<+243>(0)", a):
			kinds += "O"
		case matches("alt("+k+", conv<uint>("+k+"), conv<int>("+k+"))", a), matches(laneBit, a):
			// the lane, or its bit 1<<k (laneBitForm: then at every call, and engine B hands the routine that bit)
			kinds += "K"
		default:
			return false
		}
	}
	if state != "R" && state != "AB" {
		return false
	}
	switch kinds {
	case "SK", "KS", "LOK", "OLK", "OKL":
		return true
	}
	return false
}

// c06LaneFn resolves a lane routine: by name / signature (c.helper), or — turned into a plain function that is handed
// the two planes — as the one repository function called by the API method `caller` that takes a trit slice and two
// pointers to the state array type.
func c06LaneFn(c *Ctx, name, caller string) *ssa.Function {
	if f := c.helper("pkg/curl", name); f != nil {
		return f
	}
	cf := c.P.Func("pkg/curl", caller)
	if cf == nil {
		return nil
	}
	var found []*ssa.Function
	seen := map[*ssa.Function]bool{}
	for _, ci := range ana.Calls(cf) {
		h := ana.StaticRepoCallee(ci.Common())
		if h == nil || seen[h] || h.Blocks == nil || h.Signature.Recv() != nil {
			continue
		}
		seen[h] = true
		planes, trits := 0, 0
		for _, p := range h.Params {
			if isPlanePtr(p.Type()) {
				planes++
			}
			if sl, ok := p.Type().Underlying().(*types.Slice); ok {
				if bt, ok := sl.Elem().Underlying().(*types.Basic); ok && bt.Kind() == types.Int8 {
					trits++
				}
			}
		}
		if planes == 2 && trits == 1 {
			found = append(found, h)
		}
	}
	if len(found) == 1 {
		return found[0]
	}
	return nil
}

// isPlanePtr: *[729]uint (a pointer to one plane of the batched state).
func isPlanePtr(t types.Type) bool {
	p, ok := t.Underlying().(*types.Pointer)
	if !ok {
		return false
	}
	a, ok := p.Elem().Underlying().(*types.Array)
	if !ok || a.Len() != 729 {
		return false
	}
	bt, ok := a.Elem().Underlying().(*types.Basic)
	return ok && bt.Kind() == types.Uint
}

// laneArgs builds the arguments of the lane routines in / out from their signature: the receiver, the trit slice,
// and the lane index as the last integer parameter; an integer parameter before it is the trit offset into the
// slice (0 here: the slice starts at the block).
// laneBitForm: every call of the lane routine fn in the package hands it the lane's bit 1<<k instead of the lane k.
func laneBitForm(c *Ctx, fn *ssa.Function) bool {
	n, bit := 0, 0
	for _, g := range c.P.RepoFuncs("pkg/curl") {
		gb := ana.NewBuilder(c.P, g)
		for _, ci := range ana.Calls(g) {
			if ci.Common().StaticCallee() != fn {
				continue
			}
			n++
			t := stripObj(gb.CallTermAt(ci))
			for _, a := range t.Args[1:] {
				if matches(laneBit, a) {
					bit++
				}
			}
		}
	}
	return n > 0 && bit == n
}

const laneK = "bin<+>(ind<+1>(-1), 1)"
const laneBit = "bin<<<>(1, alt(" + laneK + ", conv<uint>(" + laneK + ")))"

func laneArgs(fn *ssa.Function, W int, recv bitdom.Val, trits bitdom.Val, idx int, bit bool) []bitdom.Val {
	var ints []int
	method := fn.Signature.Recv() != nil
	for i, p := range fn.Params {
		if i == 0 && method {
			continue
		}
		if bt, ok := p.Type().Underlying().(*types.Basic); ok && bt.Info()&types.IsInteger != 0 {
			ints = append(ints, i)
		}
	}
	args := make([]bitdom.Val, len(fn.Params))
	plane := 0
	for i, p := range fn.Params {
		switch {
		case i == 0 && method:
			args[i] = recv
		case isPlanePtr(p.Type()):
			// the routine as a plain function: its first plane parameter is l, its second h (C06's call rules require
			// every call to pass &c.l, &c.h in that order)
			st := recv.(*bitdom.Ptr).Cell.V.(*bitdom.Struct)
			args[i] = &bitdom.Ptr{Cell: &bitdom.Cell{V: st.Fields[plane%2]}}
			plane++
		case len(ints) > 0 && i == ints[len(ints)-1]:
			bt := p.Type().Underlying().(*types.Basic)
			lv := uint64(idx)
			if bit {
				lv = uint64(1) << uint(idx)
			}
			args[i] = bitdom.ConstBV(lv, W, bt.Info()&types.IsUnsigned == 0)
		case len(ints) > 1 && i == ints[0]:
			bt := p.Type().Underlying().(*types.Basic)
			args[i] = bitdom.ConstBV(0, W, bt.Info()&types.IsUnsigned == 0)
		default:
			args[i] = trits
		}
	}
	return args
}
