package props

import (
	"sort"
	"strings"

	"golang.org/x/tools/go/callgraph"
	"golang.org/x/tools/go/callgraph/cha"
	"golang.org/x/tools/go/callgraph/vta"
	"golang.org/x/tools/go/ssa"
	"golang.org/x/tools/go/ssa/ssautil"

	"verif/checker/internal/ana"
)

// C07 — Ed25519 keys and signatures are byte-identical to RFC 8032.

func init() {
	register(&Prop{
		ID:    "C07",
		Level: "other",
		Explanation: "Static decision of the RFC 8032 data flow of key generation and signing: for the private helpers reached from NewKeyFromSeed and Sign the final contents of the output buffer are extracted as a provenance term " +
			"(seed ‖ [clamp(SHA512(seed)[0:32])]B for keys; R.Bytes() ‖ (k·s+r).Bytes() with r = H(prefix ‖ M), k = H(R ‖ A ‖ M) for signatures) and compared with the RFC's; " +
			"the message is hashed whole in both hashes; no randomness, time or OS state is reachable from Sign/NewKeyFromSeed in the VTA call graph; the crypto.Signer wrapper refuses any non-zero HashFunc and delegates with the same arguments. " +
			"Byte equality with crypto/ed25519 follows only relative to the trusted library semantics.",
		Run: runC07,
	})
}

const (
	patSHA512Seed = "obj(alloc<[64]byte>, store(self, call<crypto/sha512.Sum512>($seed)))"
	patClamped    = "obj(call<ed.NewScalar>, call<(*ed.Scalar).SetBytesWithClamping>(self, slice(" + patSHA512Seed + ", 0, 32)))"
	patUniform    = "obj(call<ed.NewScalar>, call<(*ed.Scalar).SetUniformBytes>(self, call<(hash.Hash).Sum>($H, _)))"
)

func runC07(c *Ctx) {
	r := c.R
	r.Rule("C07.keygen-flow", "private key buffer = seed ‖ ([SetBytesWithClamping(SHA512(seed)[0:32])]B).Bytes(); panic iff len(seed)!=32 (and on the impossible clamping error)")
	r.Rule("C07.sign-flow", "signature buffer = R.Bytes() ‖ S.Bytes(), R=[r]B, r=SetUniformBytes(SHA512(SHA512(seed)[32:64] ‖ message)), k=SetUniformBytes(SHA512(R.Bytes() ‖ privateKey[32:64] ‖ message)), S=MultiplyAdd(k,s,r), s=clamp(SHA512(seed)[0:32]); message hashed whole")
	r.Rule("C07.sibling-k", "k-hash layout of sign (R, A, M) equals that of Verify (C01.k-hash)")
	r.Rule("C07.deterministic", "no repository function reachable from Sign / NewKeyFromSeed / PrivateKey.Sign (VTA call graph, repository bodies) calls into or reads a global of crypto/rand, math/rand, time, os; no repository function on those paths reads a package variable with a writer other than its initialiser")
	r.Rule("C07.signer", "PrivateKey.Sign: error exit iff opts.HashFunc()!=0; otherwise returns Sign(priv, message); the io.Reader is unused")
	r.Rule("C07.generate", "GenerateKey reads exactly SeedSize bytes with io.ReadFull, propagates its error, derives via NewKeyFromSeed, public = priv[32:64]")
	r.Assume("filippo.io/edwards25519 v1.0.0 scalar/point operations and crypto/sha512 implement RFC 8032's primitives")
	r.NotDec("byte equality with crypto/ed25519 as such (library arithmetic)")
	pos := func(i ssa.Instruction) string { return c.P.Pos(i.Pos()) }

	// --- keygen
	if f := c.fn("pkg/ed25519", "NewKeyFromSeed"); f != nil {
		b := ana.NewBuilder(c.P, f.Function)
		// the key routine: the out-parameter helper NewKeyFromSeed fills its fresh buffer with, or NewKeyFromSeed itself when
		// it fills the buffer in place. base = the buffer, view = how its 64 bytes are addressed, seed = the seed parameter
		helper, hb, base, view, seed, seedIdx := (*ssa.Function)(nil), (*ana.Builder)(nil), "p0", "self", "p1", 1
		keyHelperPub = nil
		inline := false
		for _, e := range ana.Exits(f.Function) {
			if e.Panic {
				continue
			}
			if bd, ok := ana.Match("slice($O, 0, alt(none, 64))", b.Of(e.Results[0], e.Instr)); ok {
				o := bd["$O"]
				if o.Op == "obj" && o.Args[0].String() == "alloc<[64]byte>" {
					inline = true
					for _, ev := range o.Args[1:] {
						if !ev.Is("call", "builtin.copy") {
							inline = false
						}
					}
				}
			}
		}
		if inline {
			helper, hb, base, view, seed, seedIdx = f.Function, b, "alloc<[64]byte>", "slice(self, 0, 64)", "p0", 0
			r.OK("C07.keygen-flow.wrapper", c.P.Pos(f.Function.Pos()), "NewKeyFromSeed fills its fresh 64-byte buffer in place")
		} else {
			helper, hb = followOutBuf(c, "C07.keygen-flow", f.Function, b, "obj(alloc<[64]byte>, call<*>(slice(self, 0, 64), p0))", "slice($O, 0, alt(none, 64))")
		}
		if helper != nil {
			c.R.Fn(ana.ShortFunc(helper))
			// exits of helper: panics only under len(seed)!=32 or clamping error; single return
			checkPanicsClosed(c, "C07.keygen-flow.panic-closed", helper, hb, "bin<!=>(len("+seed+"), 32)", "bin<!=>(ext#1("+strings.Replace(patClamped, "$seed", seed, 1)+"), nil)")
			for _, e := range ana.Exits(helper) {
				if e.Panic {
					continue
				}
				var st *ana.Term
				if inline {
					bd, _ := ana.Match("slice($O, 0, alt(none, 64))", hb.Of(e.Results[0], e.Instr))
					st = expandAll(c, bd["$O"])
				} else {
					st = expandAll(c, hb.Of(helper.Params[0], e.Instr))
				}
				// the two copies write disjoint halves (len(seed) == 32 is guarded), so their order is immaterial
				seedCopy := "call<builtin.copy>(alt(" + view + ", slice(" + view + ", 0, 32)), " + seed + ")"
				pubCopy := "call<builtin.copy>(slice(" + view + ", 32, none), $P)"
				bd, ok := ana.Match("alt(obj("+base+", "+seedCopy+", "+pubCopy+"), obj("+base+", "+pubCopy+", "+seedCopy+"))", st)
				if ok {
					var pb ana.Binds
					if pb, ok = ana.Match("call<(*ed.Point).Bytes>(obj(_, call<(*ed.Point).ScalarBaseMult>(self, "+patClamped+")))", bd["$P"]); ok {
						bd["$seed"] = pb["$seed"]
					}
				}
				if ok && !inline && len(e.Results) == 1 {
					// a key routine that also hands back the encoded public key: exactly the bytes it copied into the buffer
					rt := expandAll(c, hb.Of(e.Results[0], e.Instr))
					if rt.String() == bd["$P"].String() {
						keyHelperPub = helper
					}
				}
				if !ok {
					r.Viol("C07.keygen-flow.buffer", pos(e.Instr), "private key buffer at return is not seed ‖ [clamp(SHA512(seed)[:32])]B: %s", short(st.String(), 500))
					continue
				}
				r.Check(bd["$seed"].IsParam(seedIdx), "C07.keygen-flow.buffer", pos(e.Instr), "private key = seed ‖ A.Bytes(), A=[clamp(SHA512(seed)[0:32])]B; hashed seed is the whole parameter: %s", bd["$seed"])
			}
			es := edgesMatching(hb, "bin<==>(len("+seed+"), 32)")
			r.Check(len(es) > 0, "C07.keygen-flow.len-guard", c.P.Pos(helper.Pos()), "length test len(seed)==32 present")
		}
	}

	// --- sign
	var signK *ana.Term
	if f := c.fn("pkg/ed25519", "Sign"); f != nil {
		b := ana.NewBuilder(c.P, f.Function)
		// (the helper may be handed the private key, or its two halves)
		helper, hb := followOutBuf(c, "C07.sign-flow", f.Function, b, "obj(alloc<[64]byte>, alt(call<*>(slice(self, 0, 64), p0, p1), call<*>(slice(self, 0, 64), slice(p0, 0, 32), slice(p0, 32, alt(none, 64)), p1)))", "slice($O, 0, alt(none, 64))")
		if helper != nil {
			c.R.Fn(ana.ShortFunc(helper))
			// the helper is analysed from its call in Sign, parameters bound to the arguments: the rule is stated in Sign's
			// vocabulary (privateKey = p0, message = p1), whatever pieces of the key the helper is handed
			for _, ci := range ana.Calls(f.Function) {
				if ana.StaticRepoCallee(ci.Common()) == helper {
					if call := stripObj(b.CallTermAt(ci)); call != nil && call.Op == "call" && len(call.Args) == len(helper.Params) {
						hb = c.boundBuilder(call)
					}
				}
			}
			seedPat := strings.Replace(patSHA512Seed, "$seed", "slice(p0, 0, 32)", 1)
			sPat := "obj(call<ed.NewScalar>, call<(*ed.Scalar).SetBytesWithClamping>(self, slice(" + seedPat + ", 0, 32)))"
			rPat := strings.Replace(patUniform, "$H", "obj(call<crypto/sha512.New>, call<(hash.Hash).Write>(self, slice("+seedPat+", 32, none)), call<(hash.Hash).Write>(self, p1))", 1)
			RPat := "obj(_, call<(*ed.Point).ScalarBaseMult>(self, " + rPat + "))"
			kPat := strings.Replace(patUniform, "$H", "obj(call<crypto/sha512.New>, call<(hash.Hash).Write>(self, call<(*ed.Point).Bytes>("+RPat+")), call<(hash.Hash).Write>(self, slice(p0, 32, none)), call<(hash.Hash).Write>(self, p1))", 1)
			SPat := "obj(call<ed.NewScalar>, call<(*ed.Scalar).MultiplyAdd>(self, " + kPat + ", " + sPat + ", " + rPat + "))"
			full := "obj(slice(alloc<[64]byte>, 0, alt(none, 64)), call<builtin.copy>(slice(self, 0, 32), call<(*ed.Point).Bytes>(" + RPat + ")), call<builtin.copy>(slice(self, 32, none), call<(*ed.Scalar).Bytes>(" + SPat + ")))"
			checkPanicsClosed(c, "C07.sign-flow.panic-closed", f.Function, b, "bin<!=>(len(p0), 64)")
			checkPanicsClosed(c, "C07.sign-flow.panic-closed", helper, hb, "bin<!=>(len(p0), 64)",
				"bin<!=>(ext#1("+sPat+"), nil)", "bin<!=>(ext#1("+rPat+"), nil)", "bin<!=>(ext#1("+kPat+"), nil)")
			nret := 0
			for _, e := range ana.Exits(helper) {
				if e.Panic {
					continue
				}
				nret++
				st := expandAll(c, hb.Of(helper.Params[0], e.Instr))
				if _, ok := ana.Match(full, st); ok {
					r.OK("C07.sign-flow.buffer", pos(e.Instr), "signature = R.Bytes() ‖ S.Bytes() with r=H(prefix‖M), R=[r]B, k=H(R‖A‖M), S=k·s+r; message hashed whole in both")
					continue
				}
				// diagnose piecewise
				diagnoseSign(c, st, pos(e.Instr), RPat, SPat, kPat, rPat, sPat)
			}
			r.Floor("C07.floor.sign-returns", nret, 1, "returns of the signing helper")
			es := append(edgesMatching(hb, "bin<==>(len(p0), 64)"), edgesMatching(b, "bin<==>(len(p0), 64)")...)
			r.Check(len(es) > 0, "C07.sign-flow.len-guard", c.P.Pos(helper.Pos()), "length test len(privateKey)==64 present (in Sign or in the helper)")
			// extract sign's k-hash roles for the sibling rule
			for _, e := range ana.Exits(helper) {
				if !e.Panic {
					st := expandAll(c, hb.Of(helper.Params[0], e.Instr))
					if t, _ := ana.Find("call<(*ed.Scalar).MultiplyAdd>(self, $k, _, _)", st); t != nil {
						signK = t.Arg(1)
					}
				}
			}
		}
	}

	// --- sibling agreement sign <-> Verify on k
	if vf := c.fn("pkg/ed25519", "Verify"); vf != nil && signK != nil {
		vb := ana.NewBuilder(c.P, vf.Function)
		var verK *ana.Term
		for _, ci := range ana.CallsTo(vf.Function, "(*filippo.io/edwards25519.Point).VarTimeDoubleScalarBaseMult") {
			verK = expandAll(c, vb.CallTermAt(ci).Arg(1))
		}
		sw := hashWrites(signK)
		vw := hashWrites(verK)
		ok := len(sw) == 3 && len(vw) == 3
		if ok {
			// roles: 0 = R bytes, 1 = public key bytes, 2 = message (a whole parameter)
			_, sR := ana.Match("call<(*ed.Point).Bytes>(_)", sw[0])
			_, vR := ana.Match("slice(p2, 0, 32)", vw[0])
			_, sA := ana.Match("slice(p0, 32, none)", sw[1])
			ok = sR && vR && sA && vw[1].IsParam(0) && sw[2].IsParam(1) && vw[2].IsParam(1)
		}
		r.Check(ok, "C07.sibling-k.layout", c.P.Pos(vf.Pos()), "sign hashes (R.Bytes(), privateKey[32:], message), Verify hashes (sig[:32], publicKey, message): same roles position by position (sign=%d writes, verify=%d writes)", len(sw), len(vw))
	} else if signK == nil {
		r.Undec("C07.sibling-k.layout", "", "k term of the signing helper not found")
	}

	// --- signer wrapper
	if f := c.fn("pkg/ed25519", "PrivateKey.Sign"); f != nil {
		fn := f.Function
		b := ana.NewBuilder(c.P, fn)
		rej := edgesMatching(b, "bin<!=>(call<(crypto.SignerOpts).HashFunc>(p3), 0)")
		acc := edgesMatching(b, "bin<==>(call<(crypto.SignerOpts).HashFunc>(p3), 0)")
		r.Check(len(rej) == 1 && len(acc) == 1, "C07.signer.hashfunc-test", c.P.Pos(fn.Pos()), "single branch on opts.HashFunc() != 0")
		for _, e := range ana.Exits(fn) {
			if e.Panic {
				r.Viol("C07.signer.no-panic", pos(e.Instr), "explicit panic in Signer wrapper")
				continue
			}
			errT := b.Of(e.Results[1], e.Instr)
			sigT := b.Of(e.Results[0], e.Instr)
			if errT.Is("nil") {
				_, ok := ana.Match("call<repo/pkg/ed25519.Sign>(p0, p2)", sigT)
				r.Check(ok && exitMustPass(fn, e, plainEdges(acc)), "C07.signer.delegates", pos(e.Instr), "nil-error return gives Sign(priv, message) under HashFunc()==0: %s", short(sigT.String(), 200))
			} else {
				r.Check(sigT.Is("nil") && exitMustPass(fn, e, plainEdges(rej)), "C07.signer.refuses-prehashed", pos(e.Instr), "error return carries no signature and is reached only under HashFunc()!=0")
			}
		}
		r.Check(len(*fn.Params[1].Referrers()) == 0, "C07.signer.reader-unused", c.P.Pos(fn.Pos()), "the io.Reader parameter has no use")
	}

	// --- GenerateKey
	if f := c.fn("pkg/ed25519", "GenerateKey"); f != nil {
		fn := f.Function
		b := ana.NewBuilder(c.P, fn)
		readFull := "call<io.ReadFull>(_, slice(alloc<[32]byte>, 0, 32))"
		seedAfter := "slice(obj(alloc<[32]byte>, call<io.ReadFull>(_, slice(self, 0, 32))), 0, 32)"
		for _, e := range ana.Exits(fn) {
			if e.Panic {
				continue
			}
			errT := b.Of(e.Results[2], e.Instr)
			if errT.Is("nil") {
				priv := b.Of(e.Results[1], e.Instr)
				pub := b.Of(e.Results[0], e.Instr)
				_, ok1 := ana.Match("call<repo/pkg/ed25519.NewKeyFromSeed>("+seedAfter+")", priv)
				_, ok2 := ana.Match("slice(obj(alloc<[32]byte>, call<builtin.copy>(slice(self, 0, 32), slice(call<repo/pkg/ed25519.NewKeyFromSeed>("+seedAfter+"), 32, none))), 0, 32)", pub)
				if !ok1 && !ok2 && keyHelperPub != nil {
					// GenerateKey fills its own 64-byte buffer through the key routine NewKeyFromSeed uses (decided above) and
					// returns the encoded public key that routine hands back (the bytes it copied to buffer[32:])
					H := keyHelperPub.String()
					pb, m1 := ana.Match("slice(obj(alloc<[64]byte>, $call), 0, alt(none, 64))", priv)
					if m1 {
						_, m1 = ana.Match("call<"+H+">(slice(self, 0, alt(none, 64)), "+seedAfter+")", pb["$call"])
					}
					_, m2 := ana.Match("call<"+H+">(slice(alloc<[64]byte>, 0, alt(none, 64)), "+seedAfter+")", pub)
					ok1 = m1
					ok2 = m1 && m2 && stripObj(pub).V != nil && stripObj(pub).V == pb["$call"].V
				}
				r.Check(ok1, "C07.generate.private", pos(e.Instr), "private = NewKeyFromSeed(32 bytes filled by io.ReadFull): %s", short(priv.String(), 300))
				r.Check(ok2, "C07.generate.public", pos(e.Instr), "public = copy of private[32:]: %s", short(pub.String(), 300))
				es := edgesMatching(b, "bin<==>(ext#1("+readFull+"), nil)")
				r.Check(exitMustPass(fn, e, plainEdges(es)), "C07.generate.error-gate", pos(e.Instr), "success return only under err==nil of io.ReadFull")
			} else {
				_, ok := ana.Match("ext#1("+readFull+")", errT)
				r.Check(ok, "C07.generate.error-propagated", pos(e.Instr), "error return propagates io.ReadFull's error: %s", short(errT.String(), 200))
			}
		}
	}

	pureScan(c, "C07.pure.no-package-state", c.P.Func("pkg/ed25519", "Sign"), c.P.Func("pkg/ed25519", "NewKeyFromSeed"), c.P.Func("pkg/ed25519", "PrivateKey.Sign"), c.P.Func("pkg/ed25519", "Verify"), c.P.Func("pkg/ed25519", "GenerateKey"))

	// --- determinism (call graph)
	c07Deterministic(c)
}

// followOutBuf matches the entry's returned term against retPat (binding $O to
// the output-buffer object), matches $O against objPat and returns the private
// helper that fills the buffer together with a builder for it.
// keyHelperPub is the out-parameter key routine when it also returns the encoded public key (set by the keygen rule).
var keyHelperPub *ssa.Function

func followOutBuf(c *Ctx, key string, fn *ssa.Function, b *ana.Builder, objPat, retPat string) (*ssa.Function, *ana.Builder) {
	for _, e := range ana.Exits(fn) {
		if e.Panic {
			continue
		}
		t := b.Of(e.Results[0], e.Instr)
		bd, ok := ana.Match(retPat, t)
		if !ok {
			c.R.Undec(key+".wrapper", c.P.Pos(e.Instr.Pos()), "returned value is not a fresh 64-byte buffer: %s", short(t.String(), 300))
			return nil, nil
		}
		o := bd["$O"]
		if _, ok := ana.Match(objPat, o); !ok {
			c.R.Undec(key+".wrapper", c.P.Pos(e.Instr.Pos()), "buffer is not filled by exactly one helper call with the entry's parameters: %s", short(o.String(), 300))
			return nil, nil
		}
		for _, ci := range ana.Calls(fn) {
			if callee := ana.StaticRepoCallee(ci.Common()); callee != nil {
				c.R.OK(key+".wrapper", c.P.Pos(ci.Pos()), "%s returns a fresh 64-byte buffer filled by %s(buf, params…)", fn.Name(), callee.Name())
				return callee, ana.NewBuilder(c.P, callee)
			}
		}
	}
	c.R.Undec(key+".wrapper", c.P.Pos(fn.Pos()), "no helper call found")
	return nil, nil
}

func checkPanicsClosed(c *Ctx, key string, fn *ssa.Function, b *ana.Builder, patterns ...string) {
	es := plainEdges(edgesMatching(b, patterns...))
	avoid := ana.ReachableAvoiding(fn, es)
	n := 0
	for _, e := range ana.Exits(fn) {
		if e.Panic {
			n++
			c.R.Check(!avoid[e.Instr.Block()], key, c.P.Pos(e.Instr.Pos()), "panic reachable only under the listed conditions (%d edges matched)", len(es))
		}
	}
	if n == 0 {
		c.R.OK(key, c.P.Pos(fn.Pos()), "no explicit panic")
	}
}

// hashWrites returns the Write arguments of the hash object inside a SetUniformBytes(Sum(hash)) term.
func hashWrites(k *ana.Term) []*ana.Term {
	if k == nil {
		return nil
	}
	h, _ := ana.Find("call<(hash.Hash).Sum>(obj(call<crypto/sha512.New>, ...), _)", k)
	if h == nil {
		return nil
	}
	var out []*ana.Term
	for _, w := range h.Arg(0).Args[1:] {
		if bd, ok := ana.Match("call<(hash.Hash).Write>(self, $x)", w); ok {
			out = append(out, bd["$x"])
		} else {
			return nil
		}
	}
	return out
}

func diagnoseSign(c *Ctx, st *ana.Term, pos, RPat, SPat, kPat, rPat, sPat string) {
	r := c.R
	bd, ok := ana.Match("obj(p0, call<builtin.copy>(slice(self, 0, 32), call<(*ed.Point).Bytes>($R)), call<builtin.copy>(slice(self, 32, none), call<(*ed.Scalar).Bytes>($S)))", st)
	if !ok {
		r.Viol("C07.sign-flow.buffer", pos, "signature buffer is not copy([0:32], R.Bytes()) then copy([32:], S.Bytes()): %s", short(st.String(), 400))
		return
	}
	if _, ok := ana.Match(RPat, bd["$R"]); !ok {
		r.Viol("C07.sign-flow.R", pos, "R is not [SetUniformBytes(SHA512(prefix ‖ message))]B with prefix=SHA512(seed)[32:64] and the whole message: %s", short(bd["$R"].String(), 600))
	}
	sb, ok := ana.Match("obj(call<ed.NewScalar>, call<(*ed.Scalar).MultiplyAdd>(self, $k, $s, $r))", bd["$S"])
	if !ok {
		r.Viol("C07.sign-flow.S", pos, "S is not NewScalar().MultiplyAdd(k, s, r): %s", short(bd["$S"].String(), 400))
		return
	}
	if _, ok := ana.Match(kPat, sb["$k"]); !ok {
		r.Viol("C07.sign-flow.k", pos, "k is not SetUniformBytes(SHA512(R.Bytes() ‖ privateKey[32:64] ‖ message)) with the whole message: %s", short(sb["$k"].String(), 700))
	}
	if _, ok := ana.Match(sPat, sb["$s"]); !ok {
		r.Viol("C07.sign-flow.s", pos, "s is not SetBytesWithClamping(SHA512(privateKey[0:32])[0:32]): %s", short(sb["$s"].String(), 400))
	}
	if _, ok := ana.Match(rPat, sb["$r"]); !ok {
		r.Viol("C07.sign-flow.r", pos, "r operand of MultiplyAdd is not the nonce scalar: %s", short(sb["$r"].String(), 500))
	}
	if _, ok := ana.Match(SPat, bd["$S"]); ok {
		if _, ok := ana.Match(RPat, bd["$R"]); ok {
			r.Viol("C07.sign-flow.buffer", pos, "parts match individually but R used for the signature and for k differ")
		}
	}
}

var nondetPkgs = map[string]bool{"crypto/rand": true, "math/rand": true, "math/rand/v2": true, "time": true, "os": true, "internal/chacha8rand": true}

func c07Deterministic(c *Ctx) {
	r := c.R
	cg := vta.CallGraph(ssautil.AllFunctions(c.P.SSA), cha.CallGraph(c.P.SSA))
	for _, entry := range []string{"Sign", "NewKeyFromSeed", "PrivateKey.Sign"} {
		f := c.P.Func("pkg/ed25519", entry)
		if f == nil {
			continue
		}
		seen := map[*ssa.Function]bool{}
		parent := map[*ssa.Function]*ssa.Function{}
		var stack []*ssa.Function
		stack = append(stack, f)
		seen[f] = true
		for len(stack) > 0 {
			x := stack[len(stack)-1]
			stack = stack[:len(stack)-1]
			n := cg.Nodes[x]
			if n == nil {
				continue
			}
			for _, e := range n.Out {
				cal := e.Callee.Func
				// panics' formatting paths are not part of a returning execution
				if !seen[cal] {
					seen[cal] = true
					parent[cal] = x
					// library bodies are not traversed: their documented behaviour is the trusted base, and
					// a whole-program graph through sync.Once/fmt reaches everything (observed false path)
					if ana.InRepo(cal) {
						stack = append(stack, cal)
					}
				}
			}
		}
		var bad []string
		nRepo := 0
		for fn := range seen {
			if fn.Pkg == nil {
				continue
			}
			if nondetPkgs[fn.Pkg.Pkg.Path()] {
				// path for the report
				var path []string
				for x := fn; x != nil; x = parent[x] {
					path = append(path, x.String())
				}
				bad = append(bad, strings.Join(path, " <- "))
			}
			if ana.InRepo(fn) {
				nRepo++
				for _, blk := range fn.Blocks {
					for _, ins := range blk.Instrs {
						if ld, ok := ins.(*ssa.UnOp); ok {
							if g, ok := ld.X.(*ssa.Global); ok && nondetPkgs[g.Pkg.Pkg.Path()] {
								bad = append(bad, fn.String()+" reads "+g.String())
							}
							if g, ok := ld.X.(*ssa.Global); ok && ana.Module == modulePrefix(g.Pkg.Pkg.Path()) {
								if w := globalWriters(c, g); w > 1 {
									r.Viol("C07.deterministic.global-state."+entry, c.P.Pos(ld.Pos()), "%s reads package variable %s which has %d writers", fn.Name(), g.Name(), w)
								}
							}
						}
					}
				}
			}
		}
		sort.Strings(bad)
		if len(bad) > 0 {
			r.Viol("C07.deterministic.reach."+entry, c.P.Pos(f.Pos()), "non-deterministic source reachable: %s", short(bad[0], 600))
		} else {
			r.OK("C07.deterministic.reach."+entry, c.P.Pos(f.Pos()), "%d functions reached (repository bodies traversed via VTA edges, library callees recorded at the boundary), %d in the repository; none is in crypto/rand, math/rand, time, os and none reads their globals", len(seen), nRepo)
		}
	}
	_ = callgraph.CalleesOf
}

func modulePrefix(path string) string {
	if path == ana.Module || strings.HasPrefix(path, ana.Module+"/") {
		return ana.Module
	}
	return ""
}

// globalWriters counts Store instructions to g in its package.
func globalWriters(c *Ctx, g *ssa.Global) int {
	n := 0
	for _, m := range g.Pkg.Members {
		if fn, ok := m.(*ssa.Function); ok {
			n += storesTo(fn, g)
		}
	}
	if in := g.Pkg.Func("init"); in != nil {
		_ = in
	}
	return n
}

func storesTo(fn *ssa.Function, g *ssa.Global) int {
	n := 0
	for _, blk := range fn.Blocks {
		for _, ins := range blk.Instrs {
			if s, ok := ins.(*ssa.Store); ok && s.Addr == g {
				n++
			}
		}
	}
	for _, an := range fn.AnonFuncs {
		n += storesTo(an, g)
	}
	return n
}

// expandAll looks through repository helpers that only compute a value (ana.ExpandCalls, up to three levels).
func expandAll(c *Ctx, t *ana.Term) *ana.Term {
	for i := 0; i < 3; i++ {
		nt, changed := ana.ExpandCalls(c.P, t)
		if !changed {
			break
		}
		t = nt
	}
	return t
}
