package props

import (
	"fmt"

	"golang.org/x/tools/go/ssa"

	"verif/checker/internal/ana"
	"verif/checker/internal/bitdom"
)

// C05 — Bech32 Encode is BIP-173 conformant and Decode inverts it.

func init() {
	register(&Prop{
		ID:    "C05",
		Level: "other",
		Explanation: "Static decision of Encode's mechanism: exit inventory (closed list of reject reasons; the length rule decided as a set over (len(hrp), len(src)) by value-set analysis; every error exit returns the empty string), " +
			"the provenance term of the produced string (hrp ‖ '1' ‖ charset.encode(regroup(src) ‖ createChecksum(ToLower(hrp), regroup(src))), upper-cased iff hrp != ToLower(hrp)), " +
			"the bit-exact 8→5 regroup with zero padding for every source length 0..60 in the ANF bit domain (which, with C04's map, makes the two regroup maps mutually inverse), charset.encode's table walk, and checksum creation (shared with C16).",
		Run: runC05,
	})
}

func runC05(c *Ctx) {
	r := c.R
	r.Rule("C05.exits", "Encode's error exits are exactly: len(hrp)+ceil(8·len(src)/5)+7 > 90, len(hrp) < 1, an HRP rune outside 33..126, mixed case; each returns \"\"; success returns pass all four gates")
	r.Rule("C05.regroup-bits", "for each source length n in 0..60: EncodedLen(n)=ceil(8n/5); symbol k bit j = source stream bit 5k+(4-j) (MSB first), padding bits 0, bits 5..7 of every symbol 0")
	r.Rule("C05.checksum-flow", "output = hrp ‖ '1' ‖ charset.encode(D), D = regroup(src) ‖ createChecksum(ToLower(hrp), regroup(src)); upper-cased iff hrp != ToLower(hrp); createChecksum per C16")
	r.Rule("C05.charset-encode", "charset.encode writes enc[src[i]] for every i in order; the indices are < 32")
	r.Assume("strings.Builder, strings.ToLower/ToUpper on ASCII input as documented")

	f := c.fn("pkg/bech32", "Encode")
	if f == nil {
		return
	}
	fn := f.Function
	b := ana.NewBuilder(c.P, fn)
	el := "call<repo/pkg/bech32/internal/base32.EncodedLen>(len(p1))"

	// ---- exits
	var succ, errs []ana.Exit
	for _, e := range ana.Exits(fn) {
		if e.Panic {
			r.Viol("C05.exits.no-panic", c.ipos(e.Instr), "explicit panic in Encode")
			continue
		}
		if b.Of(e.Results[1], e.Instr).Is("nil") {
			succ = append(succ, e)
		} else {
			errs = append(errs, e)
			r.Check(b.Of(e.Results[0], e.Instr).String() == `""`, "C05.exits.error-empty-string", c.ipos(e.Instr), "error exit returns the empty string")
		}
	}
	r.Floor("C05.floor.success", len(succ), 1, "success returns (lower and upper case)")
	r.Floor("C05.floor.errors", len(errs), 1, "error returns")

	// length rule by value-set analysis over (len(hrp), len(src))
	vs := &ana.VSA{B: b, Tracked: []string{"len(p0)", "len(p1)"}, Ranges: [][2]int64{{0, 95}, {0, 60}}}
	sets, tuples := vs.Run()
	// semantic length rule: the (len(hrp), len(src)) pairs that can reach a success exit are exactly those with
	// len(hrp) >= 1 and len(hrp)+1+ceil(8·len(src)/5)+6 <= 90 — wherever and however the tests are written
	tooLong := func(t []int64) bool { return t[0]+(t[1]*8+4)/5+7 > 90 }
	{
		bad := 0
		example := ""
		for idx := range tuples {
			t := ana.TupleOf(tuples, idx)
			got := false
			for _, e := range succ {
				if sets[e.Instr.Block()][idx] {
					got = true
				}
			}
			want := !tooLong(t) && t[0] >= 1
			if got != want {
				bad++
				if example == "" {
					example = fmt.Sprintf("len(hrp)=%d len(src)=%d: reaches success=%v, BIP-173 says %v", t[0], t[1], got, want)
				}
			}
		}
		r.Check(bad == 0 && len(succ) > 0, "C05.exits.length-rule", c.P.Pos(fn.Pos()), "a success exit is reachable exactly for len(hrp) >= 1 and len(hrp)+1+ceil(8·len(src)/5)+6 <= 90, over (0..95)×(0..60) = %d pairs; %s", len(tuples), example)
	}
	// edges that only too-long (or empty-prefix) pairs can take are legitimate reject edges; their complements are the length gate
	var accLen, rejLen []ana.Edge
	for _, ce := range b.CondEdges() {
		ifi := ce.If
		evaluable, onlyBad, n := true, true, 0
		for idx := range sets[ce.From] {
			t := ana.TupleOf(tuples, idx)
			v, ok := vs.Eval(ifi.Cond, t)
			if !ok {
				evaluable = false
				break
			}
			if (v != 0) == ce.Taken {
				n++
				if !tooLong(t) && t[0] >= 1 {
					onlyBad = false
				}
			}
		}
		if evaluable && onlyBad && n > 0 {
			rejLen = append(rejLen, ce.Edge)
			for _, sx := range ce.From.Succs {
				if sx != ce.To {
					accLen = append(accLen, ana.Edge{From: ce.From, To: sx})
				}
			}
		}
	}
	accNonEmpty := plainEdges(edgesMatching(b, "bin<>=>(len(p0), 1)", "bin<>>(len(p0), 0)"))
	// the case routine is Decode's (decided under C04); Encode must pass *that* routine on hrp, directly or inside a
	// validation helper whose successful exits all passed it
	var caseFn *ssa.Function
	caseUniq, caseIdx := false, false
	if dec := c.P.Func("pkg/bech32", "Decode"); dec != nil {
		caseFn, caseUniq, caseIdx = caseGate(c, ana.NewBuilder(c.P, dec))
	}
	var accCase []ana.Edge
	if caseFn != nil {
		accCase = plainEdges(edgesMatching(b, caseAccept(caseFn.String(), caseIdx)...))
	}
	// the HRP loop in Encode, or in a first-violation scanner Encode tests against "none found"
	hrpGate := scanGates(c, b, func(b2 *ana.Builder, l *rangeLoop) bool {
		if !l.Coll.IsParam(0) {
			return false
		}
		for _, ce := range b2.CondEdges() {
			if _, m := ana.MatchAny(ce.Lit, "call<*>(ext#2(next(range(p0))))", "call<*>(index(p0, ind<+1>(0)))", "call<*>(conv<rune>(index(p0, ind<+1>(0))))"); m {
				if h := calleeOf(ce.Lit); h != nil && runeHelperASCII(c, h) && forAll(b2, *l, ce.Lit.String()) {
					return true
				}
			}
		}
		return false
	})
	rejPats := append([]string{"bin<<>(len(p0), 1)", "bin<<=>(len(p0), 0)",
		"un<!>(call<*>(ext#2(next(range(p0)))))", "un<!>(call<*>(index(p0, ind<+1>(0))))", "un<!>(call<*>(conv<rune>(index(p0, ind<+1>(0)))))"}, caseReject("*", caseIdx)...)
	rejects := c.rejectEdges(b, rejPats...)
	rejects = append(rejects, rejLen...)
	avoid := ana.ReachableAvoiding(fn, rejects)
	for _, e := range errs {
		r.Check(!avoid[e.Instr.Block()], "C05.exits.reject-closed", c.ipos(e.Instr), "error exit reachable only through {too long, empty hrp, invalid hrp rune, mixed case}")
	}
	for _, e := range succ {
		blk := e.Instr.Block()
		_ = blk
		// (the length and non-empty gates are decided for all pairs by C05.exits.length-rule above)
		_ = accLen
		_ = accNonEmpty
		r.Check(exitMustPass(fn, e, accCase), "C05.exits.gate.single-case", c.ipos(e.Instr), "success passes the single-case gate on hrp")
		r.Check(exitMustPass(fn, e, hrpGate), "C05.exits.gate.hrp-chars", c.ipos(e.Instr), "success follows a loop over hrp that continues only for runes in 33..126")
	}
	// the case gate helper is the same validateCase as Decode's (decided under C04)
	r.Check(caseFn != nil && caseUniq && len(accCase) > 0, "C05.exits.case-sibling", c.P.Pos(fn.Pos()), "Encode and Decode use the same case validation routine")

	// ---- value terms
	D0 := "obj(makeslice<[]uint8>(bin<+>(" + el + ", 6), bin<+>(" + el + ", 6)), call<repo/pkg/bech32/internal/base32.Encode>(alt(self, slice(self, 0, " + el + ")), p1))"
	D := "obj(makeslice<[]uint8>(bin<+>(" + el + ", 6), bin<+>(" + el + ", 6)), call<repo/pkg/bech32/internal/base32.Encode>(alt(self, slice(self, 0, " + el + ")), p1), call<builtin.copy>(slice(self, " + el + ", none), call<*>(call<strings.ToLower>(p0), slice(" + D0 + ", 0, " + el + "))))"
	lowerStr := "call<(*strings.Builder).String>(obj(alloc<strings.Builder>, call<(*strings.Builder).WriteString>(self, p0), call<(*strings.Builder).WriteByte>(self, 49), call<(*strings.Builder).WriteString>(self, call<*>(load(global<repo/pkg/bech32.charset>), " + D + "))))"
	// … or the characters appended by charset.encode straight to the builder it is handed
	lowerStrB := "call<(*strings.Builder).String>(obj(alloc<strings.Builder>, call<(*strings.Builder).WriteString>(self, p0), call<(*strings.Builder).WriteByte>(self, 49), call<*>(load(global<repo/pkg/bech32.charset>), self, " + D + ")))"
	lowerStr = "alt(" + lowerStr + ", " + lowerStrB + ")"
	sameCase := plainEdges(edgesMatching(b, "bin<==>(p0, call<strings.ToLower>(p0))", "bin<==>(call<strings.ToLower>(p0), p0)"))
	otherCase := plainEdges(edgesMatching(b, "bin<!=>(p0, call<strings.ToLower>(p0))", "bin<!=>(call<strings.ToLower>(p0), p0)"))
	nLower, nUpper := 0, 0
	var encodeFn, createFn *ssa.Function
	// each way the returned string is selected (a return of its own, or one input of a merged result variable)
	under := func(rc ana.ReturnCase, gate []ana.Edge) bool {
		if rc.To != nil {
			return edgeMustPass(fn, ana.Edge{From: rc.Block, To: rc.To}, gate)
		}
		return mustPass(fn, rc.Block, gate)
	}
	for _, rc := range ana.ReturnCases(fn, 0) {
		if !b.Of(rc.Ret.Results[1], rc.Ret).Is("nil") && rc.To == nil {
			continue // an error return
		}
		t := b.Of(rc.Val, rc.Ret)
		if t.String() == `""` {
			continue // the empty string of an error path merged into the result variable
		}
		pos := c.ipos(rc.Ret)
		if _, ok := ana.Match(lowerStr, t); ok {
			nLower++
			r.Check(under(rc, sameCase), "C05.checksum-flow.lower-iff", pos, "the string is returned as built only when hrp == ToLower(hrp)")
			encodeFn = c.calleeMatching("call<*>(load(global<repo/pkg/bech32.charset>), _)", t)
			if encodeFn == nil {
				encodeFn = c.calleeMatching("call<*>(load(global<repo/pkg/bech32.charset>), self, _)", t)
			}
			createFn = c.calleeMatching("call<*>(call<strings.ToLower>(p0), slice(_, 0, _))", t)
			continue
		}
		if _, ok := ana.Match("call<strings.ToUpper>("+lowerStr+")", t); ok {
			nUpper++
			r.Check(under(rc, otherCase), "C05.checksum-flow.upper-iff", pos, "the whole string is upper-cased only when hrp != ToLower(hrp)")
			continue
		}
		r.Viol("C05.checksum-flow.term", pos, "returned string is not hrp ‖ 1 ‖ charset.encode(regroup(src) ‖ checksum(ToLower(hrp), regroup(src))): %s", ana.Explain(lowerStr, t))
	}
	r.Check(nLower == 1 && nUpper == 1, "C05.checksum-flow.term", c.P.Pos(fn.Pos()), "two success forms: the built string and its upper-casing (found %d/%d)", nLower, nUpper)

	// checksum creation helper is C16's
	if createFn != nil {
		fns := &c16Fns{}
		dec := c.P.Func("pkg/bech32", "Decode")
		_ = dec
		full := c16ResolveQuiet(c)
		if full != nil {
			c16CreateFor(c, full, createFn, "C05")
		} else {
			r.Undec("C05.checksum-flow.create", c.P.Pos(createFn.Pos()), "verify/polymod routines not resolvable")
		}
		_ = fns
	}

	// the checksum routines and the case validation Encode relies on (shared with C16 / C04)
	if full := c16ResolveQuiet(c); full != nil {
		reKey(c, "C16.", "C05.checksum-flow.", func() {
			c16Polymod(c, full.polymod)
			c16Expand(c, full.expand)
		})
	}
	if dec := c.P.Func("pkg/bech32", "Decode"); dec != nil {
		reKey(c, "C04.", "C05.", func() { c04Case(c, dec, ana.NewBuilder(c.P, dec)) })
	}

	// ---- charset.encode
	if encodeFn != nil {
		r.Fn(ana.ShortFunc(encodeFn))
		eb := ana.NewBuilder(c.P, encodeFn)
		for _, e := range ana.Exits(encodeFn) {
			if e.Panic {
				r.Viol("C05.charset-encode.no-panic", c.ipos(e.Instr), "panic in charset.encode")
				continue
			}
			if len(e.Results) == 0 && len(encodeFn.Params) == 3 {
				// encode(dst *strings.Builder, src): the characters are appended to dst, nothing else is done to it
				t := eb.Of(encodeFn.Params[1], e.Instr)
				_, ok := ana.MatchAny(t,
					"obj(p1, call<(*strings.Builder).Grow>(self, len(p2)), maybe(call<(*strings.Builder).WriteByte>(self, load(iaddr(faddr<#0>(p0), load(iaddr(p2, bin<+>(ind<+1>(-1), 1))))))))",
					"obj(p1, maybe(call<(*strings.Builder).WriteByte>(self, load(iaddr(faddr<#0>(p0), load(iaddr(p2, bin<+>(ind<+1>(-1), 1))))))))")
				whole := false
				for _, l := range rangeLoopsAll(eb) {
					if l.Coll.IsParam(2) {
						whole = true
					}
				}
				r.Check(ok && whole, "C05.charset-encode.table-walk", c.ipos(e.Instr), "encode(dst, src) appends enc[src[0]] enc[src[1]] … for every element in order: %s", short(t.String(), 260))
				continue
			}
			t := eb.Of(e.Results[0], e.Instr)
			_, ok := ana.MatchAny(t,
				"call<(*strings.Builder).String>(obj(alloc<strings.Builder>, call<(*strings.Builder).Grow>(self, len(p1)), maybe(call<(*strings.Builder).WriteByte>(self, load(iaddr(faddr<#0>(p0), load(iaddr(p1, bin<+>(ind<+1>(-1), 1)))))))))",
				"call<(*strings.Builder).String>(obj(alloc<strings.Builder>, maybe(call<(*strings.Builder).WriteByte>(self, load(iaddr(faddr<#0>(p0), load(iaddr(p1, bin<+>(ind<+1>(-1), 1)))))))))",
				// the same characters stored into a byte slice of len(src) that is converted to the string
				"conv<string>(obj(makeslice<[]byte>(len(p1), len(p1)), maybe(store(iaddr(self, ind<+1>(0)), load(iaddr(faddr<#0>(p0), load(iaddr(p1, ind<+1>(0)))))))))",
				"conv<string>(obj(makeslice<[]byte>(len(p1), len(p1)), maybe(store(iaddr(self, bin<+>(ind<+1>(-1), 1)), load(iaddr(faddr<#0>(p0), load(iaddr(p1, bin<+>(ind<+1>(-1), 1)))))))))")
			whole := false
			for _, l := range rangeLoopsAll(eb) {
				if l.Coll.IsParam(1) {
					whole = true
				}
			}
			r.Check(ok && whole, "C05.charset-encode.table-walk", c.ipos(e.Instr), "encode(src) = enc[src[0]] enc[src[1]] … for every element in order: %s", short(t.String(), 260))
		}
	}

	pureScan(c, "C05.pure.no-package-state", fn, c.P.Func("pkg/bech32", "Decode"))

	// ---- regroup bits
	c05Regroup(c)
}

// c16ResolveQuiet resolves the checksum routines without recording obligations.
func c16ResolveQuiet(c *Ctx) *c16Fns {
	saved := c.R.Obls
	fns := c16Resolve(c, "tmp")
	c.R.Obls = saved
	return fns
}

// c16CreateFor runs C16's creation rule for a specific creation routine under another property's key prefix.
func c16CreateFor(c *Ctx, fns *c16Fns, create *ssa.Function, px string) {
	before := len(c.R.Obls)
	c16Create(c, fns)
	for i := before; i < len(c.R.Obls); i++ {
		c.R.Obls[i].Key = px + ".checksum-flow" + c.R.Obls[i].Key[len("C16.verify-gate"):]
	}
	c.R.Check(fns.create == create, px+".checksum-flow.create-is-sibling", c.P.Pos(create.Pos()), "the routine Encode calls with (ToLower(hrp), data) is the creation routine decided above")
}

func c05Regroup(c *Ctx) {
	r := c.R
	fn := c.P.Func("pkg/bech32/internal/base32", "Encode")
	el := c.P.Func("pkg/bech32/internal/base32", "EncodedLen")
	if fn == nil || el == nil {
		r.Undec("C05.regroup-bits.anchor", "", "base32.Encode / EncodedLen not found")
		return
	}
	r.Fn(ana.ShortFunc(fn))
	bad, good := 0, 0
	first := ""
	note := func(format string, a ...interface{}) {
		bad++
		if first == "" {
			first = fmt.Sprintf(format, a...)
		}
	}
	for n := 0; n <= 60; n++ {
		in := bitdom.New(c.P.SSA, c.wordBits())
		ex, err := in.Call(el, []bitdom.Val{bitdom.ConstBV(uint64(n), c.wordBits(), true)})
		if err != nil || ex.Panic {
			r.Undec("C05.regroup-bits.encoded-len", c.P.Pos(el.Pos()), "EncodedLen(%d) not foldable: %v", n, err)
			return
		}
		m, _ := ex.Results[0].(*bitdom.BV).Int()
		if m != int64((8*n+4)/5) {
			note("EncodedLen(%d)=%d, want %d", n, m, (8*n+4)/5)
			continue
		}
		src := in.SymSlice("src", n, 8, 8, false)
		// the destination Encode receives is EncodedLen+6 long and zero-filled (make)
		dst := bitdom.ConstSlice(make([]uint64, m+6), 8)
		ex, err = in.Call(fn, []bitdom.Val{dst, src})
		if err != nil {
			note("n=%d: %v", n, err)
			continue
		}
		if ex.Panic {
			note("n=%d: panics", n)
			continue
		}
		if len(in.Cons) != 0 {
			note("n=%d: data-dependent rejection in Encode", n)
			continue
		}
		streamBit := func(q int) bitdom.Poly {
			if q >= 8*n {
				return bitdom.Zero()
			}
			return src.A.Elems[q/8].(*bitdom.BV).Bits[7-q%8]
		}
		ok := true
		for k := 0; k < int(m)+6 && ok; k++ {
			sym := dst.A.Elems[k].(*bitdom.BV)
			for j := 0; j < 8; j++ {
				want := bitdom.Zero()
				if j < 5 && k < int(m) {
					want = streamBit(5*k + (4 - j))
				}
				if !bitdom.Equal(sym.Bits[j], want) {
					ok = false
					note("n=%d: symbol %d bit %d = %s, want %s", n, k, j, sym.Bits[j].Format(in.Name), want.Format(in.Name))
					break
				}
			}
		}
		if ok {
			good++
		}
	}
	r.Check(bad == 0, "C05.regroup-bits.all-lengths", c.P.Pos(fn.Pos()), "base32.Encode decided in the ANF domain for every source length 0..60: %d lengths conform (MSB-first 8→5 regroup, zero padding, symbols < 32, the six checksum slots untouched, in-bounds); first deviation: %s", good, first)
	r.Extra["regroup_lengths_decided"] = good
}
