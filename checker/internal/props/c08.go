package props

import (
	"strings"

	"verif/checker/internal/ana"
	"verif/checker/internal/rep"
)

// C08 — Public and private SLIP-10 child derivation commute.

func init() {
	register(&Prop{
		ID:    "C08",
		Level: "other",
		Explanation: "Static decision of the sibling agreement between PrivateKey.Shift and PublicKey.Shift: the same range reject (I_L >= N → ErrInvalidKey) with closed reject lists on both sides, the private zero-sum exit mirrored by the public point-at-infinity exit ((0,0) tested on BOTH coordinates), " +
			"the public sum term Curve.Add(P, Curve.ScalarBaseMult(I_L)), the normal-index HMAC layout and the hardened boundary shared by private and public parents (C02's DeriveChild obligations, re-decided here), the field-exhaustive ExtendedKey.Public(), " +
			"and panic-freedom of the curve calls on that path through the exceptional-case obligations of the secp256k1 implementation that is actually wired in (C17's rules on that copy). The group law (k+I_L)·G = k·G + I_L·G itself is mathematics, not decided.",
		Run: runC08,
	})
}

// reKey re-runs fn and moves the obligations it recorded under another key prefix.
func reKey(c *Ctx, from, to string, fn func()) {
	before := len(c.R.Obls)
	fn()
	var kept []rep.Obligation
	kept = append(kept, c.R.Obls[:before]...)
	for _, o := range c.R.Obls[before:] {
		if strings.HasPrefix(o.Key, from) {
			o.Key = to + o.Key[len(from):]
		}
		kept = append(kept, o)
	}
	c.R.Obls = kept
}

func runC08(c *Ctx) {
	r := c.R
	r.Rule("C08.sibling-guards", "PrivateKey.Shift and PublicKey.Shift both reject Cmp(SetBytes(buf), N) >= 0 with ErrInvalidKey; the private side additionally rejects exactly a zero sum, the public side exactly the point at infinity (x.Sign()==0 AND y.Sign()==0); neither has any other reject reason")
	r.Rule("C08.public-sum", "public child = Curve.Add(P.X, P.Y, Curve.ScalarBaseMult(buf)) on the same curve")
	r.Rule("C08.derive", "DeriveChild obligations of C02 that both sides share: normal layout serP(K)‖ser32(i) under index < 2^31 for private and public parents alike, same I_L handed to Key.Shift, chain code I_R, Public() field-exhaustive")
	r.Rule("C08.curve", "the secp256k1 implementation wired into elliptic.Secp256k1() satisfies C17's nil-safety and exceptional-case obligations, so Add/ScalarBaseMult on this path neither panic nor return nil for shift 0, shift = k, shift = n−k")
	r.Assume("crypto/elliptic P-256 implements the group law with (0,0) as the point at infinity and does not panic on valid points")
	r.NotDec("(k+I_L)·G = k·G + I_L·G (group law)")

	n := "load(faddr<N>(call<(crypto/elliptic.Curve).Params>(load(faddr<Curve>(p0)))))"
	il := "obj(alloc<math/big.Int>, call<(*math/big.Int).SetBytes>(self, p1))"
	rangeRej := "bin<>=>(call<(*math/big.Int).Cmp>(" + il + ", " + n + "), 0)"

	pureScan(c, "C08.pure.no-package-state", c.P.Func("pkg/slip10/elliptic", "PrivateKey.Shift"), c.P.Func("pkg/slip10/elliptic", "PublicKey.Shift"), c.P.Func("pkg/slip10/elliptic", "PrivateKey.Public"), c.P.Func("pkg/slip10/elliptic", "PublicKey.Bytes"), c.P.Func("pkg/slip10", "ExtendedKey.DeriveChild"), c.P.Func("pkg/slip10", "ExtendedKey.Public"))

	// ---- public side
	if f := c.fn("pkg/slip10/elliptic", "PublicKey.Shift"); f != nil {
		fn := f.Function
		b := ana.NewBuilder(c.P, fn)
		sbm := "call<(crypto/elliptic.Curve).ScalarBaseMult>(load(faddr<Curve>(p0)), p1)"
		add := "call<(crypto/elliptic.Curve).Add>(load(faddr<Curve>(p0)), load(faddr<X>(p0)), load(faddr<Y>(p0)), ext#0(" + sbm + "), ext#1(" + sbm + "))"
		rng := plainEdges(edgesMatching(b, rangeRej))
		xz := plainEdges(edgesMatching(b, "bin<==>("+bigSign+"(ext#0("+add+")), 0)"))
		yz := plainEdges(edgesMatching(b, "bin<==>("+bigSign+"(ext#1("+add+")), 0)"))
		r.Check(len(rng) == 1, "C08.sibling-guards.public.range", c.P.Pos(fn.Pos()), "public side rejects I_L >= N (same atom as the private side)")
		for _, e := range ana.Exits(fn) {
			if e.Panic {
				r.Viol("C08.sibling-guards.public.no-panic", c.ipos(e.Instr), "explicit panic in PublicKey.Shift")
				continue
			}
			et := b.Of(e.Results[1], e.Instr)
			if et.Is("nil") {
				vt := b.Of(e.Results[0], e.Instr)
				want := "obj(alloc<repo/pkg/slip10/elliptic.PublicKey>, store(faddr<X>(self), ext#0(" + add + ")), store(faddr<Y>(self), ext#1(" + add + ")), store(faddr<Curve>(self), load(faddr<Curve>(p0))))"
				_, ok := ana.Match(want, vt)
				r.Check(ok, "C08.public-sum.term", c.ipos(e.Instr), "public child = Add(P, ScalarBaseMult(I_L)) on the same curve %s", ana.Explain(want, vt))
				continue
			}
			_, isInv := ana.Match("load(global<"+slipPkg+"ErrInvalidKey>)", et)
			blk := e.Instr.Block()
			_ = blk
			viaRange := exitMustPass(fn, e, rng)
			viaInf := len(xz) > 0 && len(yz) > 0 && exitMustPass(fn, e, xz) && exitMustPass(fn, e, yz)
			r.Check(isInv && (viaRange || viaInf), "C08.sibling-guards.public.reject-closed", c.ipos(e.Instr), "ErrInvalidKey only for I_L >= N or for the point at infinity (both coordinates zero): range=%v infinity=%v", viaRange, viaInf)
		}
	}
	// ---- private side
	if f := c.fn("pkg/slip10/elliptic", "PrivateKey.Shift"); f != nil {
		fn := f.Function
		b := ana.NewBuilder(c.P, fn)
		k := "load(faddr<K>(p0))"
		// (I_L + K) mod N computed in place in the parsed I_L, or into a fresh value (big.Int results depend on the operands only)
		ilv := "obj(alloc<math/big.Int>, call<(*math/big.Int).SetBytes>(self, p1))"
		sum := "alt(obj(alloc<math/big.Int>, call<(*math/big.Int).SetBytes>(self, p1), call<(*math/big.Int).Add>(self, self, " + k + "), call<(*math/big.Int).Mod>(self, self, " + n + ")), " +
			"obj(alloc<math/big.Int>, call<(*math/big.Int).Add>(self, " + ilv + ", " + k + "), call<(*math/big.Int).Mod>(self, self, " + n + ")), " +
			"obj(alloc<math/big.Int>, call<(*math/big.Int).Add>(self, " + k + ", " + ilv + "), call<(*math/big.Int).Mod>(self, self, " + n + ")))"
		rng := plainEdges(edgesMatching(b, rangeRej))
		zero := plainEdges(edgesMatching(b, "bin<==>("+bigSign+"("+sum+"), 0)"))
		r.Check(len(rng) == 1, "C08.sibling-guards.private.range", c.P.Pos(fn.Pos()), "private side rejects I_L >= N")
		for _, e := range ana.Exits(fn) {
			if e.Panic {
				r.Viol("C08.sibling-guards.private.no-panic", c.ipos(e.Instr), "explicit panic in PrivateKey.Shift")
				continue
			}
			et := b.Of(e.Results[1], e.Instr)
			if et.Is("nil") {
				continue
			}
			blk := e.Instr.Block()
			_ = blk
			r.Check(exitMustPass(fn, e, rng) || len(zero) > 0 && exitMustPass(fn, e, zero), "C08.sibling-guards.private.reject-closed", c.ipos(e.Instr), "ErrInvalidKey only for I_L >= N or (I_L + k) mod N == 0 (whose public counterpart is the point at infinity)")
		}
	}
	// ---- shared DeriveChild obligations and Public()
	reKey(c, "C02.", "C08.derive.", func() {
		c02Derive(c)
		c02Misc(c)
	})
	// keep only the relevant ones
	var kept []rep.Obligation
	for _, o := range r.Obls {
		if strings.HasPrefix(o.Key, "C08.derive.") {
			rel := strings.HasPrefix(o.Key, "C08.derive.ckd-data.") || strings.HasPrefix(o.Key, "C08.derive.public-copy") || strings.HasPrefix(o.Key, "C08.derive.fingerprint") ||
				strings.HasPrefix(o.Key, "C08.derive.hardened-pub") || strings.HasPrefix(o.Key, "C08.derive.constants.curve") || strings.HasPrefix(o.Key, "C08.derive.floor.hmac")
			if !rel {
				continue
			}
		}
		kept = append(kept, o)
	}
	r.Obls = kept
	// public key serialisation and the private->public map (fixed width)
	reKey(c, "C02.scalar-validity.", "C08.derive.ser.", func() {
		before := len(r.Obls)
		c02Elliptic(c)
		var k2 []rep.Obligation
		k2 = append(k2, r.Obls[:before]...)
		for _, o := range r.Obls[before:] {
			if strings.Contains(o.Key, ".public") || strings.Contains(o.Key, ".serP") {
				k2 = append(k2, o)
			}
		}
		r.Obls = k2
	})
	// ---- the wired-in curve
	reKey(c, "C17.", "C08.curve.", func() { c17Copy(c, "pkg/slip10/elliptic/internal/btccurve") })
}
