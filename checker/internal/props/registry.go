// Package props holds the repository-specific obligation tables, one file per property.
package props

import (
	"fmt"
	"go/token"
	"sort"
	"strings"

	"verif/checker/internal/ana"
	"verif/checker/internal/rep"
)

// Ctx is what a property's rules get.
type Ctx struct {
	P     *ana.Prog   // the configuration being analysed
	R     *rep.Report //
	Tier  string      // quick | thorough
	Repo  string
	Verif string
	Load  func(ana.Config) (*ana.Prog, error)
}

func (c *Ctx) Thorough() bool { return c.Tier == "thorough" }

// Prop describes one property's check.
type Prop struct {
	ID          string
	Level       string
	Explanation string
	// Configs lists extra build configurations (besides the default) the
	// rules run on, per tier.
	Configs func(tier string) []ana.Config
	Run     func(c *Ctx)
	// Once runs after all configurations (cross-configuration rules), optional.
	Once func(c *Ctx)
}

var registry = map[string]*Prop{}

func register(p *Prop) { registry[p.ID] = p }

func Get(id string) *Prop { return registry[id] }

func IDs() []string {
	var ids []string
	for id := range registry {
		ids = append(ids, id)
	}
	sort.Strings(ids)
	return ids
}

// fn looks an API entry point up and records it; a missing anchor is UNDECIDED.
func (c *Ctx) fn(rel, name string) *ssaFunc {
	f := c.P.Func(rel, name)
	if f == nil {
		f = c.helper(rel, name)
	}
	if f == nil {
		// an unexported method of a type may have become a plain function of the package (or the reverse)
		if i := strings.Index(name, "."); i >= 0 && !token.IsExported(name[i+1:]) {
			f = c.P.Func(rel, name[i+1:])
		}
	}
	if f == nil {
		c.R.Undec(c.R.Prop+".anchor."+rel+"."+name, "", "anchor %s.%s not found in the type-checked program", rel, name)
		return nil
	}
	c.R.Fn(ana.ShortFunc(f))
	return &ssaFunc{f}
}

func posOf(c *Ctx, v interface{ Pos() tokenPos }) string { return c.P.Pos(v.Pos()) }

var _ = fmt.Sprint
