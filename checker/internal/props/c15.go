package props

import (
	"strings"

	"golang.org/x/tools/go/ssa"

	"verif/checker/internal/ana"
)

// C15 — Merkle Hash is the RFC 6962-style tree hash for every leaf count.

func init() {
	register(&Prop{
		ID:    "C15",
		Level: "other",
		Explanation: "Static decision of the recursion shape of merkle.Hash: the three exits (empty → H(), one leaf → H(0x00‖leaf), otherwise H(0x01‖Hash(data[:k])‖Hash(data[k:])) with k the split helper applied to len(data) and the two recursive calls on complementary sub-slices, left before right), " +
			"the split helper as a closed-form term 1 << (bits.Len(uint(n-1))-1) with the single precondition exit n <= 1 and no magnitude-dependent branch or narrowing mask, error discipline (each error tested before the value is used; the right subtree is hashed only after the left succeeded, so the first error wins), " +
			"domain-separation prefixes, the same hash function everywhere, and input immutability (no store through the arguments or the marshalled bytes, Sum called on nil). Equality with a bottom-up construction is a theorem about this shape, not checked.",
		Run: runC15,
	})
}

func runC15(c *Ctx) {
	r := c.R
	r.Rule("C15.shape", "Hash: len==0 → t.hash.New().Sum(nil); len==1 → leaf hash of data[0]; else node hash of (Hash(data[0:k]), Hash(data[k:])) with k = split(len(data)); leaf = H(Write([0x00]), Write(MarshalBinary())); node = H(Write([0x01]), Write(l), Write(r)); all with t.hash")
	r.Rule("C15.split-helper", "split(n) = 1 << ((bits.Len(uint(n-1)) - 1) [& (wordsize-1)]) under the single exit n <= 1 → panic; no other branch, loop or mask (2^(Len(y)-1) <= y < 2^Len(y) for y = n-1 >= 1, so this is the largest power of two strictly below n)")
	r.Rule("C15.error-discipline", "every error of MarshalBinary / the recursive calls is tested and returned (with a nil hash) before the value is used; the right recursion happens only after the left one returned no error")
	r.Rule("C15.no-input-writes", "no function of the package stores through its slice/interface arguments or through the marshalled bytes; hash.Sum is called with nil")
	r.Assume("crypto.Hash.New / hash.Hash semantics; MarshalBinary of the leaves is a pure function of the leaf")
	r.NotDec("equality with an independent bottom-up construction (a theorem about the checked recursion shape)")

	f := c.fn("pkg/merkle", "Hasher.Hash")
	if f == nil {
		return
	}
	fn := f.Function
	b := ana.NewBuilder(c.P, fn)
	self := "call<(*repo/pkg/merkle.Hasher).Hash>"
	var split, leafFn, nodeFn, emptyFn *ssa.Function

	nEmpty, nLeaf, nNode := 0, 0, 0
	var nodeHelper *ssa.Function
	hashFn := fn
	// the exits of Hash; where Hash ends in `return t.node(data[:k], data[k:])` of a helper that does the two recursive
	// calls, that helper's exits with its parameters bound to the arguments (pre: what the call site has passed in Hash)
	type exitIn struct {
		fn  *ssa.Function
		b   *ana.Builder
		e   ana.Exit
		pre func(gate int) bool // the exit lies behind the length gate e0 / e1 / n0 / n1 (in Hash, or in the helper it hands over to)
	}
	const e0, e1, n0, n1 = 0, 1, 2, 3
	lenGates := func(b *ana.Builder) [][]ana.Edge {
		return [][]ana.Edge{
			plainEdges(edgesMatching(b, "bin<==>(len(p1), 0)")), plainEdges(edgesMatching(b, "bin<==>(len(p1), 1)")),
			plainEdges(edgesMatching(b, "bin<!=>(len(p1), 0)")), plainEdges(edgesMatching(b, "bin<!=>(len(p1), 1)")),
		}
	}
	gates := lenGates(b)
	var items []exitIn
	for _, e := range ana.Exits(fn) {
		e := e
		direct := exitIn{fn, b, e, func(gate int) bool { return exitMustPass(fn, e, gates[gate]) }}
		if !e.Panic {
			var res []*ana.Term
			for _, rv := range e.Results {
				res = append(res, b.Of(rv, e.Instr))
			}
			if call := tailCall(res); call != nil {
				// Hash settles the empty tree itself and hands every non-empty list, whole, to a helper that recurses into
				// itself: for a non-empty list Hash *is* that helper, and the helper's own parts are non-empty (0 < k < len,
				// C15.split-helper), so the recursion target of the rules below is the helper
				if h := calleeOf(call); h != nil && h != fn && h.Blocks != nil && ana.InRepo(h) && len(call.Args) == len(h.Params) && nodeHelper == nil &&
					matches("call<*>(p0, p1)", call) && exitMustPass(fn, e, gates[n0]) && sigKey(h) == sigKey(fn) {
					r.Fn(ana.ShortFunc(h))
					hb := c.boundBuilder(call)
					hg := lenGates(hb)
					for _, e2 := range ana.Exits(h) {
						e2 := e2
						items = append(items, exitIn{h, hb, e2, func(gate int) bool { return direct.pre(gate) || exitMustPass(h, e2, hg[gate]) }})
					}
					nodeHelper = h
					self = "call<" + h.String() + ">"
					continue
				}
				if h := calleeOf(call); h != nil && h != fn && h.Blocks != nil && ana.InRepo(h) && len(call.Args) == len(h.Params) && matches("call<*>(p0, slice(p1, 0, _), slice(p1, _, none))", call) {
					r.Fn(ana.ShortFunc(h))
					hb := c.boundBuilder(call)
					for _, e2 := range ana.Exits(h) {
						items = append(items, exitIn{h, hb, e2, direct.pre})
					}
					nodeHelper = h
					continue
				}
			}
		}
		items = append(items, direct)
	}
	for _, it := range items {
		fnX, bX, e := it.fn, it.b, it.e
		if e.Panic {
			r.Viol("C15.shape.no-panic", c.ipos(e.Instr), "explicit panic in Hash")
			continue
		}
		vt, et := bX.Of(e.Results[0], e.Instr), bX.Of(e.Results[1], e.Instr)
		blk := e.Instr.Block()
		_ = blk
		switch {
		case matches("call<(hash.Hash).Sum>(call<(crypto.Hash).New>(load(faddr<#0>(p0))), nil)", vt) && et.Is("nil"):
			// the empty root computed in place
			nEmpty++
			r.Check(it.pre(e0), "C15.shape.empty", c.ipos(e.Instr), "empty root returned exactly under len(data)==0")
			r.Check(true, "C15.shape.empty-hash", c.ipos(e.Instr), "empty root = t.hash.New().Sum(nil) with nothing written: %s", vt)
		case matches("call<*>(p0)", vt) && et.Is("nil"):
			nEmpty++
			emptyFn = calleeOf(vt)
			r.Check(it.pre(e0), "C15.shape.empty", c.ipos(e.Instr), "empty root returned exactly under len(data)==0")
		case et.Is("nil") && leafInPlace(c, vt):
			// the single leaf marshalled by Hash itself and hashed in place or by a helper that takes the bytes
			nLeaf++
			mOK := plainEdges(edgesMatching(bX, "bin<==>(ext#1(call<(encoding.BinaryMarshaler).MarshalBinary>(load(iaddr(p1, 0)))), nil)"))
			r.Check(it.pre(e1) && it.pre(n0) && exitMustPass(fnX, e, mOK), "C15.shape.single-leaf", c.ipos(e.Instr), "leaf hash of data[0] returned exactly under len(data)==1, after MarshalBinary succeeded")
			r.OK("C15.shape.leaf", c.ipos(e.Instr), "leaf = t.hash: Write([0x00]), Write(marshalled leaf), Sum(nil), only after MarshalBinary succeeded (decided on the expanded term)")
		case matches("ext#0(call<*>(p0, load(iaddr(p1, 0))))", vt):
			nLeaf++
			leafFn = calleeOf(vt)
			_, okE := ana.Match("ext#1(call<*>(p0, load(iaddr(p1, 0))))", et)
			r.Check(it.pre(e1) && it.pre(n0) && okE && calleeOf(et) == leafFn, "C15.shape.single-leaf", c.ipos(e.Instr), "leaf hash of data[0] (value and error of the same call) returned exactly under len(data)==1")
		case et.Is("nil"):
			nNode++
			pat := "call<*>(p0, ext#0(" + self + "(p0, slice(p1, 0, $k))), ext#0(" + self + "(p0, slice(p1, $k, none))))"
			bd, ok := ana.Match(pat, vt)
			nodeInline := false
			if !ok {
				// the node hash computed in place: t.hash.New(), Write([0x01]), Write(left), Write(right), Sum(nil)
				patI := "call<(hash.Hash).Sum>(obj(call<(crypto.Hash).New>(load(faddr<#0>(p0))), call<(hash.Hash).Write>(self, slice(obj(alloc<[1]byte>, store(iaddr(self, 0), 1)), 0, none)), call<(hash.Hash).Write>(self, ext#0(" + self + "(p0, slice(p1, 0, $k)))), call<(hash.Hash).Write>(self, ext#0(" + self + "(p0, slice(p1, $k, none))))), nil)"
				if bd, ok = ana.Match(patI, vt); ok {
					nodeInline = true
					r.OK("C15.shape.node-hash", c.ipos(e.Instr), "node = t.hash: Write([0x01]), Write(left), Write(right), Sum(nil), computed in place")
				}
			}
			if !ok {
				r.Viol("C15.shape.node", c.ipos(e.Instr), "node result is not node(Hash(data[0:k]), Hash(data[k:])) with the same k, left first: %s", ana.Explain(pat, vt))
				continue
			}
			if !nodeInline {
				nodeFn = calleeOf(vt)
			}
			_, okK := ana.Match("call<*>(len(p1))", bd["$k"])
			split = calleeOf(bd["$k"])
			r.Check(okK && split != nil && it.pre(n0) && it.pre(n1), "C15.shape.node", c.ipos(e.Instr), "node = H(0x01‖Hash(data[:k])‖Hash(data[k:])), k = split(len(data)), under len(data) >= 2; the two sub-slices partition the argument")
			// error gates
			lE := plainEdges(edgesMatching(bX, "bin<==>(ext#1("+self+"(p0, slice(p1, 0, _))), nil)"))
			rE := plainEdges(edgesMatching(bX, "bin<==>(ext#1("+self+"(p0, slice(p1, _, none))), nil)"))
			r.Check(exitMustPass(fnX, e, lE) && exitMustPass(fnX, e, rE), "C15.error-discipline.both-tested", c.ipos(e.Instr), "the node hash is computed only after both recursive calls returned no error")
		default:
			// error returns: must carry a recursive call's error and a nil hash
			// each returned error is the error of the recursive call that failed: directly, or merged by a phi whose
			// incoming edges each come from the failure branch of the call whose error they carry
			patL := "ext#1(" + self + "(p0, slice(p1, 0, _)))"
			patR := "ext#1(" + self + "(p0, slice(p1, _, none)))"
			failL := plainEdges(edgesMatching(bX, "bin<!=>("+patL+", nil)"))
			failR := plainEdges(edgesMatching(bX, "bin<!=>("+patR+", nil)"))
			okProp := false
			mErr := "ext#1(call<(encoding.BinaryMarshaler).MarshalBinary>(load(iaddr(p1, 0))))"
			if _, okM := ana.Match(mErr, et); okM {
				// the single leaf's marshaling error, returned by Hash itself
				okProp = exitMustPass(fnX, e, plainEdges(edgesMatching(bX, "bin<!=>("+mErr+", nil)"))) && it.pre(e1)
			} else if _, okL := ana.Match(patL, et); okL {
				okProp = exitMustPass(fnX, e, failL)
			} else if _, okR := ana.Match(patR, et); okR {
				okProp = exitMustPass(fnX, e, failR)
			} else if phi, isPhi := e.Results[1].(*ssa.Phi); isPhi {
				okProp = len(phi.Edges) > 0
				for i, ev := range phi.Edges {
					pt := bX.Of(ev, phi)
					edge := ana.Edge{From: phi.Block().Preds[i], To: phi.Block()}
					switch {
					case matches(patL, pt):
						okProp = okProp && edgeMustPass(fnX, edge, failL)
					case matches(patR, pt):
						okProp = okProp && edgeMustPass(fnX, edge, failR)
					default:
						okProp = false
					}
				}
			}
			r.Check(okProp && vt.Is("nil"), "C15.error-discipline.propagated", c.ipos(e.Instr), "error return = the error of the recursive call that failed, with a nil hash: %s", short(et.String(), 140))
		}
	}
	r.Check(nEmpty == 1 && nLeaf == 1 && nNode == 1, "C15.shape.exits", c.P.Pos(fn.Pos()), "exactly one empty, one leaf and one node exit (found %d/%d/%d)", nEmpty, nLeaf, nNode)
	// left recursion before right, right only after left succeeded
	var lc, rc ssa.CallInstruction
	if nodeHelper != nil {
		// the recursive calls sit in the node helper: same rule there, in Hash's vocabulary
		for _, it := range items {
			if it.fn == nodeHelper {
				fn, b = it.fn, it.b
				break
			}
		}
	}
	for _, ci := range ana.Calls(fn) {
		t := b.CallTermAt(ci)
		if matches(self+"(p0, slice(p1, 0, _))", t) {
			lc = ci
		}
		if matches(self+"(p0, slice(p1, _, none))", t) {
			rc = ci
		}
	}
	if lc != nil && rc != nil {
		lE := plainEdges(edgesMatching(b, "bin<==>(ext#1("+self+"(p0, slice(p1, 0, _))), nil)"))
		r.Check(ana.InstrDominates(lc, rc) && mustPass(fn, rc.Block(), lE), "C15.error-discipline.left-first", c.ipos(rc), "the right subtree is hashed only after the left subtree was hashed without error (so the first marshaling error, in leaf order, is the one returned)")
	} else {
		r.Undec("C15.error-discipline.left-first", c.P.Pos(fn.Pos()), "recursive calls not found")
	}

	// split helper
	if split == nil {
		r.Undec("C15.split-helper.term", "", "split helper not resolved")
	} else {
		r.Fn(ana.ShortFunc(split))
		sb := ana.NewBuilder(c.P, split)
		pre := plainEdges(edgesMatching(sb, "bin<<=>(p0, 1)", "bin<<>(p0, 2)"))
		ws := itoa(int64(c.wordBits() - 1))
		nRet, nPanic := 0, 0
		for _, e := range ana.Exits(split) {
			if e.Panic {
				nPanic++
				r.Check(exitMustPass(split, e, pre), "C15.split-helper.precondition", c.ipos(e.Instr), "panic exactly under n <= 1")
				continue
			}
			nRet++
			t := sb.Of(e.Results[0], e.Instr)
			core := "bin<->(call<math/bits.Len>(conv<uint>(bin<->(p0, 1))), 1)"
			// Len(y) = W − LeadingZeros(y), so 1 << (Len(y)−1) = 2^(W−1) >> LeadingZeros(y)
			top := "9223372036854775808"
			if c.wordBits() == 32 {
				top = "2147483648"
			}
			lz := "bin<>>>(" + top + ", alt(call<math/bits.LeadingZeros>(conv<uint>(bin<->(p0, 1))), conv<uint>(call<math/bits.LeadingZeros>(conv<uint>(bin<->(p0, 1))))))"
			_, ok := ana.MatchAny(t, "bin<<<>(1, bin<&>("+core+", "+ws+"))", "bin<<<>(1, "+core+")", "bin<<<>(1, conv<uint>("+core+"))", "bin<<<>(1, bin<&>(conv<uint>("+core+"), "+ws+"))",
				lz, "conv<int>("+lz+")",
				// 1 << (W-1 - LeadingZeros(y)): W-1-LeadingZeros(y) = Len(y)-1
				"bin<<<>(1, bin<->("+itoa(int64(c.wordBits()-1))+", conv<uint>(call<math/bits.LeadingZeros>(conv<uint>(bin<->(p0, 1))))))",
				"bin<<<>(1, conv<uint>(bin<->("+itoa(int64(c.wordBits()-1))+", call<math/bits.LeadingZeros>(conv<uint>(bin<->(p0, 1))))))")
			r.Check(ok, "C15.split-helper.term", c.ipos(e.Instr), "split(n) = 1 << ((bits.Len(uint(n-1)) - 1) [& %s]): %s", ws, t)
		}
		nBranch := len(sb.CondEdges()) / 2
		r.Check(nRet == 1 && nPanic == 1 && nBranch == 1 && len(ana.BackEdges(split)) == 0, "C15.split-helper.no-magnitude-branch", c.P.Pos(split.Pos()), "one return, one precondition panic, no other branch and no loop (branches=%d): counts above any tested size cannot behave differently in kind", nBranch)
	}

	// leaf / node / empty hashing
	hnew := "call<(crypto.Hash).New>(load(faddr<#0>(p0)))"
	prefix := func(v string) string {
		return "call<(hash.Hash).Write>(self, slice(obj(alloc<[1]byte>, store(iaddr(self, 0), " + v + ")), 0, none))"
	}
	if leafFn != nil {
		r.Fn(ana.ShortFunc(leafFn))
		lb := ana.NewBuilder(c.P, leafFn)
		mb := "call<(encoding.BinaryMarshaler).MarshalBinary>(p1)"
		okGate := plainEdges(edgesMatching(lb, "bin<==>(ext#1("+mb+"), nil)"))
		for _, e := range ana.Exits(leafFn) {
			if e.Panic {
				r.Viol("C15.shape.leaf", c.ipos(e.Instr), "panic in leaf hashing")
				continue
			}
			vt, et := lb.Of(e.Results[0], e.Instr), lb.Of(e.Results[1], e.Instr)
			if et.Is("nil") {
				want := "call<(hash.Hash).Sum>(obj(" + hnew + ", " + prefix("0") + ", call<(hash.Hash).Write>(self, ext#0(" + mb + "))), nil)"
				_, ok := ana.MatchX(c.P, want, vt)
				r.Check(ok && exitMustPass(leafFn, e, okGate), "C15.shape.leaf", c.ipos(e.Instr), "leaf = t.hash: Write([0x00]), Write(marshalled leaf), Sum(nil), only after MarshalBinary succeeded %s", ana.Explain(want, vt))
			} else {
				_, ok := ana.Match("ext#1("+mb+")", et)
				r.Check(ok && vt.Is("nil"), "C15.error-discipline.marshal", c.ipos(e.Instr), "MarshalBinary's error is returned instead of a hash")
			}
		}
	}
	if nodeFn != nil {
		r.Fn(ana.ShortFunc(nodeFn))
		nb := ana.NewBuilder(c.P, nodeFn)
		for _, e := range ana.Exits(nodeFn) {
			if e.Panic {
				continue
			}
			vt := nb.Of(e.Results[0], e.Instr)
			want := "call<(hash.Hash).Sum>(obj(" + hnew + ", " + prefix("1") + ", call<(hash.Hash).Write>(self, p1), call<(hash.Hash).Write>(self, p2)), nil)"
			_, ok := ana.MatchX(c.P, want, vt)
			r.Check(ok, "C15.shape.node-hash", c.ipos(e.Instr), "node = t.hash: Write([0x01]), Write(left), Write(right), Sum(nil) %s", ana.Explain(want, vt))
		}
	}
	if emptyFn != nil {
		r.Fn(ana.ShortFunc(emptyFn))
		eb := ana.NewBuilder(c.P, emptyFn)
		for _, e := range ana.Exits(emptyFn) {
			if e.Panic {
				continue
			}
			vt := eb.Of(e.Results[0], e.Instr)
			_, ok := ana.Match("call<(hash.Hash).Sum>("+hnew+", nil)", vt)
			r.Check(ok, "C15.shape.empty-hash", c.ipos(e.Instr), "empty root = t.hash.New().Sum(nil) with nothing written: %s", vt)
		}
	}

	pureScan(c, "C15.pure.no-package-state", hashFn)

	// no input writes: every function of the package
	for _, pf := range c.P.RepoFuncs("pkg/merkle") {
		if strings.HasPrefix(pf.Name(), "init") {
			continue
		}
		pb := ana.NewBuilder(c.P, pf)
		bad := ""
		for _, blk := range pf.Blocks {
			for _, ins := range blk.Instrs {
				switch x := ins.(type) {
				case *ssa.Store:
					root := pb.Root(x.Addr)
					if _, isParam := root.(*ssa.Parameter); isParam && pf.Name() != "NewHasher" {
						bad = "store through parameter at " + c.ipos(x)
					}
				case ssa.CallInstruction:
					cc := x.Common()
					for i, a := range cc.Args {
						root := pb.Root(a)
						_, isParam := root.(*ssa.Parameter)
						_, isMarshal := ana.Match("ext#0(call<(encoding.BinaryMarshaler).MarshalBinary>(_))", pb.Of(root, nil))
						if (isParam && isSliceOrIface(root)) || isMarshal {
							if pb.MayMutateOperand(cc, i) {
								bad = ana.CalleeName(cc) + " may write through " + short(pb.Of(a, x).String(), 60) + " at " + c.ipos(x)
							}
						}
					}
				}
			}
		}
		r.Check(bad == "", "C15.no-input-writes."+pf.Name(), c.P.Pos(pf.Pos()), "%s does not modify its inputs or the marshalled bytes %s", pf.Name(), bad)
	}
}

func isSliceOrIface(v ssa.Value) bool {
	s := v.Type().Underlying().String()
	return strings.HasPrefix(s, "[]") || strings.HasPrefix(s, "interface")
}

// wordBits: 64 for amd64/arm64, 32 for 386.
func (c *Ctx) wordBits() int {
	if c.P.Cfg.GOARCH == "386" || c.P.Cfg.GOARCH == "arm" {
		return 32
	}
	return 64
}

// leafInPlace: vt is SHA(0x00 ‖ MarshalBinary(data[0])) computed with the Hasher's hash — in Hash itself, or by a helper
// that is handed the marshalled bytes (looked through by the matcher).
func leafInPlace(c *Ctx, vt *ana.Term) bool {
	hnew := "call<(crypto.Hash).New>(load(faddr<#0>(p0)))"
	mb := "call<(encoding.BinaryMarshaler).MarshalBinary>(load(iaddr(p1, 0)))"
	want := "call<(hash.Hash).Sum>(obj(" + hnew + ", call<(hash.Hash).Write>(self, slice(obj(alloc<[1]byte>, store(iaddr(self, 0), 0)), 0, none)), call<(hash.Hash).Write>(self, ext#0(" + mb + "))), nil)"
	if matches("ext#0(call<*>(p0, load(iaddr(p1, 0))))", vt) {
		return false // the usual form: the leaf routine marshals (decided below)
	}
	_, ok := ana.MatchX(c.P, want, vt)
	return ok
}
