package props

import (
	"go/token"
	"verif/checker/internal/ana"

	"golang.org/x/tools/go/ssa"
)

type tokenPos = token.Pos

type ssaFunc struct{ *ssa.Function }

// edgesMatching returns the CFG edges of b's function whose literal matches one of the patterns.
func edgesMatching(b *ana.Builder, patterns ...string) []ana.CondEdge {
	var out []ana.CondEdge
	for _, ce := range b.CondEdges() {
		if _, ok := ana.MatchAny(ce.Lit, patterns...); ok {
			out = append(out, ce)
		}
	}
	return out
}

func plainEdges(ces []ana.CondEdge) []ana.Edge {
	var out []ana.Edge
	for _, ce := range ces {
		out = append(out, ce.Edge)
	}
	return out
}

// mustPass reports whether every path from the entry to blk uses one of the edges.
func mustPass(fn *ssa.Function, blk *ssa.BasicBlock, edges []ana.Edge) bool {
	if len(edges) == 0 {
		return false
	}
	return !ana.ReachableAvoiding(fn, edges)[blk]
}

// canReachBlock reports whether `to` is reachable from `from`.
func canReachBlock(from, to *ssa.BasicBlock) bool {
	return ana.ReachableFrom(from, nil)[to]
}

func short(s string, n int) string {
	if len(s) > n {
		return s[:n] + "…"
	}
	return s
}
