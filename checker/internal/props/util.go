package props

import (
	"go/token"
	"verif/checker/internal/ana"

	"golang.org/x/tools/go/ssa"
)

type tokenPos = token.Pos

type ssaFunc struct{ *ssa.Function }

// edgesMatching returns the CFG edges of b's function whose literal matches one of the patterns.
func edgesMatching(b *ana.Builder, patterns ...string) []ana.CondEdge {
	var out []ana.CondEdge
	for _, ce := range b.CondEdges() {
		if _, ok := ana.MatchAny(ce.Lit, patterns...); ok {
			out = append(out, ce)
		}
	}
	return out
}

func plainEdges(ces []ana.CondEdge) []ana.Edge {
	var out []ana.Edge
	for _, ce := range ces {
		out = append(out, ce.Edge)
	}
	return out
}

// mustPass reports whether every path from the entry to blk uses one of the edges.
func mustPass(fn *ssa.Function, blk *ssa.BasicBlock, edges []ana.Edge) bool {
	if len(edges) == 0 {
		return false
	}
	return !ana.ReachableAvoiding(fn, edges)[blk]
}

// canReachBlock reports whether `to` is reachable from `from`.
func canReachBlock(from, to *ssa.BasicBlock) bool {
	return ana.ReachableFrom(from, nil)[to]
}

func short(s string, n int) string {
	if len(s) > n {
		return s[:n] + "…"
	}
	return s
}

// ipos is the position of an instruction, falling back to its function.
func (c *Ctx) ipos(i ssa.Instruction) string {
	if i.Pos().IsValid() {
		return c.P.Pos(i.Pos())
	}
	if b := i.Block(); b != nil {
		for k := len(b.Instrs) - 1; k >= 0; k-- {
			if b.Instrs[k].Pos().IsValid() {
				return c.P.Pos(b.Instrs[k].Pos())
			}
		}
	}
	return c.P.Pos(i.Parent().Pos())
}

// globalInit returns the term stored into package variable name by the
// package initialiser and the number of stores to it in the whole package.
func (c *Ctx) globalInit(rel, name string) (*ana.Term, int, *ssa.Global) {
	pk := c.P.Pkg(rel)
	if pk == nil {
		return nil, 0, nil
	}
	g, ok := pk.Members[name].(*ssa.Global)
	if !ok {
		return nil, 0, nil
	}
	var init *ana.Term
	n := 0
	for _, fn := range c.P.RepoFuncs(rel) {
		if fn.Pkg != pk {
			continue
		}
		b := ana.NewBuilder(c.P, fn)
		for _, blk := range fn.Blocks {
			for _, ins := range blk.Instrs {
				if s, ok := ins.(*ssa.Store); ok && s.Addr == g {
					n++
					if fn.Synthetic == "package initializer" {
						init = b.Of(s.Val, s)
					}
				}
			}
		}
	}
	return init, n, g
}

// lenGuardImplies reports whether literal lit over len(S) implies len(S) > k.
func lenGuardImplies(lit *ana.Term, s *ana.Term, k int64) bool {
	op, l, r, ok := ana.IsCmp(lit)
	if !ok || !l.Is("len") || l.Arg(0).String() != s.String() {
		return false
	}
	cv, isInt := r.Int()
	if !isInt {
		return false
	}
	switch op {
	case ">=", "==":
		return cv >= k+1
	case ">":
		return cv >= k
	}
	return false
}

// constIndexGuarded reports whether S[k] (IndexAddr/Index with constant k on a
// slice or string S) is evaluated only on paths that pass a length test implying len(S) > k.
func constIndexGuarded(b *ana.Builder, ins ssa.Instruction, s *ana.Term, k int64) bool {
	var es []ana.Edge
	for _, ce := range b.CondEdges() {
		if lenGuardImplies(ce.Lit, s, k) {
			es = append(es, ce.Edge)
		}
	}
	return mustPass(b.Fn, ins.Block(), es)
}

// reachableRepoFuncs returns fn and every repository function reachable from it through static calls.
func reachableRepoFuncs(fn *ssa.Function) []*ssa.Function {
	seen := map[*ssa.Function]bool{fn: true}
	order := []*ssa.Function{fn}
	for i := 0; i < len(order); i++ {
		x := order[i]
		for _, ci := range ana.Calls(x) {
			if cal := ana.StaticRepoCallee(ci.Common()); cal != nil && !seen[cal] {
				seen[cal] = true
				order = append(order, cal)
			}
		}
		for _, an := range x.AnonFuncs {
			if !seen[an] {
				seen[an] = true
				order = append(order, an)
			}
		}
	}
	return order
}

// edgeMustPass reports whether every path from the entry that takes edge e
// uses one of edges (e itself may be one of them).
func edgeMustPass(fn *ssa.Function, e ana.Edge, edges []ana.Edge) bool {
	for _, x := range edges {
		if x == e {
			return true
		}
	}
	return mustPass(fn, e.From, edges)
}
