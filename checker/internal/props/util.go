package props

import (
	"fmt"
	"go/token"
	"go/types"
	"os"
	"strconv"
	"strings"
	"verif/checker/internal/ana"

	"golang.org/x/tools/go/ssa"
	"golang.org/x/tools/go/ssa/ssautil"
)

type tokenPos = token.Pos

type ssaFunc struct{ *ssa.Function }

// edgesMatching returns the CFG edges of b's function whose literal matches one of the patterns.
func edgesMatching(b *ana.Builder, patterns ...string) []ana.CondEdge {
	return edgesMatchingD(b, patterns, 0)
}

// edgesMatchingD: edges on which one of the facts is established — by the
// edge's own literal, or because the edge tests the outcome of a repository
// helper all of whose exits with that outcome have themselves passed such an
// edge (parameters bound to the call's arguments). A validation written inline
// or moved into a helper yields the same set of facts.
func edgesMatchingD(b *ana.Builder, patterns []string, depth int) []ana.CondEdge {
	var out []ana.CondEdge
	for _, ce := range b.CondEdges() {
		if ana.LitMatches(ce.Lit, patterns...) {
			out = append(out, ce)
			continue
		}
		// a condition computed by a single-exit helper (ok := below(x, n)): the helper's result term in its place
		if x, ch := ana.ExpandCalls(b.P, ce.Lit); ch {
			if x.Op == "un" && x.Name == "!" {
				x = ana.Negate(x.Args[0])
			}
			if ana.LitMatches(x, patterns...) {
				out = append(out, ce)
				continue
			}
		}
		if depth >= 2 {
			continue
		}
		lits := []*ana.Term{ce.Lit}
		if ce.Lit.Op == "and" {
			lits = ce.Lit.Args
		}
		for _, lit := range lits {
			o, ok := helperOutcome(lit)
			if !ok {
				continue
			}
			hb := boundBuilderP(b.P, o.call)
			xs := exitsWith(hb, o)
			all := len(xs) > 0
			var sub []ana.Edge
			if all {
				sub = plainEdges(edgesMatchingD(hb, patterns, depth+1))
			}
			for _, x := range xs {
				if all && !exitMustPass(hb.Fn, x, sub) && !tailEstablishes(hb, x, o, patterns) {
					all = false
				}
				if !all {
					break
				}
			}
			if all {
				out = append(out, ce)
				break
			}
		}
	}
	return out
}

// tailEstablishes: the exit hands on the result r of another call (`return validate(x)`); having the outcome
// "nil" / "true" then *is* the fact r == nil / r, which may be what the patterns ask for.
func tailEstablishes(hb *ana.Builder, x ana.Exit, o outcome, patterns []string) bool {
	if o.result >= len(x.Results) {
		return false
	}
	rt := hb.Of(x.Results[o.result], x.Instr)
	var lit *ana.Term
	switch o.kind {
	case "nil":
		lit = &ana.Term{Op: "bin", Name: "==", Args: []*ana.Term{rt, {Op: "nil"}}}
	case "nonnil":
		lit = &ana.Term{Op: "bin", Name: "!=", Args: []*ana.Term{rt, {Op: "nil"}}}
	case "true":
		lit = rt
	case "false":
		lit = ana.Negate(rt)
	default:
		return false
	}
	return ana.LitMatches(lit, patterns...)
}

func boundBuilderP(p *ana.Prog, call *ana.Term) *ana.Builder {
	h := calleeOf(call)
	hb := ana.NewBuilder(p, h)
	hb.Bind = map[*ssa.Parameter]*ana.Term{}
	for i, prm := range h.Params {
		if i < len(call.Args) {
			hb.Bind[prm] = call.Args[i]
		}
	}
	return hb
}

func plainEdges(ces []ana.CondEdge) []ana.Edge {
	var out []ana.Edge
	for _, ce := range ces {
		out = append(out, ce.Edge)
	}
	return out
}

// mustPass reports whether every path from the entry to blk uses one of the edges.
func mustPass(fn *ssa.Function, blk *ssa.BasicBlock, edges []ana.Edge) bool {
	if len(edges) == 0 {
		return false
	}
	return !ana.ReachableAvoiding(fn, edges)[blk]
}

// exitMustPass: every path to the exit uses one of the edges. For one case of a merged return (ana.Exit.Via) the
// selecting edge itself may be the one.
func exitMustPass(fn *ssa.Function, e ana.Exit, edges []ana.Edge) bool {
	if e.Via != nil {
		return edgeMustPass(fn, *e.Via, edges)
	}
	return mustPass(fn, e.Instr.Block(), edges)
}

// canReachBlock reports whether `to` is reachable from `from`.
func canReachBlock(from, to *ssa.BasicBlock) bool {
	return ana.ReachableFrom(from, nil)[to]
}

func short(s string, n int) string {
	if len(s) > n {
		return s[:n] + "…"
	}
	return s
}

// ipos is the position of an instruction, falling back to its function.
func (c *Ctx) ipos(i ssa.Instruction) string {
	if i.Pos().IsValid() {
		return c.P.Pos(i.Pos())
	}
	if b := i.Block(); b != nil {
		for k := len(b.Instrs) - 1; k >= 0; k-- {
			if b.Instrs[k].Pos().IsValid() {
				return c.P.Pos(b.Instrs[k].Pos())
			}
		}
	}
	return c.P.Pos(i.Parent().Pos())
}

// globalInit returns the term stored into package variable name by the
// package initialiser and the number of stores to it in the whole package.
func (c *Ctx) globalInit(rel, name string) (*ana.Term, int, *ssa.Global) {
	pk := c.P.Pkg(rel)
	if pk == nil {
		return nil, 0, nil
	}
	g, ok := pk.Members[name].(*ssa.Global)
	if !ok {
		full := ana.Module + "/" + rel + "."
		if nn, has := ana.GlobalRenames[full+name]; has {
			g, ok = pk.Members[strings.TrimPrefix(nn, full)].(*ssa.Global)
		}
	}
	if !ok {
		return nil, 0, nil
	}
	var init *ana.Term
	n := 0
	for _, fn := range c.P.RepoFuncs(rel) {
		if fn.Pkg != pk {
			continue
		}
		b := ana.NewBuilder(c.P, fn)
		for _, blk := range fn.Blocks {
			for _, ins := range blk.Instrs {
				if s, ok := ins.(*ssa.Store); ok && s.Addr == g {
					n++
					if fn.Synthetic == "package initializer" {
						init = b.Of(s.Val, s)
					}
				}
			}
		}
	}
	return init, n, g
}

// lenGuardImplies reports whether literal lit over len(S) implies len(S) > k.
func lenGuardImplies(lit *ana.Term, s *ana.Term, k int64) bool {
	op, l, r, ok := ana.IsCmp(lit)
	if !ok || !l.Is("len") || l.Arg(0).String() != s.String() {
		return false
	}
	cv, isInt := r.Int()
	if !isInt {
		return false
	}
	switch op {
	case ">=", "==":
		return cv >= k+1
	case ">":
		return cv >= k
	}
	return false
}

// constIndexGuarded reports whether S[k] (IndexAddr/Index with constant k on a
// slice or string S) is evaluated only on paths that pass a length test implying len(S) > k.
func constIndexGuarded(b *ana.Builder, ins ssa.Instruction, s *ana.Term, k int64) bool {
	var es []ana.Edge
	for _, ce := range b.CondEdges() {
		if lenGuardImplies(ce.Lit, s, k) {
			es = append(es, ce.Edge)
		}
	}
	return mustPass(b.Fn, ins.Block(), es)
}

// reachableRepoFuncs returns fn and every repository function reachable from it through static calls.
func reachableRepoFuncs(fn *ssa.Function) []*ssa.Function {
	seen := map[*ssa.Function]bool{fn: true}
	order := []*ssa.Function{fn}
	for i := 0; i < len(order); i++ {
		x := order[i]
		for _, ci := range ana.Calls(x) {
			if cal := ana.StaticRepoCallee(ci.Common()); cal != nil && !seen[cal] {
				seen[cal] = true
				order = append(order, cal)
			}
		}
		for _, an := range x.AnonFuncs {
			if !seen[an] {
				seen[an] = true
				order = append(order, an)
			}
		}
	}
	return order
}

// edgeMustPass reports whether every path from the entry that takes edge e
// uses one of edges (e itself may be one of them).
func edgeMustPass(fn *ssa.Function, e ana.Edge, edges []ana.Edge) bool {
	for _, x := range edges {
		if x == e {
			return true
		}
	}
	return mustPass(fn, e.From, edges)
}

// rangeLoop describes `for i := range coll` / `for i, x := range coll` over a
// slice, array or string (index form or rune iterator form).
type rangeLoop struct {
	Header    *ssa.BasicBlock
	Blocks    map[*ssa.BasicBlock]bool
	Coll      *ana.Term
	BodyEntry *ssa.BasicBlock
	Exit      *ssa.BasicBlock
	Back      []ana.Edge
	Runes     bool
}

// rangeLoops finds the range loops of b's function.
func rangeLoops(b *ana.Builder) []rangeLoop {
	var out []rangeLoop
	byHeader := map[*ssa.BasicBlock][]ana.Edge{}
	for _, e := range ana.BackEdges(b.Fn) {
		byHeader[e.To] = append(byHeader[e.To], e)
	}
	for _, ce := range b.CondEdges() {
		if !ce.Taken {
			continue
		}
		backs, ok := byHeader[ce.From]
		if !ok {
			continue
		}
		var coll *ana.Term
		runes := false
		if bd, ok := ana.Match("bin<<>(bin<+>(ind<+1>(-1), 1), len($c))", ce.Lit); ok {
			coll = bd["$c"]
		} else if bd, ok := ana.Match("ext#0(next(range($c)))", ce.Lit); ok {
			coll = bd["$c"]
			runes = true
		} else {
			continue
		}
		blocks := map[*ssa.BasicBlock]bool{}
		for _, e := range backs {
			for k := range ana.LoopBlocks(e) {
				blocks[k] = true
			}
		}
		out = append(out, rangeLoop{Header: ce.From, Blocks: blocks, Coll: coll, BodyEntry: ce.From.Succs[0], Exit: ce.From.Succs[1], Back: backs, Runes: runes})
	}
	return out
}

// forAll reports whether every iteration of the loop that continues (takes a
// back edge) has passed an edge whose literal matches one of the patterns.
func forAll(b *ana.Builder, l rangeLoop, patterns ...string) bool {
	es := plainEdges(edgesMatching(b, patterns...))
	if len(es) == 0 {
		return false
	}
	reach := ana.ReachableFrom(l.BodyEntry, append(append([]ana.Edge{}, es...), ana.Edge{From: l.Header, To: l.Exit}))
	for _, be := range l.Back {
		isRemoved := false
		for _, e := range es {
			if e == be {
				isRemoved = true
			}
		}
		if isRemoved {
			continue
		}
		if reach[be.From] {
			// reachable without passing the predicate edge — unless the only way is through the header again
			return false
		}
	}
	return true
}

// calleeOf returns the repository function called by the call a term stems from.
func calleeOf(t *ana.Term) *ssa.Function {
	if t == nil || t.V == nil {
		return nil
	}
	switch x := t.V.(type) {
	case *ssa.Call:
		if x == nil {
			return nil // the call of a go / defer statement has no value
		}
		return ana.StaticRepoCallee(&x.Call)
	case *ssa.Extract:
		if c, ok := x.Tuple.(*ssa.Call); ok {
			return ana.StaticRepoCallee(&c.Call)
		}
	}
	return nil
}

// int64Set renders a set of integers compactly.
func setString(s map[int64]bool) string {
	var xs []int64
	for x := range s {
		xs = append(xs, x)
	}
	sortInt64(xs)
	var sb []byte
	sb = append(sb, '{')
	for i, x := range xs {
		if i > 0 {
			sb = append(sb, ',')
		}
		sb = append(sb, []byte(itoa(x))...)
	}
	return string(append(sb, '}'))
}

func setEqual(s map[int64]bool, want []int64) bool {
	if len(s) != len(want) {
		return false
	}
	for _, w := range want {
		if !s[w] {
			return false
		}
	}
	return true
}

func sortInt64(xs []int64) {
	for i := 1; i < len(xs); i++ {
		for j := i; j > 0 && xs[j-1] > xs[j]; j-- {
			xs[j-1], xs[j] = xs[j], xs[j-1]
		}
	}
}

func itoa(x int64) string { return strconv.FormatInt(x, 10) }

// globalsTouched counts loads/stores of package-level variables in fn (function values and the address of globals passed on count too).
func globalsTouched(fn *ssa.Function) int {
	n := 0
	for _, blk := range fn.Blocks {
		for _, ins := range blk.Instrs {
			for _, op := range ins.Operands(nil) {
				if _, ok := (*op).(*ssa.Global); ok {
					n++
				}
			}
		}
	}
	return n
}

func isIntType(t types.Type) bool {
	b, ok := t.Underlying().(*types.Basic)
	return ok && b.Info()&types.IsInteger != 0
}

// pureScan is the shared "no mutable package-level state" rule: in every
// function reachable from the given entry points through static repository
// calls (closures included) there is no store to a package-level variable and
// no call that may mutate an object held in (or being) a package-level
// variable. Such state makes the result depend on the history of calls (and is
// a data race under concurrent use), which no property here tolerates; the
// rule fails closed on any cache, memo table, shared scratch buffer or lock.
func pureScan(c *Ctx, key string, roots ...*ssa.Function) {
	seen := map[*ssa.Function]bool{}
	n, bad := 0, 0
	for _, root := range roots {
		if root == nil {
			continue
		}
		for _, fn := range reachableRepoFuncs(root) {
			if seen[fn] || fn.Synthetic == "package initializer" || strings.HasPrefix(fn.Name(), "init#") {
				continue
			}
			seen[fn] = true
			n++
			fb := ana.NewBuilder(c.P, fn)
			for _, blk := range fn.Blocks {
				for _, ins := range blk.Instrs {
					switch x := ins.(type) {
					case *ssa.Store:
						if g := globalRoot(fb, x.Addr); g != nil {
							bad++
							c.R.Viol(key, c.ipos(x), "%s writes package-level variable %s: the result of the API would depend on earlier calls", fn.Name(), g.Name())
						}
					case *ssa.MapUpdate:
						if g := globalRoot(fb, x.Map); g != nil {
							bad++
							c.R.Viol(key, c.ipos(x), "%s updates the package-level map %s", fn.Name(), g.Name())
						}
					case ssa.CallInstruction:
						cc := x.Common()
						if cc.IsInvoke() {
							if g := globalRoot(fb, cc.Value); g != nil && fb.MayMutateOperand(cc, -1) {
								bad++
								c.R.Viol(key, c.ipos(x), "%s calls the mutating method %s on the object held in package-level variable %s", fn.Name(), cc.Method.Name(), g.Name())
							}
						}
						for i, a := range cc.Args {
							if g := globalRoot(fb, a); g != nil && fb.MayMutateOperand(cc, i) {
								bad++
								c.R.Viol(key, c.ipos(x), "%s passes package-level state %s to %s, which may mutate it (cache / shared scratch / lock): results depend on call history and concurrent callers interfere", fn.Name(), g.Name(), ana.CalleeName(cc))
							}
						}
					}
				}
			}
		}
	}
	if bad == 0 {
		c.R.OK(key, "", "%d functions reachable from the entry points: no store to, and no mutating call on, package-level state", n)
	}
	sentinelScan(c, key, seen)
}

// sentinelScan: the documented error kinds stay distinguishable. Every package-level error variable of the repository
// that a function reachable from the API roots loads (and so may return, bare or wrapped) is initialised once, by the
// package initialiser, with errors.New, with fmt.Errorf without %%w, or with a boxed value whose type declares none of
// Is / As / Unwrap — so errors.Is(err, ErrA) holds only for errors built from ErrA itself, never for a sibling kind.
func sentinelScan(c *Ctx, pureKey string, fns map[*ssa.Function]bool) {
	key := pureKey
	if i := strings.Index(key, "."); i > 0 {
		key = key[:i]
	}
	key += ".sentinels.distinct"
	c.R.Rule(key, "every package-level error variable of the repository loaded by a function reachable from the API roots compares by identity: initialised with errors.New, fmt.Errorf without %w, or a value whose type declares no Is / As / Unwrap method (so the documented error kinds cannot be confused by errors.Is)")
	errT := types.Universe.Lookup("error").Type().Underlying().(*types.Interface)
	globals := map[*ssa.Global]bool{}
	for fn := range fns {
		for _, blk := range fn.Blocks {
			for _, ins := range blk.Instrs {
				ld, ok := ins.(*ssa.UnOp)
				if !ok || ld.Op.String() != "*" {
					continue
				}
				g, ok := ld.X.(*ssa.Global)
				if !ok || !ana.InRepo2(g) || !types.Implements(ld.Type(), errT) {
					continue
				}
				globals[g] = true
			}
		}
	}
	bad := 0
	var check func(v ssa.Value, depth int) string
	check = func(v ssa.Value, depth int) string {
		switch x := v.(type) {
		case *ssa.MakeInterface:
			return check(x.X, depth)
		case *ssa.ChangeInterface:
			return check(x.X, depth)
		case *ssa.Call:
			cal := x.Call.StaticCallee()
			if cal == nil {
				return ""
			}
			switch cal.String() {
			case "errors.New":
				return ""
			case "fmt.Errorf":
				if len(x.Call.Args) > 0 {
					if k, ok := x.Call.Args[0].(*ssa.Const); ok && k.Value != nil && strings.Contains(k.Value.ExactString(), "%w") {
						return "is built with fmt.Errorf(\"…%w…\") and so matches the error it wraps"
					}
				}
				return ""
			}
			if depth < 2 && ana.InRepo(cal) && cal.Blocks != nil {
				for _, e := range ana.Exits(cal) {
					if !e.Panic && len(e.Results) == 1 {
						if why := check(e.Results[0], depth+1); why != "" {
							return why
						}
					}
				}
			}
			return ""
		}
		t := v.Type()
		for _, tt := range []types.Type{t, types.NewPointer(t)} {
			ms := types.NewMethodSet(tt)
			for _, name := range []string{"Is", "As", "Unwrap"} {
				if sel := ms.Lookup(nil, name); sel != nil {
					return "has dynamic type " + types.TypeString(t, nil) + " with method " + name + ": errors.Is / errors.As no longer compare it by identity"
				}
				for i := 0; i < ms.Len(); i++ {
					if ms.At(i).Obj().Name() == name {
						return "has dynamic type " + types.TypeString(t, nil) + " with method " + name + ": errors.Is / errors.As no longer compare it by identity"
					}
				}
			}
		}
		return ""
	}
	for g := range globals {
		for _, mem := range g.Pkg.Members {
			fn, ok := mem.(*ssa.Function)
			if !ok || fn.Synthetic != "package initializer" {
				continue
			}
			for _, blk := range fn.Blocks {
				for _, ins := range blk.Instrs {
					if st, ok := ins.(*ssa.Store); ok && st.Addr == g {
						if why := check(st.Val, 0); why != "" {
							bad++
							c.R.Viol(key, c.ipos(st), "error variable %s %s", g.Name(), why)
						}
					}
				}
			}
		}
	}
	if bad == 0 {
		c.R.OK(key, "", "%d package-level error variables loaded by the reachable functions: each compares by identity (errors.New / no Is, As, Unwrap method)", len(globals))
	}
}

// globalRoot returns the package-level variable v is (an address into) or was loaded from.
func globalRoot(b *ana.Builder, v ssa.Value) *ssa.Global {
	root := b.Root(v)
	if g, ok := root.(*ssa.Global); ok {
		return g
	}
	if ld, ok := root.(*ssa.UnOp); ok && ld.Op.String() == "*" {
		if g, ok := b.Root(ld.X).(*ssa.Global); ok {
			return g
		}
	}
	return nil
}

// sigKey renders a function's receiver, parameter and result types (no names).
func sigKey(fn *ssa.Function) string {
	sg := fn.Signature
	var sb strings.Builder
	if r := sg.Recv(); r != nil {
		sb.WriteString("(" + types.TypeString(r.Type(), nil) + ")")
	}
	sb.WriteString("(")
	for i := 0; i < sg.Params().Len(); i++ {
		if i > 0 {
			sb.WriteString(",")
		}
		sb.WriteString(types.TypeString(sg.Params().At(i).Type(), nil))
	}
	sb.WriteString(")(")
	for i := 0; i < sg.Results().Len(); i++ {
		if i > 0 {
			sb.WriteString(",")
		}
		sb.WriteString(types.TypeString(sg.Results().At(i).Type(), nil))
	}
	sb.WriteString(")")
	return sb.String()
}

// helperSigs: unexported helpers the rules anchor on, with the signature they
// have on the pinned tree. A helper is looked up by name first; after a rename
// it is re-identified as the only unexported function of its package with this
// signature (rules never depend on the name itself). Ambiguity or absence is
// an unresolved anchor.
var helperSigs = map[string]string{
	"pkg/curl.Curl.in":                   "(*github.com/wollac/iota-crypto-demo/pkg/curl.Curl)([]int8,uint)()",
	"pkg/curl.Curl.out":                  "(*github.com/wollac/iota-crypto-demo/pkg/curl.Curl)([]int8,uint)()",
	"pkg/curl.Curl.transform":            "(*github.com/wollac/iota-crypto-demo/pkg/curl.Curl)()()",
	"pkg/curl.sBox":                      "(uint,uint,uint,uint)(uint,uint)",
	"pkg/pow/v2.sufficientTrailingZeros": "([]byte,uint64)(int)",
	"pkg/pow/v2.targetHash":              "([]byte,uint64)(*math/big.Int)",
	"pkg/pow/v2.toInt":                   "([]int8)(*math/big.Int)",
	"pkg/pow/v2.tritToUint":              "(int8)(uint64)",
	"pkg/pow/v2.checkStateTrits":         "(*[243]uint,*[243]uint,int,*math/big.Int)(int)",
	"pkg/pow/v2.Worker.worker":           "(*github.com/wollac/iota-crypto-demo/pkg/pow/v2.Worker)([]byte,uint64,int,*math/big.Int,*uint32,*uint64)(uint64,error)",
	"pkg/encoding/b1t6.decodeGroup":      "(int8,int8)(byte,bool)",
	"pkg/encoding/b1t6.encodeGroup":      "(byte)(int8,int8)",
}

// helper resolves an unexported helper: by name, else by unique signature.
func (c *Ctx) helper(rel, name string) *ssa.Function {
	if f := c.P.Func(rel, name); f != nil {
		if os.Getenv("VERIF_DUMP_SIGS") != "" {
			fmt.Printf("\t%q: %q,\n", rel+"."+name, sigKey(f))
		}
		return f
	}
	want, ok := helperSigs[rel+"."+name]
	if !ok {
		return nil
	}
	sp := c.P.Pkg(rel)
	if sp == nil {
		return nil
	}
	var cands []*ssa.Function
	for fn := range ssautil.AllFunctions(c.P.SSA) {
		if fn.Pkg != sp || fn.Parent() != nil || fn.Synthetic != "" || token.IsExported(fn.Name()) || sigKey(fn) != want {
			continue
		}
		// a function that is itself a named anchor (present under its own name) is not a candidate
		nm := fn.Name()
		if rcv := fn.Signature.Recv(); rcv != nil {
			t := rcv.Type()
			if p, ok := t.(*types.Pointer); ok {
				t = p.Elem()
			}
			if n, ok := t.(*types.Named); ok {
				nm = n.Obj().Name() + "." + nm
			}
		}
		if _, other := helperSigs[rel+"."+nm]; other {
			continue
		}
		cands = append(cands, fn)
	}
	if len(cands) > 1 {
		// several unexported functions share the signature: the helper is the one its (exported) user reaches
		if user, ok := helperUsers[rel+"."+name]; ok {
			if uf := c.P.Func(rel, user); uf != nil {
				reach := map[*ssa.Function]bool{}
				for _, f := range reachableRepoFuncs(uf) {
					reach[f] = true
				}
				var kept []*ssa.Function
				for _, f := range cands {
					if reach[f] {
						kept = append(kept, f)
					}
				}
				cands = kept
			}
		}
	}
	if len(cands) == 1 {
		c.R.Assume("helper " + rel + "." + name + " not found by name; re-identified by its signature as " + cands[0].Name())
		return cands[0]
	}
	return nil
}

// helperUsers: for helpers whose signature is shared, the exported function that (alone) reaches them.
var helperUsers = map[string]string{
	"pkg/curl.Curl.in":  "Curl.Absorb",
	"pkg/curl.Curl.out": "Curl.Squeeze",
}

const permSig = "(*[729]uint,*[729]uint,*[729]uint,*[729]uint)()"

// curlPermFns resolves pkg/curl's permutation functions structurally: method =
// (*Curl).transform; perm = the function with the four-array signature it
// calls (assembly stub or portable wrapper); generic = the portable
// implementation (callee of the wrapper, or the only other such function with
// a body).
func curlPermFns(c *Ctx) (method, perm, generic *ssa.Function) {
	method = c.helper("pkg/curl", "Curl.transform")
	if method == nil {
		// the state-level wrapper by what it does: the routine Absorb calls that itself calls a routine of the
		// permutation's shape (it may be a plain function handed the two state arrays)
		if ab := c.P.Func("pkg/curl", "Curl.Absorb"); ab != nil {
			for _, ci := range ana.Calls(ab) {
				cal := ana.StaticRepoCallee(ci.Common())
				if cal == nil || cal.Blocks == nil {
					continue
				}
				for _, cj := range ana.Calls(cal) {
					if f := cj.Common().StaticCallee(); f != nil && ana.InRepo(f) && sigKey(f) == permSig {
						method = cal
					}
				}
			}
		}
	}
	if method == nil {
		return
	}
	for _, ci := range ana.Calls(method) {
		if f := ci.Common().StaticCallee(); f != nil && ana.InRepo(f) && sigKey(f) == permSig {
			if perm != nil && perm != f {
				return method, nil, nil
			}
			perm = f
		}
	}
	if perm == nil {
		return
	}
	if perm.Blocks != nil {
		for _, ci := range ana.Calls(perm) {
			if f := ci.Common().StaticCallee(); f != nil && ana.InRepo(f) && sigKey(f) == permSig {
				generic = f
			}
		}
		if generic == nil {
			generic = perm
		}
		return
	}
	var cands []*ssa.Function
	for fn := range ssautil.AllFunctions(c.P.SSA) {
		if fn.Pkg == perm.Pkg && fn != perm && fn.Parent() == nil && fn.Blocks != nil && fn.Synthetic == "" && sigKey(fn) == permSig {
			cands = append(cands, fn)
		}
	}
	// the portable implementation may delegate one round to a helper of the same shape: take the candidate no other candidate calls
	var roots []*ssa.Function
	for _, f := range cands {
		called := false
		for _, g := range cands {
			if g == f {
				continue
			}
			for _, ci := range ana.Calls(g) {
				if ci.Common().StaticCallee() == f {
					called = true
				}
			}
		}
		if !called {
			roots = append(roots, f)
		}
	}
	if len(roots) == 1 {
		generic = roots[0]
	}
	return
}

// ---- gates through helpers
//
// A validation step may live in the API function itself or in an unexported
// helper whose result is tested (`if err := check(x); err != nil { return … }`,
// `if !valid(x) { … }`). The two forms are the same program; the gate rules
// treat them alike: passing the edge "helper succeeded" establishes every fact
// that all successful exits of the helper establish, with the helper's
// parameters replaced by the argument terms of the call.

type outcome struct {
	call   *ana.Term // call<H>(args)
	result int       // result index tested
	kind   string    // "nil", "nonnil", "true", "false"
}

// helperOutcome recognises a literal that tests the result of a static repository call.
func helperOutcome(lit *ana.Term) (outcome, bool) {
	var x *ana.Term
	var kind string
	switch {
	case lit.Op == "bin" && (lit.Name == "==" || lit.Name == "!=") && len(lit.Args) == 2 && lit.Args[1].Op == "nil":
		x = lit.Args[0]
		kind = map[string]string{"==": "nil", "!=": "nonnil"}[lit.Name]
	case lit.Op == "un" && lit.Name == "!" && len(lit.Args) == 1:
		x, kind = lit.Args[0], "false"
	default:
		x, kind = lit, "true"
	}
	res := 0
	if x.Op == "ext" && len(x.Args) == 1 {
		res = x.Idx
		x = x.Args[0]
	}
	if x.Op == "obj" && len(x.Args) > 0 {
		x = x.Args[0]
	}
	if x.Op != "call" {
		return outcome{}, false
	}
	h := calleeOf(x)
	if h == nil || h.Blocks == nil || !ana.InRepo(h) {
		return outcome{}, false
	}
	return outcome{call: x, result: res, kind: kind}, true
}

// boundBuilder builds terms of the callee in the vocabulary of the caller.
func (c *Ctx) boundBuilder(call *ana.Term) *ana.Builder {
	h := calleeOf(call)
	hb := ana.NewBuilder(c.P, h)
	hb.Bind = map[*ssa.Parameter]*ana.Term{}
	for i, p := range h.Params {
		if i < len(call.Args) {
			hb.Bind[p] = call.Args[i]
		}
	}
	return hb
}

// exitsWith lists the exits of the helper that may produce the outcome.
func exitsWith(hb *ana.Builder, o outcome) []ana.Exit {
	var out []ana.Exit
	for _, e := range ana.Exits(hb.Fn) {
		if e.Panic || o.result >= len(e.Results) {
			continue
		}
		t := hb.Of(e.Results[o.result], e.Instr)
		may := true
		switch o.kind {
		case "nil":
			may = t.Is("nil") || !definitelyNonNil(t)
			if may && !t.Is("nil") && guardedBy(hb, e.Instr.Block(), "!=", t) {
				may = false // returned only after it was tested non-nil
			}
		case "nonnil":
			may = !t.Is("nil")
			if may && guardedBy(hb, e.Instr.Block(), "==", t) {
				may = false // returned only after it was tested nil
			}
		case "true":
			may = t.String() != "false"
		case "false":
			may = t.String() != "true"
		}
		if may {
			out = append(out, e)
		}
	}
	return out
}

// guardedBy: every path to blk passes an edge on which `t op nil` holds.
func guardedBy(hb *ana.Builder, blk *ssa.BasicBlock, op string, t *ana.Term) bool {
	var es []ana.Edge
	want := t.String()
	for _, ce := range hb.CondEdges() {
		l := ce.Lit
		if l.Op == "bin" && l.Name == op && len(l.Args) == 2 && l.Args[1].Op == "nil" && l.Args[0].String() == want {
			es = append(es, ce.Edge)
		}
	}
	return mustPass(hb.Fn, blk, es)
}

func definitelyNonNil(t *ana.Term) bool {
	if t.Op == "obj" && len(t.Args) > 0 {
		t = t.Args[0]
	}
	switch t.Op {
	case "alloc", "makeslice", "makemap", "closure", "func":
		return true
	case "load":
		return len(t.Args) == 1 && t.Args[0].Op == "global" // package-level sentinel errors
	case "call":
		return strings.HasPrefix(t.Name, "fmt.Errorf") || strings.HasPrefix(t.Name, "errors.New")
	}
	return false
}

// passes reports whether every path to blk establishes a fact matching one of
// the patterns — through an edge of the function itself or through the
// successful outcome of a helper (recursively, depth-bounded).
func (c *Ctx) passes(b *ana.Builder, blk *ssa.BasicBlock, patterns ...string) bool {
	return c.passesD(b, blk, patterns, 0)
}

func (c *Ctx) passesD(b *ana.Builder, blk *ssa.BasicBlock, patterns []string, depth int) bool {
	var es []ana.Edge
	for _, ce := range b.CondEdges() {
		if ana.LitMatches(ce.Lit, patterns...) {
			es = append(es, ce.Edge)
			continue
		}
		if depth >= 3 {
			continue
		}
		lits := []*ana.Term{ce.Lit}
		if ce.Lit.Op == "and" {
			lits = ce.Lit.Args
		}
		for _, lit := range lits {
			o, ok := helperOutcome(lit)
			if !ok {
				continue
			}
			hb := c.boundBuilder(o.call)
			xs := exitsWith(hb, o)
			all := len(xs) > 0
			for _, x := range xs {
				if !c.passesD(hb, x.Instr.Block(), patterns, depth+1) && !tailEstablishes(hb, x, o, patterns) {
					all = false
				}
			}
			if all {
				c.R.Fn(ana.ShortFunc(hb.Fn))
				es = append(es, ce.Edge)
				break
			}
		}
	}
	return mustPass(b.Fn, blk, es)
}

// rejectEdges lists the edges that are legitimate reasons to fail: edges whose
// literal matches a reject pattern, and edges "helper failed" where every
// failing exit of the helper is itself reachable only through such edges.
func (c *Ctx) rejectEdges(b *ana.Builder, patterns ...string) []ana.Edge {
	return c.rejectEdgesD(b, patterns, 0)
}

func (c *Ctx) rejectEdgesD(b *ana.Builder, patterns []string, depth int) []ana.Edge {
	var es []ana.Edge
	for _, ce := range b.CondEdges() {
		if ana.LitMatches(ce.Lit, patterns...) {
			es = append(es, ce.Edge)
			continue
		}
		if depth >= 3 {
			continue
		}
		lits := []*ana.Term{ce.Lit}
		if ce.Lit.Op == "and" {
			continue // failing a conjunction is legitimate only if every conjunct's failure is (handled by LitMatches on `or`)
		}
		// a first-violation scanner reported a position (H(x) >= 0, H(x) != -1): legitimate when H
		// returns anything but a negative constant only through such edges
		if bd, ok := ana.MatchAny(ce.Lit, "raw:bin<>=>($h, 0)", "raw:bin<!=>($h, -1)"); ok {
			call := stripObj(bd["$h"])
			if h := calleeOf(call); call.Op == "call" && h != nil && h.Blocks != nil && ana.InRepo(h) && len(call.Args) == len(h.Params) && len(ana.BackEdges(h)) > 0 {
				hb := c.boundBuilder(call)
				avoid := ana.ReachableAvoiding(h, c.rejectEdgesD(hb, patterns, depth+1))
				all, n := true, 0
				for _, e := range ana.Exits(h) {
					if e.Panic || len(e.Results) != 1 {
						all = false
						continue
					}
					if k, isInt := hb.Of(e.Results[0], e.Instr).Int(); isInt && k < 0 {
						continue
					}
					n++
					if avoid[e.Instr.Block()] {
						all = false
					}
				}
				if all && n > 0 {
					es = append(es, ce.Edge)
					continue
				}
			}
		}
		for _, lit := range lits {
			o, ok := helperOutcome(lit)
			if !ok || (o.kind != "nonnil" && o.kind != "false") {
				continue
			}
			hb := c.boundBuilder(o.call)
			xs := exitsWith(hb, o)
			if len(xs) == 0 {
				continue
			}
			avoid := ana.ReachableAvoiding(hb.Fn, c.rejectEdgesD(hb, patterns, depth+1))
			all := true
			for _, x := range xs {
				if avoid[x.Instr.Block()] {
					all = false
				}
			}
			if all {
				es = append(es, ce.Edge)
			}
		}
	}
	return es
}

// ---- virtual exits: tail calls into helpers are looked through

type frame struct {
	B   *ana.Builder
	Blk *ssa.BasicBlock
}

// vexit is an exit of an API function after looking through tail calls
// (`return helper(args)`): Frames lists, outermost first, the call sites that
// lead to the returning block; Results are in the vocabulary of the API function.
type vexit struct {
	Frames  []frame
	Instr   ssa.Instruction // the innermost return / panic
	Panic   bool
	Results []*ana.Term
}

func (v vexit) top() frame { return v.Frames[0] }

// vexits lists the exits of b.Fn; an exit that returns exactly the results of one
// static repository call made in the returning block's function is replaced by that callee's exits.
func (c *Ctx) vexits(b *ana.Builder) []vexit { return c.vexitsD(b, nil, 0) }

func (c *Ctx) vexitsD(b *ana.Builder, outer []frame, depth int) []vexit {
	var out []vexit
	for _, e := range ana.Exits(b.Fn) {
		frames := append(append([]frame{}, outer...), frame{b, e.Instr.Block()})
		if e.Panic {
			out = append(out, vexit{Frames: frames, Instr: e.Instr, Panic: true})
			continue
		}
		var res []*ana.Term
		for _, r := range e.Results {
			res = append(res, b.Of(r, e.Instr))
		}
		if call := tailCall(res); call != nil && depth < 3 {
			if h := calleeOf(call); h != nil && h.Blocks != nil && ana.InRepo(h) && h != b.Fn {
				c.R.Fn(ana.ShortFunc(h))
				out = append(out, c.vexitsD(c.boundBuilder(call), frames, depth+1)...)
				continue
			}
		}
		out = append(out, vexit{Frames: frames, Instr: e.Instr, Results: res})
	}
	return out
}

// tailCall: results are exactly call / (ext#0(call), ext#1(call), …) of one call term.
func tailCall(res []*ana.Term) *ana.Term {
	if len(res) == 0 {
		return nil
	}
	strip := func(t *ana.Term) *ana.Term {
		if t.Op == "obj" && len(t.Args) > 0 {
			return t.Args[0]
		}
		return t
	}
	if len(res) == 1 {
		if t := strip(res[0]); t.Op == "call" {
			return t
		}
		return nil
	}
	var call *ana.Term
	for i, r := range res {
		t := strip(r)
		if t.Op != "ext" || t.Idx != i || len(t.Args) != 1 {
			return nil
		}
		ct := strip(t.Args[0])
		if ct.Op != "call" || (call != nil && call.V != ct.V) {
			return nil
		}
		call = ct
	}
	return call
}

// vpasses: some frame of the virtual exit passes a matching gate.
func (c *Ctx) vpasses(v vexit, patterns ...string) bool {
	for _, f := range v.Frames {
		if c.passes(f.B, f.Blk, patterns...) {
			return true
		}
	}
	return false
}

// vrejectClosed: the exit is reachable only through a reject edge (in some frame).
func (c *Ctx) vrejectClosed(v vexit, patterns ...string) bool {
	for _, f := range v.Frames {
		if !ana.ReachableAvoiding(f.B.Fn, c.rejectEdges(f.B, patterns...))[f.Blk] {
			return true
		}
	}
	return false
}

// vpos is the source position of the innermost return.
func (c *Ctx) vpos(v vexit) string { return c.ipos(v.Instr) }

// tripCount returns the number of iterations of a counted loop from the
// canonical literal of its continue-edge: ind<+s>(a) < n, ind<-s>(a) >= 0
// (ana/canon.go shifts descending counters to a comparison with 0), and the
// `!=` forms with unit step. ok is false for any other shape.
func tripCount(lit *ana.Term) (int64, bool) {
	op, l, r, ok := ana.IsCmp(lit)
	if !ok || l.Op != "ind" || len(l.Args) != 1 {
		return 0, false
	}
	a, okA := l.Args[0].Int()
	k, okK := r.Int()
	if !okA || !okK || len(l.Name) < 2 {
		return 0, false
	}
	s, err := strconv.ParseInt(l.Name[1:], 10, 64)
	if err != nil || s <= 0 {
		return 0, false
	}
	up := l.Name[0] == '+'
	switch {
	case up && op == "<" && k >= a:
		return (k - a + s - 1) / s, true
	case !up && op == ">=" && a >= k:
		return (a-k)/s + 1, true
	case up && op == "!=" && s == 1 && k >= a:
		return k - a, true
	case !up && op == "!=" && s == 1 && a >= k:
		return a - k, true
	}
	return 0, false
}

// writesOutsideInit counts the stores (to the variable or any element / field
// of it) and possibly-mutating calls on package variable name made by
// functions of the package other than the package initialiser.
func (c *Ctx) writesOutsideInit(rel, name string) (int, *ssa.Global) {
	pk := c.P.Pkg(rel)
	if pk == nil {
		return -1, nil
	}
	g := c.gvar(rel, name)
	if g == nil {
		return -1, nil
	}
	n := 0
	for _, fn := range c.P.RepoFuncs(rel) {
		if fn.Pkg != pk || fn.Synthetic == "package initializer" {
			continue
		}
		b := ana.NewBuilder(c.P, fn)
		for _, blk := range fn.Blocks {
			for _, ins := range blk.Instrs {
				switch x := ins.(type) {
				case *ssa.Store:
					if globalRoot(b, x.Addr) == g {
						n++
					}
				case ssa.CallInstruction:
					cc := x.Common()
					for i, a := range cc.Args {
						if globalRoot(b, a) == g && b.MayMutateOperand(cc, i) {
							n++
						}
					}
				}
			}
		}
	}
	return n, g
}

// countEdgesDeep counts the edges establishing one of the facts in b's function
// and in the repository helpers it calls (one level, parameters bound to the
// arguments): a loop moved into a helper still has its loop condition.
func countEdgesDeep(c *Ctx, b *ana.Builder, patterns ...string) int {
	n := len(edgesMatching(b, patterns...))
	for _, ci := range ana.Calls(b.Fn) {
		h := ana.StaticRepoCallee(ci.Common())
		if h == nil || h == b.Fn {
			continue
		}
		call := b.CallTermAt(ci)
		if call.Op != "call" || len(call.Args) != len(h.Params) {
			continue
		}
		n += len(edgesMatching(boundBuilderP(c.P, call), patterns...))
	}
	return n
}

// deepCallTerms lists the terms of all calls made by b's function and, with
// parameters bound to the arguments, by the repository helpers it calls
// (two levels): a loop body moved into a helper makes the same calls with the same terms.
func deepCallTerms(c *Ctx, b *ana.Builder) []*ana.Term {
	var out []*ana.Term
	var rec func(b *ana.Builder, depth int)
	seen := map[*ssa.Function]bool{b.Fn: true}
	rec = func(b *ana.Builder, depth int) {
		for _, ci := range ana.Calls(b.Fn) {
			t := b.CallTermAt(ci)
			out = append(out, t)
			if depth >= 2 {
				continue
			}
			h := ana.StaticRepoCallee(ci.Common())
			if h == nil || seen[h] {
				continue
			}
			call := stripObj(t)
			if call.Op != "call" || len(call.Args) != len(h.Params) {
				continue
			}
			seen[h] = true
			rec(boundBuilderP(c.P, call), depth+1)
			delete(seen, h)
		}
	}
	rec(b, 0)
	return out
}

// scanGates lists the edges of b's function that establish "every element of
// a collection satisfies a predicate": the exit edge of a loop that loopOK
// accepts (it continues only while the predicate holds), or the edge on which a
// first-violation scanner H(x) — a repository helper whose own loop loopOK
// accepts with its parameters bound to the arguments, and which returns a
// negative value only after completing that loop — reported "none found"
// (H(x) < 0, H(x) == -1).
var scanDepth int

func uniqEdges(es []ana.Edge) []ana.Edge {
	var out []ana.Edge
	seen := map[ana.Edge]bool{}
	for _, e := range es {
		if !seen[e] {
			seen[e] = true
			out = append(out, e)
		}
	}
	return out
}

func scanGates(c *Ctx, b *ana.Builder, loopOK func(b2 *ana.Builder, l *rangeLoop) bool) []ana.Edge {
	var out []ana.Edge
	loops := rangeLoopsAll(b)
	for i := range loops {
		if loopOK(b, &loops[i]) {
			out = append(out, ana.Edge{From: loops[i].Header, To: loops[i].Exit})
		}
	}
	for _, ce := range b.CondEdges() {
		// a validator (error / bool result) all of whose successful exits passed such a gate inside it
		if o, isH := helperOutcome(ce.Lit); isH && (o.kind == "nil" || o.kind == "true") && scanDepth < 2 {
			hb := boundBuilderP(c.P, o.call)
			xs := exitsWith(hb, o)
			scanDepth++
			sub := scanGates(c, hb, loopOK)
			scanDepth--
			all := len(xs) > 0 && len(sub) > 0
			for _, x := range xs {
				all = all && exitMustPass(hb.Fn, x, sub)
			}
			if all {
				c.R.Fn(ana.ShortFunc(hb.Fn))
				out = append(out, ce.Edge)
				continue
			}
		}
		bd, ok := ana.MatchAny(ce.Lit, "raw:bin<<>($h, 0)", "raw:bin<==>($h, -1)")
		if !ok {
			continue
		}
		call := stripObj(bd["$h"])
		h := calleeOf(call)
		if call.Op != "call" || h == nil || h.Blocks == nil || !ana.InRepo(h) || len(call.Args) != len(h.Params) {
			continue
		}
		hb := boundBuilderP(c.P, call)
		var gate []ana.Edge
		hl := rangeLoopsAll(hb)
		for i := range hl {
			if loopOK(hb, &hl[i]) {
				gate = append(gate, ana.Edge{From: hl[i].Header, To: hl[i].Exit})
			}
		}
		if len(gate) == 0 {
			continue
		}
		good := true
		for _, e := range ana.Exits(h) {
			if e.Panic || len(e.Results) != 1 {
				good = false
				continue
			}
			v := hb.Of(e.Results[0], e.Instr)
			if k, isInt := v.Int(); isInt && k >= 0 {
				continue
			}
			if _, m := ana.MatchAny(v, "ind<+1>(0)", "ext#1(next(range(_)))", "bin<+>(ind<+1>(-1), 1)"); m {
				continue // a position: never negative
			}
			if !exitMustPass(h, e, gate) {
				good = false
			}
		}
		if good {
			c.R.Fn(ana.ShortFunc(h))
			out = append(out, ce.Edge)
		}
	}
	return out
}

// uniqueCallee resolves the routine whose result the literals of the edges
// test (the call in the literal's first operand, or the literal itself); ok is
// false when the edges test different routines — a wildcard gate pattern must
// not be satisfiable by a second, undecided routine.
func uniqueCallee(ces []ana.CondEdge) (*ssa.Function, bool) {
	var fn *ssa.Function
	ok := true
	for _, ce := range ces {
		lits := []*ana.Term{ce.Lit}
		if ce.Lit.Op == "and" || ce.Lit.Op == "or" {
			lits = ce.Lit.Args
		}
		for _, lit := range lits {
			h := calleeOf(lit)
			if h == nil && len(lit.Args) > 0 {
				h = calleeOf(lit.Arg(0))
			}
			if h == nil {
				continue
			}
			if fn != nil && fn != h {
				ok = false
			}
			fn = h
		}
	}
	return fn, ok
}

// calleeMatching finds in t the call term that itself has the shape pat and
// returns its callee; when t only has that shape after looking through a
// helper, the helper's result term is searched instead (three levels).
func (c *Ctx) calleeMatching(pat string, t *ana.Term) *ssa.Function {
	for depth := 0; depth < 3 && t != nil; depth++ {
		saved := ana.DefaultProg
		ana.DefaultProg = nil
		w, _ := ana.Find(pat, t)
		ana.DefaultProg = saved
		if w != nil {
			return calleeOf(w)
		}
		x, ch := ana.ExpandCalls(c.P, t)
		if !ch {
			return nil
		}
		t = x
	}
	return nil
}

// deepEdges lists the condition edges of b's function and, with parameters
// bound to the arguments, of the repository helpers it calls (two levels): a
// run of checks moved into a helper tests the same literals.
func deepEdges(c *Ctx, b *ana.Builder) []ana.CondEdge {
	var out []ana.CondEdge
	var rec func(b *ana.Builder, depth int)
	seen := map[*ssa.Function]bool{b.Fn: true}
	rec = func(b *ana.Builder, depth int) {
		out = append(out, b.CondEdges()...)
		if depth >= 2 {
			return
		}
		for _, ci := range ana.Calls(b.Fn) {
			h := ana.StaticRepoCallee(ci.Common())
			if h == nil || seen[h] || h.Blocks == nil {
				continue
			}
			call := stripObj(b.CallTermAt(ci))
			if call.Op != "call" || len(call.Args) != len(h.Params) {
				continue
			}
			seen[h] = true
			rec(boundBuilderP(c.P, call), depth+1)
			delete(seen, h)
		}
	}
	rec(b, 0)
	return out
}

// ---- unexported package-level variables the rules anchor on
//
// They are looked up by name; after a rename they are re-identified as the only
// unexported variable of their package with the recorded type (and, where the
// type is shared, the recorded shape of the initialiser). The pattern language
// is told about the new name (ana.GlobalRenames), so rule texts keep the pinned
// name. A missing anchor stays an unresolved anchor.
type gspec struct{ rel, name, typ, init string }

var anchoredGlobals = []gspec{
	{"pkg/bech32", "charset", "*" + ana.Module + "/pkg/bech32.encoding", ""},
	{"pkg/bech32", "gen", "[]int", ""},
	{"pkg/bip39", "wordList", ana.Module + "/pkg/bip39/wordlist.List", ""},
	{"pkg/bech32/address", "hrpStrings", "[4]string", ""},
	{"pkg/vrf", "nonCanonicalSignBytes", "[2][]byte", ""},
	{"pkg/vrf", "identityPoint", "*filippo.io/edwards25519.Point", "call<filippo.io/edwards25519.NewIdentityPoint>"},
	{"pkg/ed25519", "identity", "*filippo.io/edwards25519.Point", "call<filippo.io/edwards25519.NewIdentityPoint>"},
	{"pkg/pow/v2", "maxHash", "*math/big.Int", "repocall"},
	{"pkg/bip39", "wordLists", "map[string]func() " + ana.Module + "/pkg/bip39/wordlist.List", ""},
}

// resolveGlobals fills ana.GlobalRenames for the loaded program.
func resolveGlobals(c *Ctx) {
	ana.GlobalRenames = map[string]string{}
	for _, gs := range anchoredGlobals {
		pk := c.P.Pkg(gs.rel)
		if pk == nil {
			continue
		}
		if _, ok := pk.Members[gs.name].(*ssa.Global); ok {
			continue
		}
		var cands []*ssa.Global
		for _, m := range pk.Members {
			g, ok := m.(*ssa.Global)
			if !ok || token.IsExported(g.Name()) || strings.HasPrefix(g.Name(), "init$") {
				continue
			}
			if types.TypeString(g.Type().(*types.Pointer).Elem(), nil) != gs.typ {
				continue
			}
			if gs.init != "" {
				init, _, _ := c.globalInit(gs.rel, g.Name())
				if init == nil {
					continue
				}
				if gs.init == "repocall" { // initialised by a call of a repository function
					if h := calleeOf(init); init.Op != "call" || h == nil || !ana.InRepo(h) {
						continue
					}
				} else if !matches(gs.init, init) {
					continue
				}
			}
			cands = append(cands, g)
		}
		if len(cands) == 1 {
			full := ana.Module + "/" + gs.rel + "."
			ana.GlobalRenames[full+gs.name] = full + cands[0].Name()
			c.R.Assume("package variable " + gs.rel + "." + gs.name + " not found by name; re-identified by its type as " + cands[0].Name())
		}
	}
}

// gvar looks a package-level variable up by its pinned name or its resolved new name.
func (c *Ctx) gvar(rel, name string) *ssa.Global {
	pk := c.P.Pkg(rel)
	if pk == nil {
		return nil
	}
	if g, ok := pk.Members[name].(*ssa.Global); ok {
		return g
	}
	full := ana.Module + "/" + rel + "."
	if nn, ok := ana.GlobalRenames[full+name]; ok {
		g, _ := pk.Members[strings.TrimPrefix(nn, full)].(*ssa.Global)
		return g
	}
	return nil
}

// ResolveAnchors prepares the name-independent anchors for a freshly loaded program.
func ResolveAnchors(c *Ctx) {
	ana.GlobalRenames = map[string]string{}
	ana.ResetPatterns()
	resolveGlobals(c)
	ana.ResetPatterns()
}
