package props

import (
	"go/types"
	"strings"

	"golang.org/x/tools/go/ssa"

	"verif/checker/internal/ana"
)

// C02 — SLIP-0010 derivation matches the specification on all three curves.

func init() {
	register(&Prop{
		ID:    "C02",
		Level: "other",
		Explanation: "Static decision of the SLIP-0010 mechanism: HMAC key and data layout of the master loop and of the three CKD inputs (hardened 0x00‖ser256(k)‖ser32(i), normal serP(K)‖ser32(i), retry 0x01‖I_R‖ser32(i)) as provenance terms, I_L/I_R split, " +
			"the retry back edges (taken only when errors.Is(err, ErrInvalidKey); every other error reaches an error return), the hardened-public reject before any HMAC, scalar validity and additive shift of the elliptic keys, fingerprint term, field-exhaustive Public(), the ed25519 key types, " +
			"and the per-implementation outcome rule: a private key type whose public type cannot derive must refuse non-hardened indices through the IndexValidator gate (checked on the dynamic type actually handed out). HMAC/curve outputs are library semantics.",
		Run: runC02,
	})
}

const slipPkg = "repo/pkg/slip10."

func runC02(c *Ctx) {
	r := c.R
	r.Rule("C02.master-hmac", "I = HMAC-SHA512(key = curve.HmacKey(), data = S), S = seed on entry and I on retry; key = curve.NewPrivateKey(I[0:32]); chain code = I[32:64]; parent nil")
	r.Rule("C02.retry-edge", "every CFG back edge of NewMasterKey / DeriveChild is taken only under errors.Is(err, ErrInvalidKey) of the NewPrivateKey / Shift call; a non-nil other error reaches an error return that wraps it; success requires err == nil")
	r.Rule("C02.ckd-data", "HMAC key e.ChainCode; hardened data [0x00], e.Key.Bytes(), BE32(index) under index >= 2^31; normal data e.Key.Public().Bytes(), BE32(index); retry data [0x01], I[32:], BE32(index); child = e.Key.Shift(I[0:32]); chain = I[32:]; parent = e.Key")
	r.Rule("C02.hardened-pub", "ErrHardenedChildPublicKey is returned under index >= 2^31 and !IsPrivate, before any HMAC")
	r.Rule("C02.scalar-validity", "elliptic NewPrivateKey rejects exactly Sign()==0 or Cmp(N)>=0 with ErrInvalidKey; PrivateKey.Shift rejects exactly IL>=N or (IL+K) mod N == 0; result (IL+K) mod N; the receiver's K is never the receiver of a mutating big.Int call")
	r.Rule("C02.fingerprint", "nil parent -> 4 zero bytes; else RIPEMD160(SHA256(parent.Public().Bytes()))[0:4]")
	r.Rule("C02.public-copy", "ExtendedKey.Public() carries every field of ExtendedKey (Key replaced by Key.Public())")
	r.Rule("C02.eddsa-keys", "ed25519 curve: NewPrivateKey copies the 32 bytes and never fails; PublicKey.Bytes = 33 bytes with the key right-aligned; Seed.Public = NewKeyFromSeed(s).Public()")
	r.Rule("C02.nonhardened-outcome", "for each private Key type whose public type's Shift always fails permanently, the dynamic type handed out implements IndexValidator, its ValidateIndex fails for index < 2^31, and DeriveChild consults it before anything else")
	r.Rule("C02.constants", "HMAC keys \"Bitcoin seed\", \"Nist256p1 seed\", \"ed25519 seed\"; Hardened = 1<<31; sizes 4/32/32/33")
	r.Assume("crypto/hmac, crypto/sha512, x/crypto/ripemd160, math/big, crypto/elliptic as documented")
	r.NotDec("output bytes of HMAC and curve arithmetic")

	pureScan(c, "C02.pure.no-package-state", c.P.Func("pkg/slip10", "DeriveKeyFromPath"), c.P.Func("pkg/slip10", "ExtendedKey.Public"), c.P.Func("pkg/slip10", "ExtendedKey.Fingerprint"), c.P.Func("pkg/slip10/elliptic", "Curve.NewPrivateKey"), c.P.Func("pkg/slip10/elliptic", "PrivateKey.Shift"), c.P.Func("pkg/slip10/elliptic", "PublicKey.Shift"), c.P.Func("pkg/slip10/elliptic", "PrivateKey.Public"), c.P.Func("pkg/slip10/elliptic", "PrivateKey.Bytes"), c.P.Func("pkg/slip10/elliptic", "PublicKey.Bytes"), c.P.Func("pkg/slip10/eddsa", "Seed.Public"), c.P.Func("pkg/slip10/eddsa", "Seed.Shift"), c.P.Func("pkg/slip10/eddsa", "ed25519Curve.NewPrivateKey"))
	c02Master(c)
	c02Derive(c)
	c02Elliptic(c)
	c02Misc(c)
	c02Eddsa(c)
	// the public half of the derivation and the curve it is wired to: a child derived from an extended public key must be
	// the public key of the privately derived child, and both go through the secp256k1 implementation of
	// elliptic/internal/btccurve (ScalarBaseMult / Add) — C08's obligations, C17's on that copy included, are part of
	// "derivation on all three curves" (round-8 seed C02-r8-2: a ScalarMult that assumes a minimal-length scalar)
	reKey(c, "C08.", "C02.public-derivation.", func() { runC08(c) })
}

// hmacHelper checks the private HMAC helper: hmac.New(sha512.New, key), every data part written in order, write errors propagated.
func c02HmacHelper(c *Ctx, h *ssa.Function, px string) {
	r := c.R
	if h == nil {
		r.Undec(px+".hmac-helper", "", "HMAC helper not resolved")
		return
	}
	r.Fn(ana.ShortFunc(h))
	hb := ana.NewBuilder(c.P, h)
	okRet := false
	for _, e := range ana.Exits(h) {
		if e.Panic {
			r.Viol(px+".hmac-helper", c.ipos(e.Instr), "panic in the HMAC helper")
			continue
		}
		et := hb.Of(e.Results[1], e.Instr)
		vt := hb.Of(e.Results[0], e.Instr)
		if et.Is("nil") {
			_, ok := ana.Match("obj(call<crypto/hmac.New>(func<crypto/sha512.New>, p0), maybe(call<(hash.Hash).Write>(self, load(iaddr(p1, bin<+>(ind<+1>(-1), 1))))))", vt)
			okRet = ok
			if !ok {
				r.Viol(px+".hmac-helper", c.ipos(e.Instr), "helper does not return hmac.New(sha512.New, key) with every data part written in order: %s", short(vt.String(), 300))
			}
		}
	}
	whole := false
	for _, l := range rangeLoops(hb) {
		if l.Coll.IsParam(1) {
			whole = true
		}
	}
	r.Check(okRet && whole, px+".hmac-helper", c.P.Pos(h.Pos()), "HMAC helper = HMAC-SHA512 keyed with its first argument over the concatenation of all data parts, in order")
}

func c02Master(c *Ctx) {
	r := c.R
	f := c.fn("pkg/slip10", "NewMasterKey")
	if f == nil {
		return
	}
	fn := f.Function
	b := ana.NewBuilder(c.P, fn)
	npk := ana.CallsTo(fn, "(github.com/wollac/iota-crypto-demo/pkg/slip10.Curve).NewPrivateKey")
	if len(npk) != 1 {
		r.Undec("C02.master-hmac.anchor", c.P.Pos(fn.Pos()), "expected exactly one curve.NewPrivateKey call, found %d", len(npk))
		return
	}
	ct := b.CallTermAt(npk[0])
	// I = HMAC-SHA512(key = curve.HmacKey(), data = S): the keyed hash with S written, then Sum — whether the private
	// helper hands back the hash object or the digest (the matcher looks through it, unrolling its loop over the parts)
	pat := "call<*>(p1, slice(call<(hash.Hash).Sum>(obj(call<crypto/hmac.New>(func<crypto/sha512.New>, call<(" + slipPkg + "Curve).HmacKey>(p1)), call<(hash.Hash).Write>(self, $S)), _), 0, 32))"
	bd, ok := ana.MatchX(c.P, pat, ct)
	if !ok {
		r.Viol("C02.master-hmac.key-input", c.ipos(npk[0]), "NewPrivateKey argument is not HMAC(curve.HmacKey(), [S]).Sum(..)[0:32]: %s", ana.Explain(pat, ct))
		return
	}
	r.OK("C02.master-hmac.key-input", c.ipos(npk[0]), "key = curve.NewPrivateKey(I[0:32]), I = HMAC-SHA512(curve.HmacKey(), S)")
	r.OK("C02.master-hmac.hmac-helper", c.ipos(npk[0]), "HMAC = hmac.New(sha512.New, key) with the single data part written, then Sum (decided on the expanded term of this call site)")
	// the value used for I
	sumT := ct.Arg(1).Arg(0)
	sumCall := sumT.V
	// S = phi(seed, I)
	sOK := false
	if phi, isPhi := bd["$S"].V.(*ssa.Phi); isPhi && sumCall != nil {
		seenSeed, seenI, other := false, false, false
		for _, e := range phi.Edges {
			switch {
			case e == ssa.Value(fn.Params[0]):
				seenSeed = true
			case b.Root(e) == sumCall || e == sumCall:
				seenI = true
			default:
				other = true
			}
		}
		sOK = seenSeed && seenI && !other
	}
	r.Check(sOK, "C02.master-hmac.retry-input", c.ipos(npk[0]), "HMAC data S is the seed on entry and the previous I on retry (S ← I)")
	// returned struct
	for _, e := range ana.Exits(fn) {
		if e.Panic {
			r.Viol("C02.master-hmac.no-panic", c.ipos(e.Instr), "panic in NewMasterKey")
			continue
		}
		if !b.Of(e.Results[1], e.Instr).Is("nil") {
			continue
		}
		vt := b.Of(e.Results[0], e.Instr)
		cc, _ := ana.Find("store(faddr<ChainCode>(self), slice($I, 32, $hi))", vt)
		kk, _ := ana.Find("store(faddr<Key>(self), ext#0($call))", vt)
		pp, _ := ana.Find("store(faddr<#2>(self), $p)", vt)
		okC := cc != nil && (b.Root(cc.Arg(1).Arg(0).V) == sumCall || cc.Arg(1).Arg(0).V == sumCall) && (cc.Arg(1).Arg(2).Is("none") || cc.Arg(1).Arg(2).IsInt(64))
		okK := kk != nil && kk.Arg(1).Arg(0).V == npk[0].Value()
		okP := pp == nil || pp.Arg(1).Is("nil")
		r.Check(okC && okK && okP, "C02.master-hmac.result", c.ipos(e.Instr), "master = {ChainCode: I[32:], Key: the NewPrivateKey result, parent: nil} (chain=%v key=%v parent=%v)", okC, okK, okP)
	}
	c02RetryEdges(c, fn, b, npk[0], "NewMasterKey")
}

// c02RetryEdges: back edges only under errors.Is(err, ErrInvalidKey); other errors returned; success needs err == nil.
func c02RetryEdges(c *Ctx, fn *ssa.Function, b *ana.Builder, call ssa.CallInstruction, name string) {
	r := c.R
	var errVal ssa.Value
	for _, ref := range *call.Value().Referrers() {
		if ex, ok := ref.(*ssa.Extract); ok && ex.Index == 1 {
			errVal = ex
		}
	}
	if errVal == nil {
		r.Undec("C02.retry-edge."+name, c.ipos(call), "error result of the key call is not used")
		return
	}
	et := b.Of(errVal, nil).String()
	retry := plainEdges(edgesMatching(b, "call<errors.Is>("+et+", load(global<"+slipPkg+"ErrInvalidKey>))", "bin<==>("+et+", load(global<"+slipPkg+"ErrInvalidKey>))"))
	backs := ana.BackEdges(fn)
	r.Floor("C02.floor.back-edges."+name, len(backs), 1, "CFG back edges (the retry loop)")
	for _, be := range backs {
		// range loops inside helpers are not in this function; every back edge here is the goto retry
		r.Check(len(retry) > 0 && edgeMustPass(fn, be, retry), "C02.retry-edge."+name+".only-invalid-key", c.ipos(call), "retry back edge b%d→b%d is taken only when errors.Is(err, ErrInvalidKey) holds for the key call's error", be.From.Index, be.To.Index)
	}
	okNil := plainEdges(edgesMatching(b, "bin<==>("+et+", nil)"))
	notNil := plainEdges(edgesMatching(b, "bin<!=>("+et+", nil)"))
	propagated := false
	for _, e := range ana.Exits(fn) {
		if e.Panic {
			continue
		}
		errT := b.Of(e.Results[1], e.Instr)
		if errT.Is("nil") {
			r.Check(exitMustPass(fn, e, okNil), "C02.retry-edge."+name+".success-needs-nil", c.ipos(e.Instr), "success return only when the key call's error is nil")
			continue
		}
		if w, _ := ana.Find(et, errT); w != nil && exitMustPass(fn, e, notNil) {
			propagated = true
		}
	}
	r.Check(propagated, "C02.retry-edge."+name+".other-errors-returned", c.ipos(call), "a non-nil error other than ErrInvalidKey reaches a return that carries it")
}

func c02Derive(c *Ctx) {
	r := c.R
	f := c.fn("pkg/slip10", "ExtendedKey.DeriveChild")
	if f == nil {
		return
	}
	fn := f.Function
	b := ana.NewBuilder(c.P, fn)
	key := "load(faddr<Key>(p0))"
	chain := "load(faddr<ChainCode>(p0))"
	// BE32(index): through the serialisation helper, or the four big-endian bytes written in place
	idx := "alt(call<*>(p1), slice(obj(alloc<[4]byte>, call<(encoding/binary.bigEndian).PutUint32>(load(global<encoding/binary.BigEndian>), slice(self, 0, alt(4, none)), p1)), 0, alt(4, none)), obj(makeslice<[]byte>(4, 4), call<(encoding/binary.bigEndian).PutUint32>(load(global<encoding/binary.BigEndian>), self, p1)))"
	be32Inline := false
	// the keyed hash object after writing the data parts in order, and its digest; the private HMAC helper is looked
	// through by the matcher (parameters bound to the arguments, the loop over the variadic parts unrolled), so it may
	// return the hash object or the finished digest and take its arguments in any order
	ho := func(parts ...string) string {
		t := "obj(call<crypto/hmac.New>(func<crypto/sha512.New>, " + chain + ")"
		for _, p := range parts {
			t += ", call<(hash.Hash).Write>(self, " + p + ")"
		}
		return t + ")"
	}
	one := func(v string) string { return "slice(obj(alloc<[1]byte>, store(iaddr(self, 0), " + v + ")), 0, none)" }
	layouts := map[string]string{
		"hardened": ho(one("0"), "call<("+slipPkg+"Key).Bytes>("+key+")", idx),
		"normal":   ho("call<("+slipPkg+"Key).Bytes>(call<("+slipPkg+"Key).Public>("+key+"))", idx),
		"retry":    ho(one("1"), "slice($I, 32, $hi)", idx),
	}
	classify := func(t *ana.Term) (string, ana.Binds) { // which layout the digest / hash-object term t has
		for _, name := range []string{"hardened", "normal", "retry"} {
			if bd, ok := ana.MatchX(c.P, "call<(hash.Hash).Sum>("+layouts[name]+", _)", t); ok {
				return name, bd
			}
			if bd, ok := ana.MatchX(c.P, layouts[name], t); ok {
				return name, bd
			}
		}
		return "", nil
	}

	var be32Fn *ssa.Function
	var hmacSites []ssa.CallInstruction
	site := map[string]ssa.CallInstruction{}
	retryI := map[string]*ana.Term{}
	// a site is an HMAC call in DeriveChild, or in a helper DeriveChild calls on the receiver (the first HMAC and its
	// branch moved out): then it is analysed with the helper's parameters bound to the arguments, and `outer` is the
	// helper call in DeriveChild through which it is reached
	siteB := map[ssa.CallInstruction]*ana.Builder{}
	siteOuter := map[ssa.CallInstruction]ssa.CallInstruction{}
	type cand struct {
		ci    ssa.CallInstruction
		b     *ana.Builder
		outer ssa.CallInstruction
	}
	var cands []cand
	for _, ci := range ana.Calls(fn) {
		cands = append(cands, cand{ci, b, nil})
	}
	for _, ci := range ana.Calls(fn) {
		cal := ana.StaticRepoCallee(ci.Common())
		if cal == nil || cal == fn || cal.Blocks == nil || cal.Pkg != fn.Pkg {
			continue
		}
		call := stripObj(b.CallTermAt(ci))
		if call == nil || call.Op != "call" || len(call.Args) != len(cal.Params) || len(call.Args) == 0 || !call.Args[0].IsParam(0) {
			continue
		}
		hb := c.boundBuilder(call)
		for _, cj := range ana.Calls(cal) {
			cands = append(cands, cand{cj, hb, ci})
		}
	}
	for _, cd := range cands {
		ci := cd.ci
		cal := ana.StaticRepoCallee(ci.Common())
		if cal == nil {
			continue
		}
		t := cd.b.CallTermAt(ci)
		keyed := false
		for _, a := range t.Args {
			if strings.HasPrefix(a.String(), "load(faddr<ChainCode>") {
				keyed = true
			}
		}
		if !keyed {
			if len(t.Args) == 1 && t.Arg(0).IsParam(1) && be32Fn == nil {
				be32Fn = cal // the index serialisation, wherever it is computed
			}
			continue
		}
		hmacSites = append(hmacSites, ci)
		siteB[ci], siteOuter[ci] = cd.b, cd.outer
		name, bd := classify(&ana.Term{Op: "ext", Idx: 0, V: nil, Args: []*ana.Term{t}})
		if name == "" {
			r.Viol("C02.ckd-data.layout", c.ipos(ci), "HMAC input is none of the three SLIP-0010 layouts: %s", short(t.String(), 500))
			continue
		}
		site[name] = ci
		if name == "retry" {
			retryI["$I"] = bd["$I"]
		}
	}
	for _, ci := range ana.CallsTo(fn, "(encoding/binary.bigEndian).PutUint32") {
		if be32Fn == nil && b.CallTermAt(ci).Arg(2).IsParam(1) {
			be32Inline = true
		}
	}
	hardCall, normCall, retryCall := site["hardened"], site["normal"], site["retry"]
	r.Floor("C02.floor.hmac-sites", len(hmacSites), 3, "HMAC call sites in DeriveChild")
	r.Check(hardCall != nil, "C02.ckd-data.hardened", c.P.Pos(fn.Pos()), "hardened input = [0x00] ‖ e.Key.Bytes() ‖ BE32(index), keyed with e.ChainCode")
	r.Check(normCall != nil, "C02.ckd-data.normal", c.P.Pos(fn.Pos()), "normal input = e.Key.Public().Bytes() ‖ BE32(index), keyed with e.ChainCode")
	r.Check(retryCall != nil, "C02.ckd-data.retry", c.P.Pos(fn.Pos()), "retry input = [0x01] ‖ I[32:] ‖ BE32(index), keyed with e.ChainCode")
	r.Check(hardCall != nil && normCall != nil && retryCall != nil, "C02.ckd-data.hmac-helper", c.P.Pos(fn.Pos()), "each HMAC = hmac.New(sha512.New, e.ChainCode) with every data part written in order (decided on the expanded term of each call site)")
	// BE32 helper
	if be32Fn != nil {
		r.Fn(ana.ShortFunc(be32Fn))
		hb := ana.NewBuilder(c.P, be32Fn)
		for _, e := range ana.Exits(be32Fn) {
			if e.Panic {
				continue
			}
			t := hb.Of(e.Results[0], e.Instr)
			_, ok := ana.MatchAny(t, "slice(obj(alloc<[4]byte>, call<(encoding/binary.bigEndian).PutUint32>(load(global<encoding/binary.BigEndian>), slice(self, 0, alt(4, none)), p0)), 0, alt(4, none))",
				"obj(makeslice<[]byte>(4, 4), call<(encoding/binary.bigEndian).PutUint32>(load(global<encoding/binary.BigEndian>), self, p0))",
				// the same four bytes written by hand, most significant first
				"slice(obj(alloc<[4]byte>, store(iaddr(self, 0), conv<byte>(bin<>>>(p0, 24))), store(iaddr(self, 1), conv<byte>(bin<>>>(p0, 16))), store(iaddr(self, 2), conv<byte>(bin<>>>(p0, 8))), store(iaddr(self, 3), conv<byte>(p0))), 0, alt(none, 4))",
				"obj(makeslice<[]byte>(4, 4), store(iaddr(self, 0), conv<byte>(bin<>>>(p0, 24))), store(iaddr(self, 1), conv<byte>(bin<>>>(p0, 16))), store(iaddr(self, 2), conv<byte>(bin<>>>(p0, 8))), store(iaddr(self, 3), conv<byte>(p0)))")
			r.Check(ok, "C02.ckd-data.ser32", c.ipos(e.Instr), "ser32(i) = 4 bytes, big endian: %s", short(t.String(), 200))
		}
	} else if be32Inline {
		r.OK("C02.ckd-data.ser32", c.P.Pos(fn.Pos()), "ser32(i) = 4 bytes, big endian, written in place by binary.BigEndian.PutUint32")
	} else {
		r.Undec("C02.ckd-data.ser32", c.P.Pos(fn.Pos()), "index serialisation helper not found")
	}
	// branch structure
	hardE := plainEdges(edgesMatching(b, "bin<>=>(p1, 2147483648)"))
	_ = "bin<<>(p1, 2147483648)" // the complement, used through under()
	// under: the site is reached only past an edge matching one of the patterns — in the routine it sits in, or (for a
	// site in a helper) on the way to the helper call in DeriveChild
	under := func(ci ssa.CallInstruction, pats ...string) bool {
		if mustPass(ci.Parent(), ci.Block(), plainEdges(edgesMatching(siteB[ci], pats...))) {
			return true
		}
		if o := siteOuter[ci]; o != nil {
			return mustPass(fn, o.Block(), plainEdges(edgesMatching(b, pats...)))
		}
		return false
	}
	anchor := func(ci ssa.CallInstruction) ssa.CallInstruction {
		if o := siteOuter[ci]; o != nil {
			return o
		}
		return ci
	}
	if hardCall != nil {
		r.Check(under(hardCall, "bin<>=>(p1, 2147483648)"), "C02.ckd-data.hardened-branch", c.ipos(hardCall), "hardened layout only under index >= 2^31")
	}
	if normCall != nil {
		r.Check(under(normCall, "bin<<>(p1, 2147483648)"), "C02.ckd-data.normal-branch", c.ipos(normCall), "normal layout only under index < 2^31")
	}
	// Shift call, I phi
	shifts := ana.CallsTo(fn, "(github.com/wollac/iota-crypto-demo/pkg/slip10.Key).Shift")
	if len(shifts) != 1 {
		r.Undec("C02.ckd-data.shift", c.P.Pos(fn.Pos()), "expected one e.Key.Shift call, found %d", len(shifts))
		return
	}
	st := b.CallTermAt(shifts[0])
	sb, ok := ana.Match("call<*>("+key+", slice($I, 0, 32))", st)
	iOK := false
	var iVal ssa.Value
	if ok {
		iVal = sb["$I"].V
		if phi, isPhi := iVal.(*ssa.Phi); isPhi {
			iOK = true
			srcs := map[ssa.CallInstruction]bool{}
			// the merge may be one phi or a chain of phis (goto form / for-loop form): take the non-phi leaves
			phiLeaves := func(p *ssa.Phi) []ssa.Value {
				var out []ssa.Value
				seen := map[*ssa.Phi]bool{}
				var walk func(p *ssa.Phi)
				walk = func(p *ssa.Phi) {
					if seen[p] {
						return
					}
					seen[p] = true
					for _, e := range p.Edges {
						if q, isQ := e.(*ssa.Phi); isQ {
							walk(q)
						} else {
							out = append(out, e)
						}
					}
				}
				walk(p)
				return out
			}
			var leaves []ssa.Value
			for _, e := range phiLeaves(phi) {
				// one Sum shared by several HMACs (`h` assigned in both branches, summed once after them): the leaf stands for
				// each hash object its receiver may be
				if call, isCall := e.(*ssa.Call); isCall && call.Call.IsInvoke() && call.Call.Method.Name() == "Sum" {
					if rp, isPhi := call.Call.Value.(*ssa.Phi); isPhi {
						leaves = append(leaves, phiLeaves(rp)...)
						continue
					}
				}
				leaves = append(leaves, e)
			}
			for _, e := range leaves {
				// a leaf that is the result of a helper holding sites: every successful exit of the helper returns the digest of
				// one of its sites
				viaHelper := false
				for _, o := range siteOuter {
					cv := ssa.Value(nil)
					if o != nil {
						cv = o.Value()
					}
					if cv == nil || !(cv == e || derivesFrom(e, cv)) || viaHelper {
						continue
					}
					viaHelper = true
					h := ana.StaticRepoCallee(o.Common())
					var hb *ana.Builder
					for ci2, o2 := range siteOuter {
						if o2 == o {
							hb = siteB[ci2]
						}
					}
					for _, x := range ana.Exits(h) {
						if x.Panic || hb == nil {
							continue
						}
						if len(x.Results) != 2 || !hb.Of(x.Results[1], x.Instr).Is("nil") {
							continue // a failing exit (or a shape this rule does not know: then no source is recorded)
						}
						// (one Sum shared by the branch HMACs stands for each hash object it may be summing)
						vals := []ssa.Value{x.Results[0]}
						if call, isCall := x.Results[0].(*ssa.Call); isCall && call.Call.IsInvoke() && call.Call.Method.Name() == "Sum" {
							if rp, isPhi := call.Call.Value.(*ssa.Phi); isPhi {
								vals = phiLeaves(rp)
							}
						}
						for _, rv := range vals {
							name, _ := classify(hb.Of(rv, x.Instr))
							var from ssa.CallInstruction
							for ci2, o2 := range siteOuter {
								if o2 == o {
									if v2 := ci2.Value(); v2 != nil && (ssa.Value(v2) == rv || derivesFrom(rv, v2)) {
										from = ci2
									}
								}
							}
							if name == "" || from == nil || site[name] != from {
								iOK = false
								continue
							}
							srcs[from] = true
						}
					}
				}
				if viaHelper {
					continue
				}
				// each way I is computed is the digest of one of the three HMACs made above
				name, _ := classify(b.Of(e, shifts[0]))
				if name == "" {
					iOK = false
					continue
				}
				// … and belongs to that call site: the leaf is (derived from) the result of the site's call
				var from ssa.CallInstruction
				for _, ci := range hmacSites {
					if cv := ci.Value(); cv != nil && (ssa.Value(cv) == e || derivesFrom(e, cv)) {
						from = ci
					}
				}
				if from == nil || site[name] != from {
					iOK = false
					continue
				}
				srcs[from] = true
			}
			iOK = iOK && hardCall != nil && normCall != nil && retryCall != nil && srcs[hardCall] && srcs[normCall] && srcs[retryCall] && len(srcs) == 3
		}
	}
	r.Check(ok && iOK, "C02.ckd-data.shift", c.ipos(shifts[0]), "child = e.Key.Shift(I[0:32]) where I is the Sum of exactly the hardened, normal or retry HMAC")
	if retryCall != nil && iVal != nil {
		rI := retryI["$I"]
		r.Check(rI != nil && rI.V == iVal, "C02.ckd-data.retry-uses-IR", c.ipos(retryCall), "the retry hashes I_R of the same I whose I_L was rejected")
	}
	for _, e := range ana.Exits(fn) {
		if e.Panic {
			r.Viol("C02.ckd-data.no-panic", c.ipos(e.Instr), "panic in DeriveChild")
			continue
		}
		if !b.Of(e.Results[1], e.Instr).Is("nil") {
			continue
		}
		vt := b.Of(e.Results[0], e.Instr)
		cc, _ := ana.Find("store(faddr<ChainCode>(self), slice($I, 32, $hi))", vt)
		kk, _ := ana.Find("store(faddr<Key>(self), ext#0($call))", vt)
		pp, _ := ana.Find("store(faddr<#2>(self), "+key+")", vt)
		r.Check(cc != nil && cc.Arg(1).Arg(0).V == iVal && kk != nil && kk.Arg(1).Arg(0).V == shifts[0].Value() && pp != nil, "C02.ckd-data.result", c.ipos(e.Instr), "child = {ChainCode: I[32:], Key: Shift result, parent: e.Key}")
	}
	c02RetryEdges(c, fn, b, shifts[0], "DeriveChild")

	// hardened public
	hp := false
	for _, e := range ana.Exits(fn) {
		if e.Panic {
			continue
		}
		if _, ok := ana.Match("load(global<"+slipPkg+"ErrHardenedChildPublicKey>)", b.Of(e.Results[1], e.Instr)); ok {
			np := plainEdges(edgesMatching(b, "un<!>(call<(*"+slipPkg+"ExtendedKey).IsPrivate>(p0))"))
			noHmacBefore := true
			for _, ci := range hmacSites {
				if ana.InstrDominates(anchor(ci), e.Instr) {
					noHmacBefore = false
				}
			}
			hp = exitMustPass(fn, e, hardE) && exitMustPass(fn, e, np) && noHmacBefore
		}
	}
	if !hp {
		// the rejection made by the helper that holds the first HMAC, its error handed on by DeriveChild
		seenOuter := map[ssa.CallInstruction]bool{}
		for ci, o := range siteOuter {
			if o == nil || seenOuter[o] {
				continue
			}
			seenOuter[o] = true
			h, hb := ana.StaticRepoCallee(o.Common()), siteB[ci]
			okRej := false
			for _, x := range ana.Exits(h) {
				if x.Panic || len(x.Results) != 2 {
					continue
				}
				if _, ok := ana.Match("load(global<"+slipPkg+"ErrHardenedChildPublicKey>)", hb.Of(x.Results[1], x.Instr)); ok {
					hardH := plainEdges(edgesMatching(hb, "bin<>=>(p1, 2147483648)"))
					npH := plainEdges(edgesMatching(hb, "un<!>(call<(*"+slipPkg+"ExtendedKey).IsPrivate>(p0))"))
					before := true
					for ci2, o2 := range siteOuter {
						if o2 == o && ana.InstrDominates(ci2, x.Instr) {
							before = false
						}
						if o2 == nil && ana.InstrDominates(ci2, o) {
							before = false
						}
					}
					okRej = exitMustPass(h, x, hardH) && exitMustPass(h, x, npH) && before
				}
			}
			// DeriveChild returns the helper's error on the helper's failure edge
			handed := false
			for _, e := range ana.Exits(fn) {
				if e.Panic {
					continue
				}
				et := b.Of(e.Results[1], e.Instr)
				if et.Op == "ext" && stripObj(et.Arg(0)).V == o.Value() && o.Value() != nil {
					handed = handed || exitMustPass(fn, e, plainEdges(edgesMatching(b, "raw:bin<!=>("+termPat(et)+", nil)")))
				}
			}
			hp = hp || okRej && handed
		}
	}
	r.Check(hp, "C02.hardened-pub.reject", c.P.Pos(fn.Pos()), "ErrHardenedChildPublicKey under index >= 2^31 ∧ !IsPrivate, before any HMAC")
	if hardCall != nil {
		priv := plainEdges(edgesMatching(b, "call<(*"+slipPkg+"ExtendedKey).IsPrivate>(p0)"))
		_ = priv
		r.Check(under(hardCall, "call<(*"+slipPkg+"ExtendedKey).IsPrivate>(p0)"), "C02.hardened-pub.private-only", c.ipos(hardCall), "the hardened layout (which serialises the private key) is used only for private parents")
	}
	if ip := c.P.Func("pkg/slip10", "ExtendedKey.IsPrivate"); ip != nil {
		ib := ana.NewBuilder(c.P, ip)
		for _, e := range ana.Exits(ip) {
			if !e.Panic {
				_, ok := ana.Match("call<("+slipPkg+"Key).IsPrivate>(load(faddr<Key>(p0)))", ib.Of(e.Results[0], e.Instr))
				r.Check(ok, "C02.hardened-pub.isprivate", c.ipos(e.Instr), "ExtendedKey.IsPrivate delegates to the key")
			}
		}
	}

	// IndexValidator gate first
	vEdges := edgesMatching(b, "bin<==>(call<("+slipPkg+"IndexValidator).ValidateIndex>(ext#0(assert<"+slipPkg+"IndexValidator>("+key+")), p1), nil)")
	assertOK := edgesMatching(b, "ext#1(assert<"+slipPkg+"IndexValidator>("+key+"))")
	assertNo := edgesMatching(b, "un<!>(ext#1(assert<"+slipPkg+"IndexValidator>("+key+")))")
	gate := append(plainEdges(vEdges), plainEdges(assertNo)...)
	okGate := len(vEdges) == 1 && len(assertOK) == 1
	for _, ci := range ana.Calls(fn) {
		n := ana.CalleeName(ci.Common())
		isOuter := false
		for _, o := range siteOuter {
			if o != nil && o == ci {
				isOuter = true
			}
		}
		if isHmacSite(hmacSites, ci) || isOuter || strings.HasSuffix(n, "Key).Shift") {
			if !mustPass(fn, ci.Block(), gate) {
				okGate = false
			}
		}
	}
	r.Check(okGate, "C02.nonhardened-outcome.gate-first", c.P.Pos(fn.Pos()), "DeriveChild consults e.Key's IndexValidator (if implemented) and returns its error before any HMAC or Shift")
	c02Outcome(c)
}

// freshAppendCopy: v is append(make([]byte, 0, …), p1...) — the bytes of p1 appended to a fresh empty slice, a copy.
func freshAppendCopy(b *ana.Builder, v ssa.Value, t *ana.Term) bool {
	if t == nil || t.String() != "concat(p1)" {
		return false
	}
	for {
		switch x := v.(type) {
		case *ssa.MakeInterface:
			v = x.X
			continue
		case *ssa.ChangeType:
			v = x.X
			continue
		}
		break
	}
	call, ok := v.(*ssa.Call)
	if !ok || ana.CalleeName(&call.Call) != "builtin.append" || len(call.Call.Args) != 2 {
		return false
	}
	switch b.Root(call.Call.Args[0]).(type) {
	case *ssa.MakeSlice, *ssa.Alloc:
		return true // the destination's backing array is allocated here; p1 cannot alias it
	}
	return false
}

func isHmacSite(sites []ssa.CallInstruction, ci ssa.CallInstruction) bool {
	for _, x := range sites {
		if x == ci {
			return true
		}
	}
	return false
}

// derivesFrom: v is computed from the result of call (an extracted result, or a method call on / with one).
func derivesFrom(v ssa.Value, call ssa.Value) bool {
	seen := map[ssa.Value]bool{}
	var rec func(x ssa.Value, d int) bool
	rec = func(x ssa.Value, d int) bool {
		if x == call {
			return true
		}
		if d > 6 || seen[x] {
			return false
		}
		seen[x] = true
		switch y := x.(type) {
		case *ssa.Extract:
			return rec(y.Tuple, d+1)
		case *ssa.Call:
			if y.Call.IsInvoke() && rec(y.Call.Value, d+1) {
				return true
			}
			for _, a := range y.Call.Args {
				if rec(a, d+1) {
					return true
				}
			}
		case *ssa.Slice:
			return rec(y.X, d+1)
		case *ssa.ChangeType:
			return rec(y.X, d+1)
		}
		return false
	}
	return rec(v, 0)
}

func matches(p string, t *ana.Term) bool { _, ok := ana.Match(p, t); return ok }

// c02Outcome: per concrete private key type.
func c02Outcome(c *Ctx) {
	r := c.R
	sp := c.P.Pkg("pkg/slip10")
	keyI, _ := sp.Pkg.Scope().Lookup("Key").Type().Underlying().(*types.Interface)
	ivObj := sp.Pkg.Scope().Lookup("IndexValidator")
	if keyI == nil || ivObj == nil {
		r.Undec("C02.nonhardened-outcome.anchor", "", "slip10.Key / slip10.IndexValidator not found")
		return
	}
	ivI := ivObj.Type().Underlying().(*types.Interface)
	nKeys := 0
	for _, pk := range c.P.Pkgs {
		if !strings.HasPrefix(pk.PkgPath, ana.Module+"/pkg/slip10") {
			continue
		}
		for _, name := range pk.Types.Scope().Names() {
			tn, ok := pk.Types.Scope().Lookup(name).(*types.TypeName)
			if !ok {
				continue
			}
			for _, T := range []types.Type{tn.Type(), types.NewPointer(tn.Type())} {
				if _, isI := tn.Type().Underlying().(*types.Interface); isI || !types.Implements(T, keyI) {
					continue
				}
				if _, isPtr := T.(*types.Pointer); isPtr && types.Implements(tn.Type(), keyI) {
					continue // value type already handled
				}
				nKeys++
				isPriv := methodOf(c, T, "IsPrivate")
				if isPriv == nil || !returnsConstBool(c, isPriv, true) {
					continue
				}
				// dynamic public type: result of T.Public()
				pubFn := methodOf(c, T, "Public")
				pubT := dynamicResultType(pubFn)
				if pubT == nil {
					r.Undec("C02.nonhardened-outcome."+name, "", "dynamic type of %s.Public() not determined", name)
					continue
				}
				pubShift := methodOf(c, pubT, "Shift")
				if pubShift == nil {
					continue
				}
				alwaysFails := true
				sb := ana.NewBuilder(c.P, pubShift)
				for _, e := range ana.Exits(pubShift) {
					if e.Panic {
						continue
					}
					et := sb.Of(e.Results[1], e.Instr)
					if et.Is("nil") || strings.Contains(et.String(), "ErrInvalidKey") {
						alwaysFails = false
					}
				}
				if !alwaysFails {
					r.OK("C02.nonhardened-outcome."+name, c.P.Pos(pubShift.Pos()), "public derivation is defined for %s (its public type's Shift can succeed): no restriction", name)
					continue
				}
				// the dynamic type handed out must implement IndexValidator
				impl := types.Implements(T, ivI)
				key := "C02.nonhardened-outcome." + name
				if !impl {
					r.Viol(key, c.P.Pos(tn.Pos()), "public derivation is undefined for %s (its public key's Shift always fails), yet the key type handed out (%s) does not implement slip10.IndexValidator: non-hardened private derivation returns a key where SLIP-0010 says failure", name, T)
					continue
				}
				vi := methodOf(c, T, "ValidateIndex")
				ok := vi != nil
				if ok {
					vb := ana.NewBuilder(c.P, vi)
					vs := &ana.VSA{B: vb, Tracked: []string{"p" + itoa(int64(len(vi.Params)-1))}, Ranges: [][2]int64{{2147483640, 2147483655}}}
					sets, tuples := vs.Run()
					for _, e := range ana.Exits(vi) {
						if e.Panic {
							continue
						}
						isNil := vb.Of(e.Results[0], e.Instr).Is("nil")
						for idx := range sets[e.Instr.Block()] {
							v := ana.TupleOf(tuples, idx)[0]
							if (v < 2147483648) == isNil {
								ok = false
							}
						}
					}
					lowOK := false
					for _, ce := range vb.CondEdges() {
						if op, l, rr, isC := ana.IsCmp(ce.Lit); isC && l.Op == "param" && rr.IsInt(2147483648) && (op == "<" || op == ">=") {
							lowOK = true
						}
					}
					ok = ok && lowOK && vs.Opaque == 0
				}
				r.Check(ok, key, c.P.Pos(tn.Pos()), "%s (handed out as %s) implements IndexValidator and its ValidateIndex fails exactly for index < 2^31", name, T)
			}
		}
	}
	r.Floor("C02.floor.key-types", nKeys, 4, "types implementing slip10.Key")
}

func methodOf(c *Ctx, T types.Type, name string) *ssa.Function {
	ms := c.P.SSA.MethodSets.MethodSet(T)
	for i := 0; i < ms.Len(); i++ {
		if ms.At(i).Obj().Name() == name {
			if f, ok := ms.At(i).Obj().(*types.Func); ok {
				if d := c.P.SSA.FuncValue(f); d != nil && d.Blocks != nil {
					return d
				}
			}
			return c.P.SSA.MethodValue(ms.At(i))
		}
	}
	return nil
}

func returnsConstBool(c *Ctx, fn *ssa.Function, want bool) bool {
	for _, e := range ana.Exits(fn) {
		if e.Panic || len(e.Results) != 1 || !ana.IsConstBool(e.Results[0], want) {
			return false
		}
	}
	return true
}

// dynamicResultType: the concrete type wrapped into the interface result of fn (single MakeInterface on all returns).
func dynamicResultType(fn *ssa.Function) types.Type {
	if fn == nil {
		return nil
	}
	var T types.Type
	for _, e := range ana.Exits(fn) {
		if e.Panic || len(e.Results) == 0 {
			continue
		}
		v := e.Results[0]
		mi, ok := v.(*ssa.MakeInterface)
		if !ok {
			if p, isParam := v.(*ssa.Parameter); isParam {
				// `return p` of an interface-typed receiver converted earlier
				_ = p
			}
			return nil
		}
		if T != nil && !types.Identical(T, mi.X.Type()) {
			return nil
		}
		T = mi.X.Type()
	}
	return T
}

func c02Elliptic(c *Ctx) {
	r := c.R
	if f := c.fn("pkg/slip10/elliptic", "Curve.NewPrivateKey"); f != nil {
		fn := f.Function
		b := ana.NewBuilder(c.P, fn)
		sc := "obj(alloc<math/big.Int>, call<(*math/big.Int).SetBytes>(self, p1))"
		n := "load(faddr<N>(call<(crypto/elliptic.Curve).Params>(field<Curve>(p0))))"
		rej := plainEdges(edgesMatching(b, "bin<==>(call<(*math/big.Int).Sign>("+sc+"), 0)", "bin<>=>(call<(*math/big.Int).Cmp>("+sc+", "+n+"), 0)"))
		avoid := ana.ReachableAvoiding(fn, rej)
		nRej := 0
		for _, e := range ana.Exits(fn) {
			if e.Panic {
				r.Viol("C02.scalar-validity.new-private-key", c.ipos(e.Instr), "panic")
				continue
			}
			et := b.Of(e.Results[1], e.Instr)
			if et.Is("nil") {
				vt := b.Of(e.Results[0], e.Instr)
				_, ok := ana.MatchX(c.P, "obj(alloc<repo/pkg/slip10/elliptic.PrivateKey>, store(faddr<K>(self), "+sc+"), store(faddr<Curve>(self), _))", vt)
				r.Check(ok && len(rej) == 2, "C02.scalar-validity.new-private-key.accept", c.ipos(e.Instr), "accepts k = SetBytes(buf) exactly when 0 < k < N (two reject tests found: %d): %s", len(rej), short(vt.String(), 200))
			} else {
				nRej++
				_, ok := ana.Match("load(global<"+slipPkg+"ErrInvalidKey>)", et)
				r.Check(ok && !avoid[e.Instr.Block()], "C02.scalar-validity.new-private-key.reject", c.ipos(e.Instr), "rejects with ErrInvalidKey only for k == 0 or k >= N")
			}
		}
		r.Floor("C02.floor.npk-rejects", nRej, 1, "reject returns")
	}
	if f := c.fn("pkg/slip10/elliptic", "PrivateKey.Shift"); f != nil {
		fn := f.Function
		b := ana.NewBuilder(c.P, fn)
		n := "load(faddr<N>(call<(crypto/elliptic.Curve).Params>(load(faddr<Curve>(p0)))))"
		k := "load(faddr<K>(p0))"
		il := "obj(alloc<math/big.Int>, call<(*math/big.Int).SetBytes>(self, p1))"
		// (I_L + K) mod N computed in place in the parsed I_L, or into a fresh value (big.Int results depend on the operands only)
		ilv := "obj(alloc<math/big.Int>, call<(*math/big.Int).SetBytes>(self, p1))"
		sum := "alt(obj(alloc<math/big.Int>, call<(*math/big.Int).SetBytes>(self, p1), call<(*math/big.Int).Add>(self, self, " + k + "), call<(*math/big.Int).Mod>(self, self, " + n + ")), " +
			"obj(alloc<math/big.Int>, call<(*math/big.Int).Add>(self, " + ilv + ", " + k + "), call<(*math/big.Int).Mod>(self, self, " + n + ")), " +
			"obj(alloc<math/big.Int>, call<(*math/big.Int).Add>(self, " + k + ", " + ilv + "), call<(*math/big.Int).Mod>(self, self, " + n + ")))"
		rej := plainEdges(edgesMatching(b, "bin<>=>(call<(*math/big.Int).Cmp>("+il+", "+n+"), 0)", "bin<==>(call<(*math/big.Int).Sign>("+sum+"), 0)"))
		avoid := ana.ReachableAvoiding(fn, rej)
		for _, e := range ana.Exits(fn) {
			if e.Panic {
				r.Viol("C02.scalar-validity.shift", c.ipos(e.Instr), "panic")
				continue
			}
			et := b.Of(e.Results[1], e.Instr)
			if et.Is("nil") {
				vt := b.Of(e.Results[0], e.Instr)
				_, ok := ana.MatchX(c.P, "obj(alloc<repo/pkg/slip10/elliptic.PrivateKey>, store(faddr<K>(self), "+sum+"), store(faddr<Curve>(self), load(faddr<Curve>(p0))))", vt)
				r.Check(ok && len(rej) == 2, "C02.scalar-validity.shift.accept", c.ipos(e.Instr), "child scalar = (IL + K) mod N on the same curve, accepted exactly when IL < N and the sum is non-zero: %s", ana.Explain("obj(alloc<repo/pkg/slip10/elliptic.PrivateKey>, store(faddr<K>(self), "+sum+"), store(faddr<Curve>(self), load(faddr<Curve>(p0))))", vt))
			} else {
				_, ok := ana.Match("load(global<"+slipPkg+"ErrInvalidKey>)", et)
				r.Check(ok && !avoid[e.Instr.Block()], "C02.scalar-validity.shift.reject", c.ipos(e.Instr), "rejects with ErrInvalidKey only for IL >= N or zero sum")
			}
		}
		// receiver's K never mutated
		mut := 0
		for _, ci := range ana.Calls(fn) {
			cc := ci.Common()
			if cc.IsInvoke() || len(cc.Args) == 0 {
				continue
			}
			if b.Of(cc.Args[0], ci).String() == k && b.MayMutateOperand(cc, 0) {
				mut++
			}
		}
		r.Check(mut == 0, "C02.scalar-validity.shift.receiver-unmodified", c.P.Pos(fn.Pos()), "p.K is never the receiver of a mutating big.Int method (Key.Shift must not modify the receiver)")
	}
	// Public / Bytes
	if f := c.fn("pkg/slip10/elliptic", "PrivateKey.Public"); f != nil {
		b := ana.NewBuilder(c.P, f.Function)
		for _, e := range ana.Exits(f.Function) {
			if e.Panic {
				continue
			}
			vt := b.Of(e.Results[0], e.Instr)
			sbm := "call<(crypto/elliptic.Curve).ScalarBaseMult>(load(faddr<Curve>(p0)), call<(*math/big.Int).Bytes>(load(faddr<K>(p0))))"
			_, ok := ana.Match("obj(alloc<repo/pkg/slip10/elliptic.PublicKey>, store(faddr<X>(self), ext#0("+sbm+")), store(faddr<Y>(self), ext#1("+sbm+")), store(faddr<Curve>(self), load(faddr<Curve>(p0))))", vt)
			r.Check(ok, "C02.scalar-validity.public", c.ipos(e.Instr), "point(k) = Curve.ScalarBaseMult(K) on the same curve: %s", short(vt.String(), 200))
		}
	}
	if f := c.fn("pkg/slip10/elliptic", "PrivateKey.Bytes"); f != nil {
		b := ana.NewBuilder(c.P, f.Function)
		for _, e := range ana.Exits(f.Function) {
			if e.Panic {
				continue
			}
			vt := b.Of(e.Results[0], e.Instr)
			_, ok := ana.MatchAny(vt, "call<(*math/big.Int).FillBytes>(load(faddr<K>(p0)), slice(alloc<[32]byte>, 0, 32))", "call<(*math/big.Int).FillBytes>(load(faddr<K>(p0)), makeslice<[]byte>(32, 32))")
			r.Check(ok, "C02.scalar-validity.ser256", c.ipos(e.Instr), "ser256(k) = K.FillBytes(32 bytes) (fixed width, left padded): %s", vt)
		}
	}
	if f := c.fn("pkg/slip10/elliptic", "PublicKey.Bytes"); f != nil {
		b := ana.NewBuilder(c.P, f.Function)
		for _, e := range ana.Exits(f.Function) {
			if e.Panic {
				continue
			}
			vt := b.Of(e.Results[0], e.Instr)
			_, ok := ana.Match("call<crypto/elliptic.MarshalCompressed>(load(faddr<Curve>(p0)), load(faddr<X>(p0)), load(faddr<Y>(p0)))", vt)
			r.Check(ok, "C02.scalar-validity.serP", c.ipos(e.Instr), "serP(P) = elliptic.MarshalCompressed(curve, X, Y) (33 bytes, X left padded): %s", vt)
		}
	}
}

func c02Misc(c *Ctx) {
	r := c.R
	if f := c.fn("pkg/slip10", "ExtendedKey.Fingerprint"); f != nil {
		fn := f.Function
		b := ana.NewBuilder(c.P, fn)
		nilE := plainEdges(edgesMatching(b, "bin<==>(load(faddr<#2>(p0)), nil)"))
		for _, e := range ana.Exits(fn) {
			if e.Panic {
				continue
			}
			vt := b.Of(e.Results[0], e.Instr)
			if _, ok := ana.MatchAny(vt, "slice(alloc<[4]byte>, 0, 4)", "makeslice<[]byte>(4, 4)"); ok {
				r.Check(exitMustPass(fn, e, nilE), "C02.fingerprint.master", c.ipos(e.Instr), "4 zero bytes exactly when there is no parent")
				continue
			}
			bd, ok := ana.Match("slice(call<*>(call<("+slipPkg+"Key).Bytes>(call<("+slipPkg+"Key).Public>(load(faddr<#2>(p0))))), 0, 4)", vt)
			_ = bd
			okH := false
			if !ok {
				// RIPEMD160(SHA256(·)) written out in place (or behind a helper the matcher looks through)
				pk := "call<(" + slipPkg + "Key).Bytes>(call<(" + slipPkg + "Key).Public>(load(faddr<#2>(p0))))"
				if _, okX := ana.MatchX(c.P, "slice(call<(hash.Hash).Sum>(obj(call<golang.org/x/crypto/ripemd160.New>, call<(hash.Hash).Write>(self, slice(obj(alloc<[32]byte>, store(self, call<crypto/sha256.Sum256>("+pk+"))), 0, none))), nil), 0, 4)", vt); okX {
					ok, okH = true, true
				}
			} else {
				if h := calleeOf(vt.Arg(0)); h != nil {
					r.Fn(ana.ShortFunc(h))
					hb := ana.NewBuilder(c.P, h)
					for _, he := range ana.Exits(h) {
						if !he.Panic {
							ht := hb.Of(he.Results[0], he.Instr)
							_, okH = ana.Match("call<(hash.Hash).Sum>(obj(call<golang.org/x/crypto/ripemd160.New>, call<(hash.Hash).Write>(self, slice(obj(alloc<[32]byte>, store(self, call<crypto/sha256.Sum256>(p0))), 0, none))), nil)", ht)
						}
					}
				}
			}
			r.Check(ok && okH, "C02.fingerprint.child", c.ipos(e.Instr), "fingerprint = RIPEMD160(SHA256(parent.Public().Bytes()))[0:4]: %s", short(vt.String(), 200))
		}
	}
	if f := c.fn("pkg/slip10", "ExtendedKey.Public"); f != nil {
		b := ana.NewBuilder(c.P, f.Function)
		st, _ := c.P.Pkg("pkg/slip10").Pkg.Scope().Lookup("ExtendedKey").Type().Underlying().(*types.Struct)
		for _, e := range ana.Exits(f.Function) {
			if e.Panic {
				continue
			}
			vt := b.Of(e.Results[0], e.Instr)
			all := st != nil
			for i := 0; st != nil && i < st.NumFields(); i++ {
				fnm := ana.FieldName(st, i)
				want := "load(faddr<" + fnm + ">(p0))"
				if fnm == "Key" {
					want = "call<(" + slipPkg + "Key).Public>(load(faddr<Key>(p0)))"
				}
				if w, _ := ana.Find("store(faddr<"+fnm+">(self), "+want+")", vt); w == nil {
					all = false
				}
			}
			r.Check(all, "C02.public-copy.fields", c.ipos(e.Instr), "Public() copies every field of ExtendedKey (%d fields), Key ↦ Key.Public()", st.NumFields())
		}
	}
	// DeriveKeyFromPath: fold over path with DeriveChild, errors wrapped
	if f := c.fn("pkg/slip10", "DeriveKeyFromPath"); f != nil {
		fn := f.Function
		b := ana.NewBuilder(c.P, fn)
		dc := ana.CallsTo(fn, "(*github.com/wollac/iota-crypto-demo/pkg/slip10.ExtendedKey).DeriveChild")
		mk := ana.CallsTo(fn, "github.com/wollac/iota-crypto-demo/pkg/slip10.NewMasterKey")
		ok := len(dc) == 1 && len(mk) == 1
		if ok {
			t := b.CallTermAt(dc[0])
			_, ok = ana.Match("call<*>(_, load(iaddr(p2, bin<+>(ind<+1>(-1), 1))))", t)
			mt := b.CallTermAt(mk[0])
			_, ok2 := ana.Match("call<*>(p0, p1)", mt)
			ok = ok && ok2
			// the receiver of DeriveChild is the previous key (phi of master and previous child)
			if phi, isPhi := dc[0].Common().Args[0].(*ssa.Phi); isPhi {
				for _, ed := range phi.Edges {
					ex, isEx := ed.(*ssa.Extract)
					if !isEx || ex.Index != 0 || (ex.Tuple != mk[0].Value() && ex.Tuple != dc[0].Value()) {
						ok = false
					}
				}
			} else {
				ok = false
			}
		}
		// error returns only propagate the master / child derivation errors
		if len(dc) == 1 && len(mk) == 1 {
			rej := plainEdges(edgesMatching(b, "bin<!=>(ext#1(call<repo/pkg/slip10.NewMasterKey>(p0, p1)), nil)", "bin<!=>(ext#1(call<(*repo/pkg/slip10.ExtendedKey).DeriveChild>(_, _)), nil)"))
			avoid := ana.ReachableAvoiding(fn, rej)
			for _, e := range ana.Exits(fn) {
				if e.Panic {
					r.Viol("C02.ckd-data.path-reject-closed", c.ipos(e.Instr), "panic in DeriveKeyFromPath")
					continue
				}
				if !b.Of(e.Results[1], e.Instr).Is("nil") {
					r.Check(!avoid[e.Instr.Block()], "C02.ckd-data.path-reject-closed", c.ipos(e.Instr), "DeriveKeyFromPath fails only when NewMasterKey or a DeriveChild step fails (every path of every length is derivable)")
					continue
				}
				// … and succeeds only when none of them failed: no success return is reachable once an error was seen
				okProp := true
				for _, re := range rej {
					if re.To == e.Instr.Block() || ana.ReachableFrom(re.To, nil)[e.Instr.Block()] {
						okProp = false
					}
				}
				r.Check(okProp && len(rej) >= 2, "C02.ckd-data.path-errors-propagated", c.ipos(e.Instr), "a nil error is returned only when NewMasterKey and every DeriveChild step succeeded: no path from a failed step reaches this return")
			}
		}
		r.Check(ok, "C02.ckd-data.path-fold", c.P.Pos(fn.Pos()), "DeriveKeyFromPath = fold DeriveChild over path, in order, from NewMasterKey(seed, curve) (so deriving p then i equals deriving p‖i)")
	}
	// constants
	sp := c.P.Pkg("pkg/slip10")
	constOK := true
	for name, want := range map[string]int64{"FingerprintSize": 4, "ChainCodeSize": 32, "PrivateKeySize": 32, "PublicKeySize": 33, "Hardened": 1 << 31} {
		nc, _ := sp.Members[name].(*ssa.NamedConst)
		if nc == nil || nc.Value.Int64() != want {
			constOK = false
		}
	}
	r.Check(constOK, "C02.constants.sizes", "", "FingerprintSize=4, ChainCodeSize=32, PrivateKeySize=32, PublicKeySize=33, Hardened=1<<31")
	for _, hk := range []struct{ rel, typ, want string }{
		{"pkg/slip10/elliptic", "secp256k1Curve", "Bitcoin seed"}, {"pkg/slip10/elliptic", "nist256p1Curve", "Nist256p1 seed"}, {"pkg/slip10/eddsa", "ed25519Curve", "ed25519 seed"}} {
		f := c.P.Func(hk.rel, hk.typ+".HmacKey")
		ok := false
		if f != nil {
			b := ana.NewBuilder(c.P, f)
			for _, e := range ana.Exits(f) {
				if !e.Panic {
					t := b.Of(e.Results[0], e.Instr)
					if bd, m := ana.Match("conv<[]byte>($s)", t); m {
						s, _ := bd["$s"].Str()
						ok = s == hk.want
					}
				}
			}
		}
		r.Check(ok, "C02.constants.hmac-key."+hk.typ, "", "%s.HmacKey() = %q", hk.typ, hk.want)
	}
	// curve wiring
	for _, w := range []struct{ fn, global, ctor string }{{"Secp256k1", "secp256k1", "repo/pkg/slip10/elliptic/internal/btccurve.Secp256k1"}, {"Nist256p1", "nist256p1", "crypto/elliptic.P256"}} {
		init, writers, g := c.globalInit("pkg/slip10/elliptic", w.global)
		if g == nil {
			// the unexported variable may carry another name: the package variable the exported accessor returns
			if acc := c.P.Func("pkg/slip10/elliptic", w.fn); acc != nil {
				ab := ana.NewBuilder(c.P, acc)
				for _, e := range ana.Exits(acc) {
					if e.Panic || len(e.Results) != 1 {
						continue
					}
					if gl, isG := ab.Root(e.Results[0]).(*ssa.UnOp); isG {
						if gg, isG := gl.X.(*ssa.Global); isG {
							init, writers, g = c.globalInit("pkg/slip10/elliptic", gg.Name())
						}
					}
				}
			}
		}
		ok := init != nil && writers == 1
		if ok {
			f, _ := ana.Find("call<"+w.ctor+">", init)
			ok = f != nil
		}
		pos := ""
		if g != nil {
			pos = c.P.Pos(g.Pos())
		}
		r.Check(ok, "C02.constants.curve."+w.fn, pos, "%s wraps %s()", w.global, w.ctor)
	}
}

func c02Eddsa(c *Ctx) {
	r := c.R
	if f := c.fn("pkg/slip10/eddsa", "ed25519Curve.NewPrivateKey"); f != nil {
		b := ana.NewBuilder(c.P, f.Function)
		for _, e := range ana.Exits(f.Function) {
			if e.Panic {
				es := edgesMatching(b, "bin<!=>(len(p1), 32)")
				r.Check(exitMustPass(f.Function, e, plainEdges(es)), "C02.eddsa-keys.new-private-key.panic", c.ipos(e.Instr), "panics only for a buffer that is not 32 bytes (never for I_L)")
				continue
			}
			vt := b.Of(e.Results[0], e.Instr)
			_, ok := ana.MatchAny(vt, "slice(obj(alloc<[32]byte>, call<builtin.copy>(slice(self, 0, 32), p1)), 0, 32)", "obj(makeslice<[]byte>(32, 32), call<builtin.copy>(self, p1))")
			ok = ok || freshAppendCopy(b, e.Results[0], vt)
			r.Check(ok && b.Of(e.Results[1], e.Instr).Is("nil"), "C02.eddsa-keys.new-private-key", c.ipos(e.Instr), "key = copy of the 32 bytes, never an error: %s", short(vt.String(), 160))
		}
	}
	if f := c.fn("pkg/slip10/eddsa", "PublicKey.Bytes"); f != nil {
		b := ana.NewBuilder(c.P, f.Function)
		for _, e := range ana.Exits(f.Function) {
			if e.Panic {
				continue
			}
			vt := b.Of(e.Results[0], e.Instr)
			_, ok := ana.Match("slice(obj(alloc<[33]byte>, call<builtin.copy>(slice(slice(self, 0, 33), bin<->(33, len(p0)), none), p0)), 0, 33)", vt)
			r.Check(ok, "C02.eddsa-keys.public-bytes", c.ipos(e.Instr), "public key = 33 bytes, key right-aligned (0x00 ‖ A): %s", short(vt.String(), 200))
		}
	}
	if f := c.fn("pkg/slip10/eddsa", "Seed.Public"); f != nil {
		b := ana.NewBuilder(c.P, f.Function)
		for _, e := range ana.Exits(f.Function) {
			if e.Panic {
				continue
			}
			vt := b.Of(e.Results[0], e.Instr)
			_, ok := ana.Match("assert<repo/pkg/ed25519.PublicKey>(call<(repo/pkg/ed25519.PrivateKey).Public>(call<repo/pkg/ed25519.NewKeyFromSeed>(p0)))", vt)
			r.Check(ok, "C02.eddsa-keys.seed-public", c.ipos(e.Instr), "Seed.Public = NewKeyFromSeed(seed).Public(): %s", short(vt.String(), 200))
		}
	}
	if f := c.fn("pkg/slip10/eddsa", "Seed.Shift"); f != nil {
		b := ana.NewBuilder(c.P, f.Function)
		for _, e := range ana.Exits(f.Function) {
			if e.Panic {
				continue
			}
			vt := b.Of(e.Results[0], e.Instr)
			_, ok := ana.MatchAny(vt, "slice(obj(alloc<[32]byte>, call<builtin.copy>(slice(self, 0, 32), p1)), 0, 32)", "obj(makeslice<[]byte>(32, 32), call<builtin.copy>(self, p1))")
			ok = ok || freshAppendCopy(b, e.Results[0], vt)
			r.Check(ok && b.Of(e.Results[1], e.Instr).Is("nil"), "C02.eddsa-keys.seed-shift", c.ipos(e.Instr), "ed25519 child key = I_L (copy of the 32 bytes), independent of the parent key: %s", short(vt.String(), 160))
		}
	}
	if f := c.fn("pkg/slip10/eddsa", "Seed.Bytes"); f != nil {
		b := ana.NewBuilder(c.P, f.Function)
		for _, e := range ana.Exits(f.Function) {
			if !e.Panic {
				vt := b.Of(e.Results[0], e.Instr)
				r.Check(vt.IsParam(0), "C02.eddsa-keys.seed-bytes", c.ipos(e.Instr), "ser256(k) = the 32 seed bytes")
			}
		}
	}
}
