package props

import (
	"fmt"
	"go/build/constraint"
	"go/types"
	"os"
	"path/filepath"
	"strings"

	"golang.org/x/tools/go/ssa"

	"verif/checker/internal/ana"
	"verif/checker/internal/asm"
	"verif/checker/internal/bitdom"
)

// C20 — Assembly and portable Curl permutations both equal Curl-P-81.

func init() {
	register(&Prop{
		ID:    "C20",
		Level: "proof",
		Explanation: "The checked-in amd64 routine is read by the checker's own Plan-9 reader and abstractly interpreted for all 81 rounds: control (the two counted loops) is concrete, parameter pointers are tracked as (parameter, byte offset), data registers hold lane-generic 1-bit ANF polynomials and may only be touched by MOVQ/XORQ/ANDQ/ORQ/NOTQ (so all 64 lanes compute the same function). " +
			"Every memory operand of every round is shown 8-aligned and inside [0,729) of the parameter it derives from, loads come only from the round's `from` pair and stores only to its `to` pair, every position is written exactly once per round with S(from[364j mod 729], from[364(j+1) mod 729]), no data crosses a round boundary, 81 rounds leave the result in the original `to` pair. " +
			"The portable Go loop is decided for one round in the 64-bit ANF domain (all bits of all 2×729 words symbolic, the destination pre-filled with junk), its buffer swap and round count structurally; the s-box pair is checked against the Curl-P truth table through the (l,h) encoding; build constraints are shown complementary over all assignments of {amd64, gc, purego}. Relative to the modelled instruction semantics this decides the statement.",
		Configs: func(tier string) []ana.Config {
			// the statement quantifies over build targets: the portable path of a 32-bit target (bits.UintSize == 32 is a
			// constant there) is decided on every run, a second 64-bit target without assembly in the thorough tier
			cs := []ana.Config{{Tags: []string{"purego"}}, {GOARCH: "386"}}
			if tier == "thorough" {
				cs = append(cs, ana.Config{GOARCH: "arm64"})
			}
			return cs
		},
		Run: runC20,
	})
}

// Curl-P s-box truth table: out = T[a + 4b + 5] for trits a, b (reference Curl implementations).
var curlTruth = [11]int{1, 0, -1, 2, 1, -1, 0, 2, -1, 1, 0}

// sboxExpected returns the ANF pair (l', h') of the bitwise s-box on (aL,aH,bL,bH).
func sboxExpected(aL, aH, bL, bH bitdom.Poly) (bitdom.Poly, bitdom.Poly) {
	tmp := bitdom.And(aL, bitdom.Xor(aH, bL))
	return bitdom.Not(tmp), bitdom.Or(bitdom.Xor(aL, bH), tmp)
}

func runC20(c *Ctx) {
	r := c.R
	r.Rule("C20.asm-bounds", "for every executed memory operand of all 81 rounds: base register holds one of the four parameter pointers, byte offset is a multiple of 8 and the word index lies in [0,729); loads only from the current from pair, stores only to the current to pair; frame $0-32 and FP offsets match the Go stub")
	r.Rule("C20.asm-sbox", "every stored pair is (¬(aL∧(aH⊕bL)), (aL⊕bH)∨(aL∧(aH⊕bL))) of its four loaded inputs; data registers are only touched by lane-separable instructions and are never read before being written within a round")
	r.Rule("C20.sbox-definition", "the ANF pair, read through the encoding −1=(1,0), 0=(1,1), 1=(0,1), equals the Curl-P truth table on the nine trit pairs and maps valid encodings to valid encodings")
	r.Rule("C20.schedule", "asm and Go: to[j] = S(from[364·j mod 729], from[364·(j+1) mod 729]) for j = 0..728, each position written exactly once per round")
	r.Rule("C20.rounds", "81 rounds with the buffers swapped after each; the result of the last round is in the original to pair, which Curl.transform copies back; the four buffers passed are distinct objects")
	r.Rule("C20.go-bounds", "all indices of the portable loop lie in [0,728] (checked concretely by the interpreter on the closed-form index walk)")
	r.Rule("C20.build-tags", "the constraints of transform_amd64.go/.s and transform_noasm.go are complementary over all assignments of {amd64, gc, purego}; the noasm wrapper delegates with identical argument order")
	r.Assume("amd64 semantics of MOVQ, XORQ, ANDQ, ORQ, NOTQ, ADDQ, SUBQ, DECQ, CMPQ, JL, JNZ, XCHGQ, RET as modelled in /verif/checker/internal/asm; Go's bit operators as modelled by the ANF domain")

	purego := false
	for _, t := range c.P.Cfg.Tags {
		if t == "purego" {
			purego = true
		}
	}
	cm, cp, cg := curlPermFns(c)
	pureScan(c, "C20.pure.no-package-state", cm, cp, cg)
	c20SboxDefinition(c)
	c20Go(c)
	if !purego && (c.P.Cfg.GOARCH == "" || c.P.Cfg.GOARCH == "amd64") {
		c20Asm(c)
		c20BuildTags(c)
	}
	c20Wiring(c, purego)
}

func c20SboxDefinition(c *Ctx) {
	r := c.R
	enc := map[int][2]bool{-1: {true, false}, 0: {true, true}, 1: {false, true}}
	dec := func(l, h bool) (int, bool) {
		for t, e := range enc {
			if e[0] == l && e[1] == h {
				return t, true
			}
		}
		return 0, false
	}
	aL, aH, bL, bH := bitdom.Var(0), bitdom.Var(1), bitdom.Var(2), bitdom.Var(3)
	l, h := sboxExpected(aL, aH, bL, bH)
	bad := ""
	for a := -1; a <= 1; a++ {
		for b := -1; b <= 1; b++ {
			val := func(id int) bool {
				switch id {
				case 0:
					return enc[a][0]
				case 1:
					return enc[a][1]
				case 2:
					return enc[b][0]
				}
				return enc[b][1]
			}
			got, ok := dec(l.Eval(val), h.Eval(val))
			want := curlTruth[a+4*b+5]
			if !ok || got != want {
				bad += fmt.Sprintf(" S(%d,%d)=%d(valid=%v) want %d;", a, b, got, ok, want)
			}
		}
	}
	r.Check(bad == "", "C20.sbox-definition.truth-table", "", "the bitwise s-box pair equals the Curl-P truth table {1,0,-1,2,1,-1,0,2,-1,1,0}[a+4b+5] on all nine trit pairs and yields valid encodings%s", bad)
}

// expectedRound checks stored words against the definition. get(buf, j) returns the stored poly, in(buf, j) the input variable.
func roundMismatch(n int, outL, outH func(j int) (bitdom.Poly, bool), inL, inH func(j int) bitdom.Poly) string {
	for j := 0; j < n; j++ {
		a, b := (364*j)%n, (364*(j+1))%n
		wl, wh := sboxExpected(inL(a), inH(a), inL(b), inH(b))
		gl, ok1 := outL(j)
		gh, ok2 := outH(j)
		if !ok1 || !ok2 {
			return fmt.Sprintf("position %d is not written", j)
		}
		if !bitdom.Equal(gl, wl) || !bitdom.Equal(gh, wh) {
			return fmt.Sprintf("position %d is not S(from[%d], from[%d])", j, a, b)
		}
	}
	return ""
}

func c20Asm(c *Ctx) {
	r := c.R
	path := filepath.Join(c.Repo, "pkg/curl/transform_amd64.s")
	f, err := asm.ParseFile(path)
	if err != nil {
		r.Undec("C20.asm-bounds.parse", "pkg/curl/transform_amd64.s", "assembly not in the modelled subset: %v", err)
		return
	}
	_, stub, _ := curlPermFns(c)
	if stub == nil || stub.Blocks != nil {
		r.Undec("C20.asm-bounds.stub", "", "Go declaration of transform without body not found in this configuration")
		return
	}
	var params []string
	okSig := len(stub.Params) == 4
	for _, p := range stub.Params {
		params = append(params, p.Name())
		if p.Type().String() != "*[729]uint" {
			okSig = false
		}
	}
	r.Check(okSig && f.Name == stub.Name() && f.FrameSize == 0 && f.ArgSize == 32 && f.Flags == "NOSPLIT", "C20.asm-bounds.frame", "pkg/curl/transform_amd64.s", "TEXT ·transform(SB), NOSPLIT, $0-32 matches func transform(%s *[729]uint) (4 pointers = 32 bytes, no locals)", strings.Join(params, ", "))
	roundPC, ok := f.Labels["RoundLoop"]
	if !ok {
		// any label that the final conditional jump targets
		for _, ins := range f.Instrs {
			if ins.Op == "JNZ" {
				roundPC = f.Labels[ins.Args[0].Name]
				ok = true
			}
		}
	}
	if !ok {
		r.Undec("C20.rounds.asm-loop", path, "no round loop found")
		return
	}
	m := asm.NewMachine(f, params, 729)
	pc, err := m.Run(0, 10_000_000, func(pc int) bool { return pc == roundPC })
	if err != nil {
		r.Viol("C20.asm-bounds.prologue", "pkg/curl/transform_amd64.s", "%v", err)
		return
	}
	// which registers hold which parameter at the round head
	rounds := 0
	totalAccesses := 0
	mism := ""
	for pc == roundPC {
		rounds++
		if rounds > 200 {
			r.Viol("C20.rounds.asm-count", "pkg/curl/transform_amd64.s", "round loop does not terminate within 200 rounds")
			return
		}
		m.Round = rounds
		m.ResetRound()
		m.InvalidateData() // nothing may be carried over in data registers
		first := true
		pc, err = m.Run(pc, 10_000_000, func(p int) bool {
			if first {
				first = false
				return false
			}
			return p == roundPC
		})
		if err != nil {
			r.Viol("C20.asm-bounds.round", "pkg/curl/transform_amd64.s", "round %d: %v", rounds, err)
			return
		}
		// from/to pair of this round: parameters loaded vs stored
		loadedP, storedP := map[int64]bool{}, map[int64]bool{}
		for k := range m.Loaded {
			loadedP[k[0]] = true
		}
		for k, n := range m.StoreCnt {
			storedP[k[0]] = true
			if n != 1 && mism == "" {
				mism = fmt.Sprintf("round %d: %s[%d] written %d times", rounds, params[k[0]], k[1], n)
			}
		}
		var fromL, fromH, toL, toH int64 = 2, 3, 0, 1
		if rounds%2 == 0 {
			fromL, fromH, toL, toH = 0, 1, 2, 3
		}
		if len(loadedP) != 2 || !loadedP[fromL] || !loadedP[fromH] || len(storedP) != 2 || !storedP[toL] || !storedP[toH] {
			if mism == "" {
				mism = fmt.Sprintf("round %d: loads from %v, stores to %v; expected from (%s,%s) to (%s,%s)", rounds, loadedP, storedP, params[fromL], params[fromH], params[toL], params[toH])
			}
		}
		inv := func(p int64) func(j int) bitdom.Poly {
			return func(j int) bitdom.Poly {
				if v, ok := m.Loaded[[2]int64{p, int64(j)}]; ok {
					return v
				}
				return bitdom.Var(1 << 20) // never loaded: cannot match
			}
		}
		outv := func(p int64) func(j int) (bitdom.Poly, bool) {
			return func(j int) (bitdom.Poly, bool) {
				v, ok := m.Stored[[2]int64{p, int64(j)}]
				return v, ok
			}
		}
		if s := roundMismatch(729, outv(toL), outv(toH), inv(fromL), inv(fromH)); s != "" && mism == "" {
			mism = fmt.Sprintf("round %d: %s", rounds, s)
		}
		totalAccesses = len(m.Accesses)
	}
	r.Check(mism == "", "C20.schedule.asm", "pkg/curl/transform_amd64.s", "every round writes every position of its to pair exactly once with S(from[364j mod 729], from[364(j+1) mod 729]) and the bitwise s-box (asm-sbox), lane-generically %s", mism)
	r.Check(pc == len(f.Instrs) && rounds == 81, "C20.rounds.asm-count", "pkg/curl/transform_amd64.s", "the routine executes %d rounds and returns; with an odd count the last round writes the original to pair (lto, hto)", rounds)
	r.OK("C20.asm-bounds.all-accesses", "pkg/curl/transform_amd64.s", "%d memory operand evaluations over %d rounds: all 8-aligned, inside [0,729) of a parameter buffer, loads/stores on disjoint pairs; %d instructions interpreted", totalAccesses, rounds, m.Steps)
	r.Extra["asm_memory_accesses"] = totalAccesses
	r.Extra["asm_instructions_interpreted"] = m.Steps
}

func c20Go(c *Ctx) {
	r := c.R
	_, _, fn := curlPermFns(c)
	sbox := c.helper("pkg/curl", "sBox")
	if fn == nil || sbox == nil {
		r.Undec("C20.schedule.go", "", "transformGeneric / sBox not found")
		return
	}
	r.Fn(ana.ShortFunc(fn))
	r.Fn(ana.ShortFunc(sbox))
	W := c.wordBits()
	// s-box function alone
	{
		in := bitdom.New(c.P.SSA, W)
		args := []bitdom.Val{in.SymBV("aL", W, W, false), in.SymBV("aH", W, W, false), in.SymBV("bL", W, W, false), in.SymBV("bH", W, W, false)}
		// the four words in parameter order, whether passed one by one or grouped into (low, high) structs
		var callArgs []bitdom.Val
		next := 0
		var build func(t types.Type) bitdom.Val
		build = func(t types.Type) bitdom.Val {
			if st, isS := t.Underlying().(*types.Struct); isS {
				sv := &bitdom.Struct{}
				for i := 0; i < st.NumFields(); i++ {
					sv.Fields = append(sv.Fields, build(st.Field(i).Type()))
				}
				return sv
			}
			if next < len(args) {
				next++
				return args[next-1]
			}
			next++
			return bitdom.Top{Why: "more than four words"}
		}
		for _, p := range sbox.Params {
			callArgs = append(callArgs, build(p.Type()))
		}
		if next != 4 {
			callArgs = args
		}
		ex, err := in.Call(sbox, callArgs)
		ok := err == nil && !ex.Panic && len(ex.Results) == 2
		if ok {
			for _, rv := range ex.Results {
				if _, isBV := rv.(*bitdom.BV); !isBV {
					ok = false
				}
			}
		}
		if ok {
			for k := 0; k < W; k++ {
				wl, wh := sboxExpected(args[0].(*bitdom.BV).Bits[k], args[1].(*bitdom.BV).Bits[k], args[2].(*bitdom.BV).Bits[k], args[3].(*bitdom.BV).Bits[k])
				if !bitdom.Equal(ex.Results[0].(*bitdom.BV).Bits[k], wl) || !bitdom.Equal(ex.Results[1].(*bitdom.BV).Bits[k], wh) {
					ok = false
				}
			}
		}
		r.Check(ok, "C20.asm-sbox.go-sbox", c.P.Pos(sbox.Pos()), "sBox = (¬(aL∧(aH⊕bL)), (aL⊕bH)∨(aL∧(aH⊕bL))) on each of the %d bit lanes independently (%v)", W, err)
	}
	// one round of the portable loop
	in := bitdom.New(c.P.SSA, W)
	names := []string{"lto", "hto", "lfrom", "hfrom"}
	var arrs [4]*bitdom.Array
	var args []bitdom.Val
	for i, n := range names {
		a := &bitdom.Array{Name: n}
		for j := 0; j < 729; j++ {
			a.Elems = append(a.Elems, in.SymBV(fmt.Sprintf("%s[%d]", n, j), W, W, false))
		}
		arrs[i] = a
		args = append(args, &bitdom.Ptr{Cell: &bitdom.Cell{V: a}})
	}
	// keep the input polynomials of the from pair
	inputs := [2][]bitdom.Val{append([]bitdom.Val{}, arrs[2].Elems...), append([]bitdom.Val{}, arrs[3].Elems...)}
	var roundPhi *ssa.Phi
	var roundInit int64
	for _, blk := range fn.Blocks {
		for _, ins := range blk.Instrs {
			if phi, ok := ins.(*ssa.Phi); ok && isIntPhi(phi) && isInductionPhi(phi) && roundPhi == nil {
				for _, e := range phi.Edges {
					if cst, ok := e.(*ssa.Const); ok && cst.Value != nil {
						roundInit = cst.Int64()
					}
				}
				roundPhi = phi
			}
		}
	}
	if roundPhi == nil {
		r.Undec("C20.rounds.go", c.P.Pos(fn.Pos()), "round counter not found")
		return
	}
	hdr := roundPhi.Block()
	in.PhiHook = func(phi *ssa.Phi, visit int) (bitdom.Val, bool) {
		if phi.Block() == hdr && visit == 2 {
			return nil, true
		}
		return nil, false
	}
	_, err := in.Call(fn, args)
	if err != nil && !bitdom.IsStopped(err) && len(in.Captured[roundPhi]) == 0 {
		r.Viol("C20.go-bounds.interpretation", c.P.Pos(fn.Pos()), "one round of the portable loop is not decidable / in bounds: %v", err)
		return
	}
	mism := ""
	for lane := 0; lane < W && mism == ""; lane++ {
		get := func(a *bitdom.Array) func(j int) (bitdom.Poly, bool) {
			return func(j int) (bitdom.Poly, bool) { return a.Elems[j].(*bitdom.BV).Bits[lane], true }
		}
		inp := func(vs []bitdom.Val) func(j int) bitdom.Poly {
			return func(j int) bitdom.Poly { return vs[j].(*bitdom.BV).Bits[lane] }
		}
		if s := roundMismatch(729, get(arrs[0]), get(arrs[1]), inp(inputs[0]), inp(inputs[1])); s != "" {
			mism = fmt.Sprintf("lane %d: %s", lane, s)
		}
	}
	// from buffers untouched in the round
	for j := 0; j < 729 && mism == ""; j++ {
		if arrs[2].Elems[j] != inputs[0][j] || arrs[3].Elems[j] != inputs[1][j] {
			mism = fmt.Sprintf("from[%d] is written during the round", j)
		}
	}
	r.Check(mism == "", "C20.schedule.go", c.P.Pos(fn.Pos()), "one round of transformGeneric in the %d-bit ANF domain: every position of (lto,hto), pre-filled with junk, is S(from[364j mod 729], from[364(j+1) mod 729]) in every bit lane; the from pair is only read; all indices in bounds (go-bounds) %s", W, mism)
	// swap and round count
	okSwap := false
	var ptrPhis []*ssa.Phi
	for _, ins := range hdr.Instrs {
		if phi, ok := ins.(*ssa.Phi); ok && phi != roundPhi {
			ptrPhis = append(ptrPhis, phi)
		}
	}
	if len(ptrPhis) == 4 {
		// each buffer variable is identified by the parameter it starts as (0 lto, 1 hto, 2 lfrom, 3 hfrom), not by its name
		tgt := map[int]*bitdom.Array{}
		for _, phi := range ptrPhis {
			role := -1
			for _, e := range phi.Edges {
				for i, prm := range fn.Params {
					if e == ssa.Value(prm) {
						role = i
					}
				}
			}
			if cap := in.Captured[phi]; len(cap) == 1 && role >= 0 {
				if p, ok := cap[0].(*bitdom.Ptr); ok && p.Cell != nil {
					if a, ok := p.Cell.V.(*bitdom.Array); ok {
						tgt[role] = a
					}
				}
			}
		}
		okSwap = tgt[2] == arrs[0] && tgt[0] == arrs[2] && tgt[3] == arrs[1] && tgt[1] == arrs[3]
	}
	r.Check(okSwap, "C20.rounds.go-swap", c.P.Pos(fn.Pos()), "after a round the from and to pairs are exchanged (l with l, h with h)")
	b := ana.NewBuilder(c.P, fn)
	nr, _ := c.P.Pkg("pkg/curl").Members["NumRounds"].(*ssa.NamedConst)
	trips, nHdr := int64(-1), 0
	for _, ce := range b.CondEdges() {
		if ce.From == hdr && ce.Taken {
			nHdr++
			if n, ok := tripCount(ce.Lit); ok {
				trips = n
			}
		}
	}
	_ = roundInit
	r.Check(nHdr == 1 && trips == 81 && nr != nil && nr.Value.Int64() == 81, "C20.rounds.go-count", c.P.Pos(fn.Pos()), "the round loop is a counted loop with exactly 81 iterations in either direction (NumRounds = 81): %d", trips)
}

func c20BuildTags(c *Ctx) {
	r := c.R
	files := map[string]string{}
	plusExprs := map[string]constraint.Expr{}
	for _, n := range []string{"transform_amd64.go", "transform_amd64.s", "transform_noasm.go"} {
		data, err := os.ReadFile(filepath.Join(c.Repo, "pkg/curl", n))
		if err != nil {
			r.Undec("C20.build-tags.files", "pkg/curl/"+n, "%v", err)
			return
		}
		var plus []constraint.Expr
		for _, line := range strings.Split(string(data), "\n") {
			if constraint.IsGoBuild(line) {
				files[n] = line
			}
			if constraint.IsPlusBuild(line) {
				if e, err := constraint.Parse(line); err == nil {
					plus = append(plus, e)
				}
			}
			if strings.HasPrefix(strings.TrimSpace(line), "package ") {
				break
			}
		}
		if _, ok := files[n]; !ok && len(plus) > 0 {
			e := plus[0]
			for _, x := range plus[1:] {
				e = &constraint.AndExpr{X: e, Y: x}
			}
			plusExprs[n] = e
		}
	}
	exprs := map[string]constraint.Expr{}
	for n, e := range plusExprs {
		exprs[n] = e
	}
	for n, l := range files {
		e, err := constraint.Parse(l)
		if err != nil {
			r.Undec("C20.build-tags.parse", "pkg/curl/"+n, "%v", err)
			return
		}
		exprs[n] = e
	}
	if len(exprs) != 3 {
		r.Viol("C20.build-tags.present", "pkg/curl", "a //go:build line is missing in one of transform_amd64.go / .s / transform_noasm.go (found %d)", len(exprs))
		return
	}
	bad := ""
	for mask := 0; mask < 8; mask++ {
		tags := map[string]bool{"amd64": mask&1 != 0, "gc": mask&2 != 0, "purego": mask&4 != 0}
		ev := func(e constraint.Expr) bool { return e.Eval(func(t string) bool { return tags[t] }) }
		a, s, n := ev(exprs["transform_amd64.go"]), ev(exprs["transform_amd64.s"]), ev(exprs["transform_noasm.go"])
		if a != s || a == n {
			bad += fmt.Sprintf(" %v: decl=%v asm=%v noasm=%v;", tags, a, s, n)
		}
	}
	r.Check(bad == "", "C20.build-tags.complementary", "pkg/curl", "over all 8 assignments of {amd64, gc, purego}: the Go declaration and the .s file are selected together, and exactly one of (assembly, noasm) provides transform%s", bad)
}

func c20Wiring(c *Ctx, purego bool) {
	r := c.R
	// Curl.transform: four distinct buffers, result copied from the to pair
	cm, cp, cg := curlPermFns(c)
	if f := cm; f != nil {
		b := ana.NewBuilder(c.P, f)
		ok := false
		if f.Signature.Recv() == nil {
			// a plain function handed the state arrays: analysed from its calls in Absorb / Squeeze, parameters bound to
			// the arguments (which must be the receiver's l and h at every call)
			okArgs, n := true, 0
			for _, caller := range []string{"Curl.Absorb", "Curl.Squeeze"} {
				cf := c.P.Func("pkg/curl", caller)
				if cf == nil {
					continue
				}
				cb := ana.NewBuilder(c.P, cf)
				for _, ci := range ana.Calls(cf) {
					if ci.Common().StaticCallee() != f {
						continue
					}
					n++
					call := cb.CallTermAt(ci)
					fieldOfRecv := func(v ssa.Value, i int) bool {
						fa, isFA := v.(*ssa.FieldAddr)
						return isFA && fa.Field == i && len(cf.Params) > 0 && fa.X == cf.Params[0]
					}
					as := ci.Common().Args
					if call == nil || len(as) != 2 || len(f.Params) != 2 || !fieldOfRecv(as[0], 0) || !fieldOfRecv(as[1], 1) {
						okArgs = false
					} else {
						recv := &ana.Term{Op: "param", Idx: 0, V: cf.Params[0]}
						b = ana.NewBuilder(c.P, f)
						b.Bind = map[*ssa.Parameter]*ana.Term{
							f.Params[0]: {Op: "faddr", Name: "#0", Args: []*ana.Term{recv}},
							f.Params[1]: {Op: "faddr", Name: "#1", Args: []*ana.Term{recv}},
						}
					}
				}
			}
			if !okArgs || n == 0 {
				b = ana.NewBuilder(c.P, f)
			}
		}
		for _, ci := range ana.Calls(f) {
			if ci.Common().StaticCallee() != nil && ci.Common().StaticCallee() == cp {
				t := b.CallTermAt(ci)
				_, ok = ana.Match("call<*>(alloc<[729]uint>, alloc<[729]uint>, faddr<#0>(p0), faddr<#1>(p0))", t)
				a0, a1 := ci.Common().Args[0], ci.Common().Args[1]
				ok = ok && a0 != a1
				// copies back: c.l = *ltmp ; c.h = *htmp
				var cl, ch bool
				for _, blk := range f.Blocks {
					for _, ins := range blk.Instrs {
						if st, isSt := ins.(*ssa.Store); isSt && ana.InstrDominates(ci, st) {
							at := stripObj(b.Of(st.Addr, st))
							if ld, isLd := st.Val.(*ssa.UnOp); isLd {
								if at.Is("faddr", "#0") && ld.X == a0 {
									cl = true
								}
								if at.Is("faddr", "#1") && ld.X == a1 {
									ch = true
								}
							}
						}
					}
				}
				ok = ok && cl && ch
				if !ok {
					// the other way round: the state is copied into two fresh arrays that serve as the from pair, and the
					// permutation writes straight into l, h (the result of an odd number of rounds is in the to pair; a
					// round only reads the from pair and writes every word of the to pair — C20.schedule.*)
					_, okB := ana.Match("call<*>(faddr<#0>(p0), faddr<#1>(p0), obj(alloc<[729]uint>, store(self, load(faddr<#0>(p0)))), obj(alloc<[729]uint>, store(self, load(faddr<#1>(p0)))))", t)
					ok = okB && ci.Common().Args[2] != ci.Common().Args[3]
				}
			}
		}
		r.Check(ok, "C20.rounds.call-site", c.P.Pos(f.Pos()), "Curl.transform passes two fresh arrays as the to pair and its own l, h as the from pair (four distinct objects) and copies the to pair back into l, h — or copies l, h into two fresh arrays used as the from pair and transforms straight into l, h")
	}
	if purego || c.P.Cfg.GOARCH != "" && c.P.Cfg.GOARCH != "amd64" {
		f := cp
		ok := f != nil && f.Blocks != nil && cg != nil && cg != cp
		if ok {
			b := ana.NewBuilder(c.P, f)
			n := 0
			for _, ci := range ana.Calls(f) {
				n++
				_, m := ana.Match("call<"+cg.String()+">(p0, p1, p2, p3)", b.CallTermAt(ci))
				ok = ok && m
			}
			ok = ok && n == 1 && globalsTouched(f) == 0
			// … and does nothing else: no store, no branch (a fix-up after the call would overwrite the result)
			for _, blk := range f.Blocks {
				for _, ins := range blk.Instrs {
					switch ins.(type) {
					case *ssa.Store, *ssa.If, *ssa.MapUpdate, *ssa.Send, *ssa.Go, *ssa.Defer, *ssa.Panic:
						ok = false
					}
				}
			}
			ok = ok && len(f.Blocks) == 1
		}
		r.Check(ok, "C20.build-tags.noasm-delegates", "pkg/curl/transform_noasm.go", "without assembly, transform(lto,hto,lfrom,hfrom) = transformGeneric(lto,hto,lfrom,hfrom) and touches no package-level state")
	}
}
