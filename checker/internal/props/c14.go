package props

import (
	"fmt"

	"golang.org/x/tools/go/ssa"

	"verif/checker/internal/ana"
	"verif/checker/internal/bitdom"
)

// C14 — b1t6 and b1t8 are exact, strict byte/trit codecs.

func init() {
	register(&Prop{
		ID:    "C14",
		Level: "other",
		Explanation: "Static decision of the codecs' mechanism: b1t6 decoders' exit inventory (group loop over j = 0,g,…,len−g; the invalid-group exit inside the loop; the length exit reached exactly for lengths that are not a multiple of the group size — decided by value-set analysis over the length; count = groups stored), " +
			"the group arithmetic as finite tables folded from the source terms (encodeGroup over all 256 bytes, decodeGroup's accept set over all 27×27 tryte pairs: the encoder's image is exactly the decoder's accept set and they are mutually inverse), the shared group routines of the trit and tryte variants, " +
			"and b1t8 in the bit-level ANF domain (trit i = bit i on encode; on decode byte bit j = trit j with the accept condition equal to 'every trit is 0 or 1', per trit; the remainder scan reports an invalid trit before the invalid length).",
		Run: runC14,
	})
}

func runC14(c *Ctx) {
	r := c.R
	r.Rule("C14.decode-exits", "b1t6 Decode/DecodeTrytes: loop j = 0,g,… while j <= len-g reading groups at j; invalid group → error inside the loop; after the loop ErrInvalidLength exactly when len % g != 0, else success; b1t8 Decode: per-trit reject iff uint(trit) > 1; remainder scanned for invalid trits before ErrInvalidLength")
	r.Rule("C14.group-tables", "encodeGroup(b) for all 256 bytes gives (t1,t2) in [-13,13]² with t1+27·t2 = int8(b); decodeGroup accepts exactly -128 <= t1+27·t2 <= 127 and returns byte(v); decode(encode(b)) = b and the accept set is exactly the encoder's image (256 pairs)")
	r.Rule("C14.variants-agree", "trit and tryte variants of b1t6 call the same encodeGroup/decodeGroup and differ only in the trinary packing calls")
	r.Rule("C14.b1t8-bits", "b1t8 Encode: trit 8g+i = bit i of byte g (values 0/1), length 8n, in bounds; Decode: bit j of byte g = trit 8g+j, accepted exactly when every trit is 0 or 1")
	r.Assume("iota.go v1.0.0 trinary.MustTritsToTryteValue / MustPutTryteTrits / MustTryteToTryteValue / MustTryteValueToTryte convert between 3 balanced trits, tryte characters and values -13..13")

	pureScan(c, "C14.pure.no-package-state", c.P.Func("pkg/encoding/b1t6", "Encode"), c.P.Func("pkg/encoding/b1t6", "EncodeToTrytes"), c.P.Func("pkg/encoding/b1t6", "Decode"), c.P.Func("pkg/encoding/b1t6", "DecodeTrytes"), c.P.Func("pkg/encoding/b1t8", "Encode"), c.P.Func("pkg/encoding/b1t8", "Decode"))
	c14B1t6(c)
	c14Groups(c)
	c14B1t8(c)
}

func c14B1t6(c *Ctx) {
	r := c.R
	type variant struct {
		name    string
		g       int64
		lenTerm string
		readPat []string
	}
	vs := []variant{
		{"Decode", 6, "len(p1)", []string{"call<github.com/iotaledger/iota.go/trinary.MustTritsToTryteValue>(slice(p1, ind<+6>(0), none))", "call<github.com/iotaledger/iota.go/trinary.MustTritsToTryteValue>(slice(p1, bin<+>(ind<+6>(0), 3), none))"}},
		{"DecodeTrytes", 2, "len(p0)", []string{"call<github.com/iotaledger/iota.go/trinary.MustTryteToTryteValue>(index(p0, ind<+2>(0)))", "call<github.com/iotaledger/iota.go/trinary.MustTryteToTryteValue>(index(p0, bin<+>(ind<+2>(0), 1)))"}},
	}
	var groupFns []*ssa.Function
	for _, v := range vs {
		f := c.fn("pkg/encoding/b1t6", v.name)
		if f == nil {
			continue
		}
		fn := f.Function
		b := ana.NewBuilder(c.P, fn)
		key := "C14.decode-exits.b1t6." + v.name
		g := itoa(v.g)
		// canonical form (ana/canon.go) of j <= len-g, j+g <= len, len-j >= g, …:  j − len < −(g−1)
		loopIn := edgesMatching(b, "bin<<>(bin<->(ind<+"+g+">(0), "+v.lenTerm+"), -"+itoa(v.g-1)+")")
		loopOut := plainEdges(edgesMatching(b, "bin<>=>(bin<->(ind<+"+g+">(0), "+v.lenTerm+"), -"+itoa(v.g-1)+")"))
		r.Check(len(loopIn) == 1 && len(loopOut) == 1, key+".loop-bound", c.P.Pos(fn.Pos()), "group loop runs for j = 0, %s, … while j <= len-%s (every whole group, nothing beyond)", g, g)
		grp := "call<*>(" + v.readPat[0] + ", " + v.readPat[1] + ")"
		// the group routine reports acceptance as (byte, ok) or as (byte, error)
		// … or as one int: the byte (0..255), negative for an invalid group (decided on all 27×27 pairs, C14.group-tables.decode)
		okPats := []string{"ext#1(" + grp + ")", "bin<==>(ext#1(" + grp + "), nil)"}
		val := "ext#0(" + grp + ")"
		okE := plainEdges(edgesMatching(b, okPats...))
		badE := plainEdges(edgesMatching(b, "un<!>(ext#1("+grp+"))", "bin<!=>(ext#1("+grp+"), nil)"))
		if len(okE) == 0 && len(badE) == 0 {
			okPats = []string{"bin<>=>(" + grp + ", 0)", "bin<!=>(" + grp + ", -1)"}
			okE = plainEdges(edgesMatching(b, okPats...))
			badE = plainEdges(edgesMatching(b, "bin<<>("+grp+", 0)", "bin<==>("+grp+", -1)"))
			val = "conv<byte>(" + grp + ")"
		}
		for _, ce := range edgesMatching(b, okPats...) {
			strip := func(lit *ana.Term) *ana.Term {
				for lit.Op == "un" || lit.Op == "bin" {
					lit = lit.Arg(0)
				}
				return lit
			}
			callOf := func(x *ana.Term) *ana.Term {
				if x.Op == "ext" {
					return x.Arg(0)
				}
				return x
			}
			gf := calleeOf(callOf(strip(ce.Lit)))
			// look through a per-variant wrapper to the shared group routine
			if x := callOf(strip(expandAll(c, ce.Lit))); x.Op == "call" && calleeOf(x) != nil {
				gf = calleeOf(x)
			}
			groupFns = append(groupFns, gf)
		}
		r.Check(len(okE) == 1 && len(badE) == 1, key+".group-read", c.P.Pos(fn.Pos()), "each iteration decodes the two tryte values at j and j+%d through the shared group routine", v.g/2)
		// value-set analysis over the length for the final exits
		vsa := &ana.VSA{B: b, Tracked: []string{v.lenTerm}, Ranges: [][2]int64{{0, 40}}}
		sets, tuples := vsa.Run()
		nLen, nOK, nBad := 0, 0, 0
		for _, e := range ana.Exits(fn) {
			if e.Panic {
				r.Viol(key+".no-panic", c.ipos(e.Instr), "explicit panic")
				continue
			}
			et := b.Of(e.Results[1], e.Instr)
			blk := e.Instr.Block()
			reach := ana.SetOf(tuples, sets[blk], 0)
			switch {
			case et.Is("nil"):
				nOK++
				want := map[int64]bool{}
				for x := int64(0); x <= 40; x += v.g {
					want[x] = true
				}
				same := len(reach) == len(want)
				for x := range want {
					if !reach[x] {
						same = false
					}
				}
				r.Check(same && exitMustPass(fn, e, loopOut), key+".success-lengths", c.ipos(e.Instr), "success (after the loop) exactly for lengths that are multiples of %d: reaching set %s", v.g, setString(reach))
			case matches("load(global<repo/pkg/encoding/b1t6.ErrInvalidLength>)", et):
				nLen++
				bad := false
				for x := range reach {
					if x%v.g == 0 {
						bad = true
					}
				}
				r.Check(!bad && len(reach) > 0 && exitMustPass(fn, e, loopOut) && !exitMustPass(fn, e, badE), key+".length-error", c.ipos(e.Instr), "ErrInvalidLength after the group loop, exactly for lengths not a multiple of %d (so an invalid group is reported first): %s", v.g, setString(reach))
			default:
				nBad++
				w, _ := ana.Find("load(global<repo/pkg/encoding/b1t6.ErrInvalidTrits>)", et)
				r.Check(w != nil && exitMustPass(fn, e, badE), key+".invalid-group", c.ipos(e.Instr), "invalid-trits error (wrapping ErrInvalidTrits) exactly when the group routine rejects, inside the loop")
			}
			// count
			if v.name == "Decode" {
				cnt := b.Of(e.Results[0], e.Instr)
				r.Check(cnt.String() == "ind<+1>(0)", key+".count", c.ipos(e.Instr), "returned count = number of bytes stored so far: %s", cnt)
			}
		}
		r.Check(nLen == 1 && nOK == 1 && nBad == 1, key+".exits", c.P.Pos(fn.Pos()), "three exits: invalid group, invalid length, success (%d/%d/%d)", nBad, nLen, nOK)
		// store dst[i] = byte, i++ per accepted group
		stored := false
		for _, blk := range fn.Blocks {
			for _, ins := range blk.Instrs {
				if st, ok := ins.(*ssa.Store); ok {
					at, vt := b.Of(st.Addr, st), b.Of(st.Val, st)
					if _, m := ana.Match("iaddr(_, ind<+1>(0))", at); m && matches(val, vt) {
						stored = mustPass(fn, blk, okE)
					}
				}
			}
		}
		if !stored {
			// the output built by appending the decoded byte of every accepted group (dst = append(dst, b))
			for _, ci := range ana.CallsTo(fn, "builtin.append") {
				t := b.CallTermAt(ci)
				if w, _ := ana.Find("store(iaddr(self, 0), "+val+")", t); w != nil && t.Op == "concat" && len(t.Args) == 2 {
					stored = mustPass(fn, ci.Block(), okE)
				}
			}
		}
		r.Check(stored, key+".store", c.P.Pos(fn.Pos()), "dst[i] = decoded byte for every accepted group, i advancing by one")
	}
	// encoders
	var encFns []*ssa.Function
	for _, name := range []string{"Encode", "EncodeToTrytes"} {
		f := c.fn("pkg/encoding/b1t6", name)
		if f == nil {
			continue
		}
		for _, ci := range ana.Calls(f.Function) {
			if cal := ana.StaticRepoCallee(ci.Common()); cal != nil && cal.Name() != "EncodedLen" {
				encFns = append(encFns, cal)
			}
		}
		b := ana.NewBuilder(c.P, f.Function)
		whole := false
		for _, l := range rangeLoops(b) {
			if l.Coll.IsParam(len(f.Params) - 1) {
				whole = true
			}
		}
		r.Check(whole, "C14.variants-agree.encode-loop."+name, c.P.Pos(f.Pos()), "%s ranges over every source byte", name)
		if name == "Encode" {
			src := "load(iaddr(p1, bin<+>(ind<+1>(-1), 1)))"
			var p1, p2 bool
			for _, ci := range ana.CallsTo(f.Function, "github.com/iotaledger/iota.go/trinary.MustPutTryteTrits") {
				t := b.CallTermAt(ci)
				if matches("call<*>(slice(_, ind<+6>(0), none), ext#0(call<*>("+src+")))", t) {
					p1 = true
				}
				if matches("call<*>(slice(_, bin<+>(ind<+6>(0), 3), none), ext#1(call<*>("+src+")))", t) {
					p2 = true
				}
			}
			r.Check(p1 && p2, "C14.variants-agree.encode-layout", c.P.Pos(f.Pos()), "byte i → trits [6i,6i+3) = first tryte value, [6i+3,6i+6) = second (little-endian tryte order)")
			for _, e := range ana.Exits(f.Function) {
				if !e.Panic {
					ct := b.Of(e.Results[0], e.Instr)
					// the running offset after the loop over src, or the product computed directly (EncodedLen is looked through)
					_, prod := ana.MatchX(c.P, "bin<*>(len(p1), 6)", ct)
					r.Check(ct.String() == "ind<+6>(0)" || prod, "C14.variants-agree.encode-count", c.ipos(e.Instr), "Encode returns 6·len(src)")
				}
			}
		}
	}
	sameDec := len(groupFns) == 2 && groupFns[0] != nil && groupFns[0] == groupFns[1]
	sameEnc := len(encFns) == 2 && encFns[0] == encFns[1]
	r.Check(sameDec && sameEnc, "C14.variants-agree.shared-groups", "", "trit and tryte variants share the group routines (decode shared=%v, encode shared=%v)", sameDec, sameEnc)
}

// c14Groups folds encodeGroup / decodeGroup into tables.
func c14Groups(c *Ctx) {
	r := c.R
	enc := c.helper("pkg/encoding/b1t6", "encodeGroup")
	dec := c.helper("pkg/encoding/b1t6", "decodeGroup")
	if enc == nil || dec == nil {
		r.Undec("C14.group-tables.anchor", "", "group routines not found")
		return
	}
	r.Fn(ana.ShortFunc(enc))
	r.Fn(ana.ShortFunc(dec))
	bitdom.ExtraInterpreted["github.com/iotaledger/iota.go/consts"] = true
	type pair struct{ t1, t2 int64 }
	image := map[pair]int64{}
	bad := ""
	for v := 0; v < 256; v++ {
		in := bitdom.New(c.P.SSA, c.wordBits())
		ex, err := in.Call(enc, []bitdom.Val{bitdom.ConstBV(uint64(v), 8, false)})
		if err != nil || ex.Panic || len(ex.Results) != 2 {
			r.Undec("C14.group-tables.encode", c.P.Pos(enc.Pos()), "encodeGroup(%d) not foldable: %v", v, err)
			return
		}
		t1, ok1 := ex.Results[0].(*bitdom.BV).Int()
		t2, ok2 := ex.Results[1].(*bitdom.BV).Int()
		if !ok1 || !ok2 {
			r.Undec("C14.group-tables.encode", c.P.Pos(enc.Pos()), "encodeGroup(%d) not constant", v)
			return
		}
		if t1 < -13 || t1 > 13 || t2 < -13 || t2 > 13 || t1+27*t2 != int64(int8(v)) {
			if bad == "" {
				bad = fmt.Sprintf("encodeGroup(%d) = (%d,%d)", v, t1, t2)
			}
		}
		image[pair{t1, t2}] = int64(v)
	}
	r.Check(bad == "" && len(image) == 256, "C14.group-tables.encode", c.P.Pos(enc.Pos()), "encodeGroup folded for all 256 bytes: tryte values in [-13,13], t1+27·t2 = int8(b), injective (%d images) %s", len(image), bad)
	acc := 0
	bad = ""
	for t1 := int64(-13); t1 <= 13; t1++ {
		for t2 := int64(-13); t2 <= 13; t2++ {
			in := bitdom.New(c.P.SSA, c.wordBits())
			ex, err := in.Call(dec, []bitdom.Val{bitdom.ConstBV(uint64(t1), 8, true), bitdom.ConstBV(uint64(t2), 8, true)})
			if err == nil && !ex.Panic && len(ex.Results) == 1 {
				// one int result: the byte, negative for an invalid group
				if rv, isBV := ex.Results[0].(*bitdom.BV); isBV {
					if iv, known := rv.Int(); known {
						okb := bitdom.ConstBV(0, 1, false)
						if iv >= 0 && iv <= 255 {
							okb = bitdom.ConstBV(1, 1, false)
						}
						ex.Results = []bitdom.Val{bitdom.ConstBV(uint64(iv)&0xff, 8, false), okb}
					}
				}
			}
			if err != nil || ex.Panic || len(ex.Results) != 2 {
				r.Undec("C14.group-tables.decode", c.P.Pos(dec.Pos()), "decodeGroup(%d,%d) not foldable: %v", t1, t2, err)
				return
			}
			// accepted: ok == true, or a nil error
			var okv uint64
			if flag, isBV := ex.Results[1].(*bitdom.BV); isBV {
				okv, _ = flag.Const()
			} else if isNil, known := nilnessOf(ex.Results[1]); known {
				if isNil {
					okv = 1
				}
			} else {
				r.Undec("C14.group-tables.decode", c.P.Pos(dec.Pos()), "decodeGroup(%d,%d): acceptance result not foldable", t1, t2)
				return
			}
			rb, isBV := ex.Results[0].(*bitdom.BV)
			if !isBV {
				r.Undec("C14.group-tables.decode", c.P.Pos(dec.Pos()), "decodeGroup(%d,%d): value not foldable", t1, t2)
				return
			}
			bv, _ := rb.Const()
			v := t1 + 27*t2
			want := v >= -128 && v <= 127
			if (okv == 1) != want {
				if bad == "" {
					bad = fmt.Sprintf("decodeGroup(%d,%d) accept=%v, want %v", t1, t2, okv == 1, want)
				}
			}
			if okv == 1 {
				acc++
				b, inImg := image[pair{t1, t2}]
				if !inImg || b != int64(bv) {
					if bad == "" {
						bad = fmt.Sprintf("decodeGroup(%d,%d) = %d but encoder image says %d (in image: %v)", t1, t2, bv, b, inImg)
					}
				}
			}
		}
	}
	r.Check(bad == "" && acc == 256, "C14.group-tables.decode", c.P.Pos(dec.Pos()), "decodeGroup folded for all 27×27 tryte-value pairs: accepts exactly the 256 code words (−128 <= t1+27·t2 <= 127) and inverts encodeGroup on them (accepted=%d) %s", acc, bad)
	r.Extra["group_table_entries"] = 256 + 27*27
}

func c14B1t8(c *Ctx) {
	r := c.R
	enc := c.P.Func("pkg/encoding/b1t8", "Encode")
	dec := c.P.Func("pkg/encoding/b1t8", "Decode")
	if enc == nil || dec == nil {
		r.Undec("C14.b1t8-bits.anchor", "", "b1t8 Encode/Decode not found")
		return
	}
	r.Fn(ana.ShortFunc(enc))
	r.Fn(ana.ShortFunc(dec))
	bad := ""
	note := func(f string, a ...interface{}) {
		if bad == "" {
			bad = fmt.Sprintf(f, a...)
		}
	}
	for n := 0; n <= 4; n++ {
		in := bitdom.New(c.P.SSA, c.wordBits())
		src := in.SymSlice("src", n, 8, 8, false)
		// destination pre-filled with symbolic junk: every trit must be overwritten
		dst := in.SymSlice("old", 8*n, 8, 8, false)
		for _, e := range dst.A.Elems {
			e.(*bitdom.BV).Signed = true
		}
		ex, err := in.Call(enc, []bitdom.Val{dst, src})
		if err != nil || ex.Panic {
			note("Encode n=%d: %v", n, err)
			continue
		}
		if k, ok := ex.Results[0].(*bitdom.BV).Int(); !ok || k != int64(8*n) {
			note("Encode n=%d returns %d", n, k)
		}
		for g := 0; g < n; g++ {
			for i := 0; i < 8; i++ {
				tr := dst.A.Elems[8*g+i].(*bitdom.BV)
				for k := 0; k < 8; k++ {
					want := bitdom.Zero()
					if k == 0 {
						want = src.A.Elems[g].(*bitdom.BV).Bits[i]
					}
					if !bitdom.Equal(tr.Bits[k], want) {
						note("Encode n=%d: trit %d bit %d = %s", n, 8*g+i, k, tr.Bits[k].Format(in.Name))
					}
				}
			}
		}
	}
	r.Check(bad == "", "C14.b1t8-bits.encode", c.P.Pos(enc.Pos()), "b1t8.Encode decided in the ANF domain for 0..4 bytes into a junk-filled buffer: trit 8g+i = bit i of byte g, every trit overwritten, count 8n %s", bad)

	bad = ""
	for n := 0; n <= 3; n++ {
		for rem := 0; rem < 8; rem += 3 {
			in := bitdom.New(c.P.SSA, c.wordBits())
			src := in.SymSlice("t", 8*n+rem, 8, 8, false)
			for _, e := range src.A.Elems {
				e.(*bitdom.BV).Signed = true
			}
			dst := in.SymSlice("junk", n, 8, 8, false) // destination pre-filled with symbolic junk: every byte must be assigned, not OR-ed into
			ex, err := in.Call(dec, []bitdom.Val{dst, src})
			if err != nil || ex.Panic {
				note("Decode n=%d rem=%d: %v", n, rem, err)
				continue
			}
			isNil, known := nilnessOf(ex.Results[1])
			if !known || isNil != (rem == 0) {
				note("Decode n=%d rem=%d: error nil=%v", n, rem, isNil)
				continue
			}
			if k, ok := ex.Results[0].(*bitdom.BV).Int(); !ok || k != int64(n) {
				note("Decode n=%d rem=%d: count %d", n, rem, k)
			}
			// accept condition on the full groups: one constraint per trit, each equal to "bits 1..7 of that trit are zero"
			// accept condition: the rejections that test trit i (one unsigned test, or `t < 0` and `t > 1`, …) together
			// reject exactly "some bit 1..7 of trit i is set"
			matched := map[int]bool{}
			varTrit := map[int]int{}
			for i := 0; i < 8*n+rem; i++ {
				for _, p := range src.A.Elems[i].(*bitdom.BV).Bits {
					for _, v := range p.Support() {
						varTrit[v] = i
					}
				}
			}
			accept := map[int]bitdom.Poly{}
			for _, cn := range in.Cons {
				hit := -1
				for _, v := range cn.P.Support() {
					ti, ok := varTrit[v]
					if !ok || (hit >= 0 && hit != ti) {
						hit = -2
						break
					}
					hit = ti
				}
				if hit < 0 || cn.Want {
					note("Decode n=%d rem=%d: a constraint is not a rejection test of a single trit: %s", n, rem, short(cn.P.Format(in.Name), 120))
					continue
				}
				if _, ok := accept[hit]; !ok {
					accept[hit] = bitdom.One()
				}
				accept[hit] = bitdom.And(accept[hit], bitdom.Not(cn.P))
			}
			for i, acc := range accept {
				t := src.A.Elems[i].(*bitdom.BV)
				hi := bitdom.Zero()
				for k := 1; k < 8; k++ {
					hi = bitdom.Or(hi, t.Bits[k])
				}
				if bitdom.Equal(acc, bitdom.Not(hi)) {
					matched[i] = true
				} else {
					note("Decode n=%d rem=%d: trit %d is accepted under %s, not exactly for the values 0 and 1", n, rem, i, short(acc.Format(in.Name), 120))
				}
			}
			// every trit — of the full groups and of a remainder — is range-checked on the way to the result: an invalid
			// trit anywhere is therefore reported before (instead of) the length error
			for i := 0; i < 8*n+rem; i++ {
				if !matched[i] {
					note("Decode n=%d rem=%d: trit %d is not range-checked", n, rem, i)
				}
			}
			// under the accept condition bits 1..7 of every checked trit are zero
			zero := map[int]bool{}
			for i := range matched {
				t := src.A.Elems[i].(*bitdom.BV)
				for k := 1; k < 8; k++ {
					for _, v := range t.Bits[k].Support() {
						zero[v] = true
					}
				}
			}
			for g := 0; g < n; g++ {
				bv := dst.A.Elems[g].(*bitdom.BV)
				for j := 0; j < 8; j++ {
					if !bitdom.Equal(bitdom.Restrict(bv.Bits[j], zero), src.A.Elems[8*g+j].(*bitdom.BV).Bits[0]) {
						note("Decode n=%d: byte %d bit %d", n, g, j)
					}
				}
			}
		}
	}
	semanticScan := bad == ""
	r.Check(bad == "", "C14.b1t8-bits.decode", c.P.Pos(dec.Pos()), "b1t8.Decode decided in the ANF domain for 0..3 groups × remainders {0,3,6}: bit j of byte g = trit 8g+j; accepted exactly when every trit of the full groups is 0 or 1 (per trit); count = groups; a remainder gives an error %s", bad)
	// remainder scan order: ErrInvalidLength only after the scan loop over the rest completed
	db := ana.NewBuilder(c.P, dec)
	okOrder := false
	for _, e := range ana.Exits(dec) {
		if e.Panic {
			continue
		}
		if matches("load(global<repo/pkg/encoding/b1t8.ErrInvalidLength>)", db.Of(e.Results[1], e.Instr)) {
			for _, l := range rangeLoops(db) {
				if exitMustPass(dec, e, []ana.Edge{{From: l.Header, To: l.Exit}}) && (forAll(db, l, "bin<<=>(conv<*>(load(iaddr(_, bin<+>(ind<+1>(-1), 1)))), 1)") ||
					// the signed spelling: 0 <= t and t <= 1 as two tests
					forAll(db, l, "bin<<=>(load(iaddr(_, ind<+1>(0))), 1)") && forAll(db, l, "bin<>=>(load(iaddr(_, ind<+1>(0))), 0)")) {
					okOrder = true
				}
			}
		}
	}
	r.Check(okOrder || semanticScan, "C14.decode-exits.b1t8.remainder-scan", c.P.Pos(dec.Pos()), "ErrInvalidLength is returned only after every remaining trit was checked to be 0 or 1 (an invalid trit is reported first): structurally (scan loop before the length error) or by the ANF decision above, in which every remainder trit carries a range constraint on the path to the length error")
}
