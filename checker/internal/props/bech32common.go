package props

import (
	"fmt"
	"strings"

	"golang.org/x/tools/go/ssa"

	"verif/checker/internal/ana"
	"verif/checker/internal/bitdom"
)

const bip173Charset = "qpzry9x8gf2tvdw0s3jn54khce6mua7l"

var bip173Gen = []uint64{0x3b6a57b2, 0x26508e6d, 0x1ea119fa, 0x3d4233dd, 0x2a1462b3}

// charsetTables extracts the enc / decMap tables of the package-level charset
// by abstract interpretation of the package initialiser (constant folding of
// the constructor; no symbolic data is involved).
func charsetTables(c *Ctx) (enc []uint64, dec []uint64, err error) {
	in := bitdom.New(c.P.SSA, c.wordBits())
	pk := c.P.Pkg("pkg/bech32")
	g := c.gvar("pkg/bech32", "charset")
	ok := g != nil
	if !ok {
		return nil, nil, fmt.Errorf("package variable charset not found")
	}
	// force initialisation
	fn := pk.Func("init")
	if fn == nil {
		return nil, nil, fmt.Errorf("no package initialiser")
	}
	if _, e := in.Call(fn, nil); e != nil {
		return nil, nil, fmt.Errorf("initialiser not foldable: %v", e)
	}
	cell := in.Globals[g]
	if cell == nil {
		return nil, nil, fmt.Errorf("charset not initialised")
	}
	p, ok := cell.V.(*bitdom.Ptr)
	if !ok || p.Cell == nil {
		return nil, nil, fmt.Errorf("charset is not a pointer to a struct: %T", cell.V)
	}
	st, ok := p.Cell.V.(*bitdom.Struct)
	if !ok || len(st.Fields) != 2 {
		return nil, nil, fmt.Errorf("charset struct shape changed")
	}
	get := func(v bitdom.Val) ([]uint64, error) {
		a, ok := v.(*bitdom.Array)
		if !ok {
			return nil, fmt.Errorf("table is not an array")
		}
		var out []uint64
		for _, e := range a.Elems {
			bv, ok := e.(*bitdom.BV)
			if !ok {
				return nil, fmt.Errorf("table entry unknown")
			}
			x, ok := bv.Const()
			if !ok {
				return nil, fmt.Errorf("table entry not constant")
			}
			out = append(out, x)
		}
		return out, nil
	}
	// identify fields by length: enc [32]byte, decMap [256]uint8
	for _, f := range st.Fields {
		t, e := get(f)
		if e != nil {
			return nil, nil, e
		}
		switch len(t) {
		case 32:
			enc = t
		case 256:
			dec = t
		}
	}
	if enc == nil || dec == nil {
		return nil, nil, fmt.Errorf("enc/decMap tables not found")
	}
	return enc, dec, nil
}

// asciiProver decides whether a string value is provably ASCII at a program point.
type asciiProver struct {
	c       *Ctx
	entries map[*ssa.Function]bool // API entry points: proofs must be local
	encOK   bool                   // all entries of the charset enc table are ASCII
	why     []string
	depth   int
	callers map[*ssa.Function][]ssa.CallInstruction
}

func newASCIIProver(c *Ctx, rel string, entries ...*ssa.Function) *asciiProver {
	p := &asciiProver{c: c, entries: map[*ssa.Function]bool{}, callers: map[*ssa.Function][]ssa.CallInstruction{}}
	for _, e := range entries {
		p.entries[e] = true
	}
	for _, fn := range c.P.RepoFuncs(rel) {
		for _, ci := range ana.Calls(fn) {
			if cal := ana.StaticRepoCallee(ci.Common()); cal != nil {
				p.callers[cal] = append(p.callers[cal], ci)
			}
		}
	}
	return p
}

func (p *asciiProver) note(format string, a ...interface{}) {
	p.why = append(p.why, fmt.Sprintf(format, a...))
}

// charGuardOK: does helper fn(rune) bool accept only values below 128?
func runeHelperASCII(c *Ctx, fn *ssa.Function) bool {
	if fn == nil || len(fn.Params) != 1 {
		return false
	}
	b := ana.NewBuilder(c.P, fn)
	v := &ana.VSA{B: b, Tracked: []string{"p0"}, Ranges: [][2]int64{{0, 0x110000 / 4096}}} // coarse first
	_ = v
	// exact: evaluate the return value for every rune class boundary 0..300 and a few large values
	vs := &ana.VSA{B: b, Tracked: []string{"p0"}, Ranges: [][2]int64{{0, 400}}}
	sets, tuples := vs.Run()
	for _, e := range ana.Exits(fn) {
		if e.Panic {
			return false
		}
		for idx := range sets[e.Instr.Block()] {
			x := ana.TupleOf(tuples, idx)[0]
			val, ok := evalReturnBool(vs, fn, e, []int64{x})
			if !ok {
				return false
			}
			if val && x >= 128 {
				return false
			}
		}
	}
	// monotone upper guard: the accept set over 0..400 must be bounded above by a `<= k` test with k < 128 — checked by requiring rejection at 128..400 (done) and a comparison against a constant < 128 in the function
	hasUpper := false
	for _, ce := range b.CondEdges() {
		if op, l, r, ok := ana.IsCmp(ce.Lit); ok && l.IsParam(0) {
			if k, isInt := r.Int(); isInt && k < 128 && (op == "<=" || op == "<") {
				hasUpper = true
			}
		}
	}
	for _, e := range ana.Exits(fn) {
		if !e.Panic && len(e.Results) == 1 {
			t := b.Of(e.Results[0], e.Instr)
			t.Walk(func(s *ana.Term) bool {
				if op, l, r, ok := ana.IsCmp(s); ok && l.IsParam(0) {
					if k, isInt := r.Int(); isInt && k < 128 && (op == "<=" || op == "<") {
						hasUpper = true
					}
				}
				return true
			})
		}
	}
	return hasUpper
}

// evalReturnBool evaluates a boolean return value (possibly a phi of short-circuit blocks) for a tuple, using block reachability.
func evalReturnBool(v *ana.VSA, fn *ssa.Function, e ana.Exit, t []int64) (bool, bool) {
	res := e.Results[0]
	if phi, ok := res.(*ssa.Phi); ok {
		// choose the incoming edge whose predecessor is reachable for this tuple and whose branch leads here
		one := &ana.VSA{B: v.B, Tracked: v.Tracked, Ranges: [][2]int64{{t[0], t[0]}}}
		sets, _ := one.Run()
		for i, pred := range phi.Block().Preds {
			if len(sets[pred]) == 0 {
				continue
			}
			// pred must actually branch/jump to the phi block for this tuple
			if ifi, isIf := pred.Instrs[len(pred.Instrs)-1].(*ssa.If); isIf {
				cv, ok := one.Eval(ifi.Cond, t)
				if !ok {
					return false, false
				}
				target := pred.Succs[1]
				if cv != 0 {
					target = pred.Succs[0]
				}
				if target != phi.Block() {
					continue
				}
			}
			x, ok := one.Eval(phi.Edges[i], t)
			return x != 0, ok
		}
		return false, false
	}
	x, ok := v.Eval(res, t)
	return x != 0, ok
}

// guardedWhole reports whether `at` is only reached after a loop over the whole
// of param (index or rune form) that continues only for ASCII elements.
func (p *asciiProver) guardedWhole(fn *ssa.Function, param *ssa.Parameter, at ssa.Instruction) bool {
	b := ana.NewBuilder(p.c.P, fn)
	pi := -1
	for i, q := range fn.Params {
		if q == param {
			pi = i
		}
	}
	if pi < 0 {
		return false
	}
	pn := fmt.Sprintf("p%d", pi)
	loopOK := func(b2 *ana.Builder, lp *rangeLoop) bool {
		l := *lp
		if l.Coll.String() != pn {
			return false
		}
		// predicates that imply ASCII for the element
		var pats []string
		pats = append(pats,
			"bin<<>(index("+pn+", ind<+1>(0)), 128)", "bin<<=>(index("+pn+", ind<+1>(0)), 127)",
			"bin<<>(index("+pn+", bin<+>(ind<+1>(-1), 1)), 128)",
			"bin<<>(ext#2(next(range("+pn+"))), 128)", "bin<<=>(ext#2(next(range("+pn+"))), 127)")
		ok := forAll(b2, l, pats...)
		if !ok {
			// helper predicate on the rune
			for _, ce := range b2.CondEdges() {
				// the predicate applied to each rune of the string, or to each of its bytes (a byte of a non-ASCII rune is >= 0x80)
				if _, m := ana.MatchAny(ce.Lit, "call<*>(ext#2(next(range("+pn+"))))", "call<*>(index("+pn+", ind<+1>(0)))", "call<*>(conv<rune>(index("+pn+", ind<+1>(0))))"); m {
					if h := calleeOf(ce.Lit); h != nil && runeHelperASCII(p.c, h) {
						ok = forAll(b2, l, ce.Lit.String())
					}
				}
			}
		}
		return ok
	}
	return mustPass(fn, at.Block(), scanGates(p.c, b, loopOK))
}

// rangeLoopsAll = rangeLoops plus counted loops `for i := 0; i < len(c); i++`.
func rangeLoopsAll(b *ana.Builder) []rangeLoop {
	out := rangeLoops(b)
	byHeader := map[*ssa.BasicBlock][]ana.Edge{}
	for _, e := range ana.BackEdges(b.Fn) {
		byHeader[e.To] = append(byHeader[e.To], e)
	}
	for _, ce := range b.CondEdges() {
		if !ce.Taken {
			continue
		}
		backs, ok := byHeader[ce.From]
		if !ok {
			continue
		}
		bd, ok := ana.Match("bin<<>(ind<+1>(0), len($c))", ce.Lit)
		if !ok {
			// a counted loop over the index range [0, n): its collection is written upto(n)
			nb, okN := ana.Match("bin<<>(ind<+1>(0), $n)", ce.Lit)
			if !okN {
				continue
			}
			bd = ana.Binds{"$c": &ana.Term{Op: "upto", Args: []*ana.Term{nb["$n"]}}}
		}
		blocks := map[*ssa.BasicBlock]bool{}
		for _, e := range backs {
			for k := range ana.LoopBlocks(e) {
				blocks[k] = true
			}
		}
		out = append(out, rangeLoop{Header: ce.From, Blocks: blocks, Coll: bd["$c"], BodyEntry: ce.From.Succs[0], Exit: ce.From.Succs[1], Back: backs})
	}
	return out
}

// proven reports whether string value v is ASCII whenever `at` executes.
func (p *asciiProver) proven(fn *ssa.Function, v ssa.Value, at ssa.Instruction) bool {
	p.depth++
	defer func() { p.depth-- }()
	if p.depth > 12 {
		return false
	}
	switch x := v.(type) {
	case *ssa.Const:
		if x.Value == nil {
			return true
		}
		t := ana.NewBuilder(p.c.P, fn).Of(x, nil)
		if s, ok := t.Str(); ok {
			for i := 0; i < len(s); i++ {
				if s[i] >= 128 {
					return false
				}
			}
			return true
		}
		return false
	case *ssa.Parameter:
		if p.guardedWhole(fn, x, at) {
			return true
		}
		if p.entries[fn] {
			p.note("%s: parameter %s reaches a case-folding call without a whole-string ASCII guard", fn.Name(), x.Name())
			return false
		}
		cs := p.callers[fn]
		if len(cs) == 0 {
			p.note("%s has no callers to justify parameter %s", fn.Name(), x.Name())
			return false
		}
		pi := 0
		for i, q := range fn.Params {
			if q == x {
				pi = i
			}
		}
		for _, ci := range cs {
			if !p.proven(ci.Parent(), ci.Common().Args[pi], ci) {
				p.note("call path %s -> %s", ci.Parent().Name(), fn.Name())
				return false
			}
		}
		return true
	case *ssa.Slice:
		return p.proven(fn, x.X, at)
	case *ssa.Phi:
		for _, e := range x.Edges {
			if !p.proven(fn, e, at) {
				return false
			}
		}
		return true
	case *ssa.BinOp:
		return x.Op.String() == "+" && p.proven(fn, x.X, at) && p.proven(fn, x.Y, at)
	case *ssa.Convert:
		// string(byte/rune constant)
		if c, ok := x.X.(*ssa.Const); ok && c.Value != nil {
			if k, ok := ana.NewBuilder(p.c.P, fn).Of(c, nil).Int(); ok {
				return k >= 0 && k < 128
			}
		}
		return false
	case *ssa.Call:
		name := ana.CalleeName(&x.Call)
		switch name {
		case "strings.ToLower", "strings.ToUpper":
			return p.proven(fn, x.Call.Args[0], x)
		case "(*strings.Builder).String":
			return p.builderASCII(fn, x)
		}
		if cal := ana.StaticRepoCallee(&x.Call); cal != nil {
			// every return of the callee must be ASCII by construction
			for _, e := range ana.Exits(cal) {
				if e.Panic {
					continue
				}
				if !p.provenReturn(cal, e) {
					p.note("return of %s not provably ASCII", cal.Name())
					return false
				}
			}
			return true
		}
		return false
	}
	return false
}

func (p *asciiProver) provenReturn(cal *ssa.Function, e ana.Exit) bool {
	for _, r := range e.Results {
		if !isStringType(r) {
			continue
		}
		if c, ok := r.(*ssa.Call); ok && ana.CalleeName(&c.Call) == "(*strings.Builder).String" {
			if !p.builderASCII(cal, c) {
				return false
			}
			continue
		}
		if !p.proven(cal, r, e.Instr) {
			return false
		}
	}
	return true
}

func isStringType(v ssa.Value) bool {
	return strings.HasSuffix(v.Type().Underlying().String(), "string") && v.Type().Underlying().String() == "string"
}

// builderASCII: every write into the builder is ASCII (proven string, ASCII byte constant, or a byte of the charset table).
func (p *asciiProver) builderASCII(fn *ssa.Function, strCall *ssa.Call) bool {
	b := ana.NewBuilder(p.c.P, fn)
	root := b.Root(strCall.Call.Args[0])
	for _, ci := range ana.Calls(fn) {
		cc := ci.Common()
		if len(cc.Args) == 0 || b.Root(cc.Args[0]) != root {
			continue
		}
		switch ana.CalleeName(cc) {
		case "(*strings.Builder).String", "(*strings.Builder).Grow", "(*strings.Builder).Len", "(*strings.Builder).Reset":
		case "(*strings.Builder).WriteString":
			if !p.proven(fn, cc.Args[1], ci) {
				return false
			}
		case "(*strings.Builder).WriteByte":
			t := b.Of(cc.Args[1], ci)
			if k, ok := t.Int(); ok && k >= 0 && k < 128 {
				continue
			}
			if _, ok := ana.Match("load(iaddr(faddr<#0>(p0), _))", t); ok && p.encOK {
				continue
			}
			p.note("%s: WriteByte of %s not provably ASCII", fn.Name(), short(t.String(), 80))
			return false
		default:
			p.note("%s: builder used by %s", fn.Name(), ana.CalleeName(cc))
			return false
		}
	}
	return true
}
