package props

import (
	"fmt"
	"go/types"
	"strings"

	"golang.org/x/tools/go/ssa"

	"verif/checker/internal/ana"
	"verif/checker/internal/bitdom"
)

// C19 — Network and migration addresses round-trip and parse strictly.

func init() {
	register(&Prop{
		ID:    "C19",
		Level: "other",
		Explanation: "Static decision of the address parsers' mechanism: ParseBech32's exit inventory (Bech32 and prefix errors propagated; the accept set over (version byte, payload length) computed by value-set analysis equals {(0x00,32),(0x08,20),(0x10,20)}; each accept copies the whole payload into the array of the same length), " +
			"writer/reader agreement (prefix table shared and compared with ==; each address type's Bytes() = version ‖ hash with the version its Version() returns and the parser's switch maps to), guarded indexing; " +
			"migration.Decode's gates (exact length and alphabet, prefix, suffix, both b1t6 decodes, 4-byte BLAKE2b checksum) with a closed reject list and the layout table shared with Encode. Relies on C04 for \"valid Bech32\".",
		Run: runC19,
	})
}

func runC19(c *Ctx) {
	r := c.R
	r.Rule("C19.parse-exits", "ParseBech32: bech32.Decode and ParsePrefix errors are wrapped and returned; empty payload -> version error; accept set over (version 0..255, payload length 0..60) = {(0,32),(8,20),(16,20)}; each accept copies the whole payload into the hash array; every other pair is rejected")
	r.Rule("C19.version-agree", "for each address type: Bytes() = [version] ‖ hash[:], Version() returns the same constant, the parser's switch arm for that constant builds that type and requires len == len(hash)")
	r.Rule("C19.prefix-table", "ParsePrefix compares with == against the same table Prefix.String indexes; entries are distinct valid lower-case HRPs; Bech32() = bech32.Encode(prefix.String(), addr.Bytes())")
	r.Rule("C19.no-panic", "no explicit panic reachable from ParseBech32; addrData[0] only under len(addrData) != 0")
	r.Rule("C19.migration-gates", "migration.Decode success passes: IsTrytesOfExactLength(s,81), HasPrefix TRANSFER, HasSuffix 9 after trimming, both DecodeTrytes err==nil, bytes.Equal(checksum, blake2b(addr)[:len(checksum)]); error returns only through their negations; split at EncodedLen(32)/3 = 64 trytes, the rest (8 trytes = 4 bytes) is the checksum")
	r.Rule("C19.migration-layout", "migration.Encode = Prefix ‖ b1t6(addr ‖ blake2b(addr)[0:4]) ‖ Suffix with the constants Decode tests")
	r.Assume("iota.go v1.0.0 guards.IsTrytesOfExactLength, b1t6.EncodeToTrytes/DecodeTrytes (strict per its own tests), x/crypto/blake2b; C04's obligations for bech32.Decode")

	pureScan(c, "C19.pure.no-package-state", c.P.Func("pkg/bech32/address", "ParseBech32"), c.P.Func("pkg/bech32/address", "Bech32"), c.P.Func("pkg/migration", "Encode"), c.P.Func("pkg/migration", "Decode"))
	// ParseBech32 accepts what bech32.Decode accepts: C04's obligations for Decode (exits, ASCII before folding,
	// charset, regrouping, bounds) are decided here as well, under C19 keys
	reKey(c, "C04.", "C19.decode.", func() { runC04(c) })
	c19Parse(c)
	c19Migration(c)
}

func c19Parse(c *Ctx) {
	r := c.R
	f := c.fn("pkg/bech32/address", "ParseBech32")
	if f == nil {
		return
	}
	fn := f.Function
	b := ana.NewBuilder(c.P, fn)
	dec := "call<repo/pkg/bech32.Decode>(p0)"
	payload := "ext#1(" + dec + ")"
	rest := "slice(" + payload + ", 1, none)"
	ver := "load(iaddr(" + payload + ", 0))"
	pre := "call<repo/pkg/bech32/address.ParsePrefix>(ext#0(" + dec + "))"

	var succ, errs []ana.Exit
	for _, e := range ana.Exits(fn) {
		if e.Panic {
			r.Viol("C19.no-panic.explicit", c.ipos(e.Instr), "explicit panic in ParseBech32")
			continue
		}
		if b.Of(e.Results[2], e.Instr).Is("nil") {
			succ = append(succ, e)
		} else {
			errs = append(errs, e)
			r.Check(b.Of(e.Results[1], e.Instr).Is("nil"), "C19.parse-exits.error-no-address", c.ipos(e.Instr), "error return carries no address")
		}
	}
	r.Floor("C19.floor.accepts", len(succ), 1, "accepting returns")
	r.Floor("C19.floor.rejects", len(errs), 1, "rejecting returns")
	// propagation
	g1 := plainEdges(edgesMatching(b, "bin<==>(ext#2("+dec+"), nil)"))
	g2 := plainEdges(edgesMatching(b, "bin<==>(ext#1("+pre+"), nil)"))
	g3 := plainEdges(edgesMatching(b, "bin<!=>(len("+payload+"), 0)", "bin<>>(len("+payload+"), 0)", "bin<>=>(len("+payload+"), 1)"))
	for _, e := range succ {
		r.Check(exitMustPass(fn, e, g1), "C19.parse-exits.gate.bech32", c.ipos(e.Instr), "accept only after bech32.Decode returned no error")
		r.Check(exitMustPass(fn, e, g2), "C19.parse-exits.gate.prefix", c.ipos(e.Instr), "accept only after ParsePrefix(hrp) returned no error")
		r.Check(exitMustPass(fn, e, g3), "C19.parse-exits.gate.nonempty", c.ipos(e.Instr), "accept only with a non-empty payload")
		pt := b.Of(e.Results[0], e.Instr)
		_, ok := ana.Match("ext#0("+pre+")", pt)
		r.Check(ok, "C19.parse-exits.returned-prefix", c.ipos(e.Instr), "returned prefix is ParsePrefix's result for the decoded hrp: %s", short(pt.String(), 120))
	}
	for _, e := range errs {
		et := b.Of(e.Results[2], e.Instr)
		if w, _ := ana.Find("ext#2("+dec+")", et); w != nil {
			fs, _ := et.Arg(0).Str()
			r.Check(strings.Contains(fs, "%w") && !exitMustPass(fn, e, g1), "C19.parse-exits.bech32-error-propagated", c.ipos(e.Instr), "bech32.Decode's error is wrapped (%%w) and returned: %q", fs)
		}
	}
	// accept set by value-set analysis over (version, payload length)
	vs := &ana.VSA{B: b, Tracked: []string{ver, "len(" + payload + ")"}, Ranges: [][2]int64{{0, 255}, {1, 60}}}
	vs.Derived = func(t *ana.Term, tu []int64) (int64, bool) {
		if t.String() == ana.Expand("len("+rest+")") {
			return tu[1] - 1, true
		}
		return 0, false
	}
	// start the analysis at the block behind the three gates: every tuple is assumed to reach it (non-empty payload)
	sets, tuples := vs.Run()
	type acc struct {
		ver, plen int64
	}
	got := map[acc]string{}
	ambiguous := 0
	// the address term of an accepting return for one (version, length) pair: the returned value itself, or — when the
	// version/length handling sits in a helper whose result is handed on — the value of the helper exit that pair reaches
	type addrAt struct {
		t    *ana.Term
		inst ssa.Instruction
	}
	var addrTerms []addrAt
	seenRet := map[ssa.Instruction]bool{}
	addrFor := func(e ana.Exit, tu []int64) *ana.Term {
		if hb, v, ret, ok := vs.ResultFor(e.Results[1], tu); ok {
			t := hb.Of(v, ret)
			if !seenRet[ret] {
				seenRet[ret] = true
				addrTerms = append(addrTerms, addrAt{t, ret})
			}
			return t
		}
		t := b.Of(e.Results[1], e.Instr)
		if !seenRet[e.Instr] {
			seenRet[e.Instr] = true
			addrTerms = append(addrTerms, addrAt{t, e.Instr})
		}
		return t
	}
	for _, e := range succ {
		for idx := range sets[e.Instr.Block()] {
			tu := ana.TupleOf(tuples, idx)
			tn := ""
			if w, _ := ana.Find("alloc<*>", addrFor(e, tu)); w != nil {
				tn = w.Name[strings.LastIndex(w.Name, ".")+1:]
			}
			got[acc{tu[0], tu[1] - 1}] = tn
		}
	}
	for _, e := range errs {
		for idx := range sets[e.Instr.Block()] {
			tu := ana.TupleOf(tuples, idx)
			if _, both := got[acc{tu[0], tu[1] - 1}]; both && exitMustPass(fn, e, g3) {
				ambiguous++
			}
		}
	}
	want := map[acc]string{{0, 32}: "Ed25519Address", {8, 20}: "AliasAddress", {16, 20}: "NFTAddress"}
	okSet := len(got) == len(want) && vs.Opaque <= 2
	for k, v := range want {
		if got[k] != v {
			okSet = false
		}
	}
	r.Check(okSet && ambiguous == 0, "C19.parse-exits.accept-set", c.P.Pos(fn.Pos()), "accept set over version 0..255 × payload length 0..59 = %v (want {0x00:32 Ed25519, 0x08:20 Alias, 0x10:20 NFT}); %d pairs both accepted and rejected", fmtAcc(got), ambiguous)
	// each accept copies the whole remaining payload into the hash array
	for _, aa := range addrTerms {
		at := aa.t
		e := struct{ Instr ssa.Instruction }{aa.inst}
		cp, cb := ana.Find("call<builtin.copy>(slice(faddr<#0>(self), 0, $n), "+rest+")", at)
		if cp != nil {
			// the destination is the whole hash array of the returned address type
			full := false
			if al, _ := ana.Find("alloc<*>", at); al != nil {
				if a, isA := al.V.(*ssa.Alloc); isA {
					if st, ok := a.Type().(*types.Pointer).Elem().Underlying().(*types.Struct); ok && st.NumFields() > 0 {
						if arr, ok := st.Field(0).Type().Underlying().(*types.Array); ok {
							full = cb["$n"].IsInt(arr.Len())
						}
					}
				}
			}
			if !full {
				cp = nil
			}
		}
		r.Check(cp != nil, "C19.parse-exits.copies-payload", c.ipos(e.Instr), "address = zero value with hash[:] overwritten by the payload after the version byte: %s", short(at.String(), 200))
	}
	// index guard
	for _, blk := range fn.Blocks {
		for _, ins := range blk.Instrs {
			if ia, ok := ins.(*ssa.IndexAddr); ok {
				t := b.Of(ia, ia)
				if bd, ok := ana.Match("iaddr("+payload+", $k)", t); ok {
					k, isInt := bd["$k"].Int()
					r.Check(isInt && (constIndexGuarded(b, ia, t.Arg(0), k) || k == 0 && mustPass(fn, blk, g3)), "C19.no-panic.index-guarded", c.ipos(ia), "payload[%s] evaluated only when the payload is long enough", bd["$k"])
				}
			}
			if sl, ok := ins.(*ssa.Slice); ok {
				t := b.Of(sl, sl)
				if _, ok := ana.Match(rest, t); ok {
					r.Check(mustPass(fn, blk, g3), "C19.no-panic.slice-guarded", c.ipos(sl), "payload[1:] evaluated only for a non-empty payload")
				}
			}
		}
	}

	// ---- version agreement per type
	types := []struct {
		name string
		ver  int64
		n    int64
	}{{"Ed25519Address", 0, 32}, {"AliasAddress", 8, 20}, {"NFTAddress", 16, 20}}
	for _, ty := range types {
		key := "C19.version-agree." + ty.name
		bf := c.P.Func("pkg/bech32/address", ty.name+".Bytes")
		vf := c.P.Func("pkg/bech32/address", ty.name+".Version")
		if bf == nil || vf == nil {
			r.Undec(key, "", "methods of %s not found", ty.name)
			continue
		}
		r.Fn(ana.ShortFunc(bf))
		bb := ana.NewBuilder(c.P, bf)
		for _, e := range ana.Exits(bf) {
			if e.Panic {
				continue
			}
			t := bb.Of(e.Results[0], e.Instr)
			bd, ok := ana.Match("concat(slice(obj(alloc<[1]byte>, store(iaddr(self, 0), $v)), 0, none), slice(faddr<#0>(obj(alloc<*>, store(self, p0))), 0, none))", t)
			v, _ := bd["$v"].Int()
			r.Check(ok && v == ty.ver, key+".bytes", c.ipos(e.Instr), "Bytes() = [%#x] ‖ hash[:] (whole array): %s", ty.ver, short(t.String(), 160))
		}
		vb := ana.NewBuilder(c.P, vf)
		for _, e := range ana.Exits(vf) {
			if e.Panic {
				continue
			}
			t := vb.Of(e.Results[0], e.Instr)
			v, ok := t.Int()
			r.Check(ok && v == ty.ver, key+".version", c.ipos(e.Instr), "Version() = %#x: %s", ty.ver, t)
		}
		// array length from the type
		if obj := c.P.Pkg("pkg/bech32/address").Pkg.Scope().Lookup(ty.name); obj != nil {
			s := obj.Type().Underlying().String()
			r.Check(strings.Contains(s, fmt.Sprintf("hash [%d]byte", ty.n)), key+".hash-length", "", "%s = %s", ty.name, s)
		}
	}

	// ---- prefix table
	if pf := c.fn("pkg/bech32/address", "ParsePrefix"); pf != nil {
		pb := ana.NewBuilder(c.P, pf.Function)
		eq := edgesMatching(pb, "bin<==>(p0, load(iaddr(global<repo/pkg/bech32/address.hrpStrings>, bin<+>(ind<+1>(-1), 1))))")
		for _, e := range ana.Exits(pf.Function) {
			if e.Panic {
				r.Viol("C19.no-panic.explicit", c.ipos(e.Instr), "panic in ParsePrefix")
				continue
			}
			et := pb.Of(e.Results[1], e.Instr)
			vt := pb.Of(e.Results[0], e.Instr)
			if et.Is("nil") {
				_, ok := ana.Match("bin<+>(ind<+1>(-1), 1)", vt)
				r.Check(ok && exitMustPass(pf.Function, e, plainEdges(eq)), "C19.prefix-table.reader", c.ipos(e.Instr), "ParsePrefix returns index i only when s == hrpStrings[i] (exact comparison)")
			} else {
				r.Check(!exitMustPass(pf.Function, e, plainEdges(eq)) && len(eq) == 1, "C19.prefix-table.reader-reject", c.ipos(e.Instr), "ParsePrefix rejects after the table is exhausted")
			}
		}
		whole := false
		for _, ce := range pb.CondEdges() {
			if _, ok := ana.Match("bin<<>(bin<+>(ind<+1>(-1), 1), 4)", ce.Lit); ok {
				whole = true
			}
			if _, ok := ana.Match("bin<<>(bin<+>(ind<+1>(-1), 1), len(_))", ce.Lit); ok {
				whole = true
			}
		}
		r.Check(whole, "C19.prefix-table.reader-all-entries", c.P.Pos(pf.Pos()), "the search covers the whole table")
	}
	if sf := c.fn("pkg/bech32/address", "Prefix.String"); sf != nil {
		sb := ana.NewBuilder(c.P, sf.Function)
		for _, e := range ana.Exits(sf.Function) {
			if !e.Panic {
				t := sb.Of(e.Results[0], e.Instr)
				_, ok := ana.Match("load(iaddr(global<repo/pkg/bech32/address.hrpStrings>, p0))", t)
				r.Check(ok, "C19.prefix-table.writer", c.ipos(e.Instr), "Prefix.String() = hrpStrings[p] — the table the reader searches: %s", t)
			}
		}
	}
	if bf := c.fn("pkg/bech32/address", "Bech32"); bf != nil {
		bb := ana.NewBuilder(c.P, bf.Function)
		for _, e := range ana.Exits(bf.Function) {
			if !e.Panic {
				t := bb.Of(e.Results[0], e.Instr)
				_, ok := ana.Match("ext#0(call<repo/pkg/bech32.Encode>(call<(repo/pkg/bech32/address.Prefix).String>(p0), call<(repo/pkg/bech32/address.Address).Bytes>(p1)))", t)
				r.Check(ok, "C19.prefix-table.bech32-writer", c.ipos(e.Instr), "Bech32(hrp, addr) = bech32.Encode(hrp.String(), addr.Bytes()): %s", short(t.String(), 200))
			}
		}
	}
	// table content folded from the initialiser
	in := bitdom.New(c.P.SSA, c.wordBits())
	pk := c.P.Pkg("pkg/bech32/address")
	if g := c.gvar("pkg/bech32/address", "hrpStrings"); g != nil {
		in.Call(pk.Func("init"), nil)
		var entries []string
		if cell := in.Globals[g]; cell != nil {
			if arr, ok := cell.V.(*bitdom.Array); ok {
				for _, e := range arr.Elems {
					if s, ok := e.(*bitdom.Slice); ok {
						var sb strings.Builder
						for i := 0; i < s.Len; i++ {
							if bv, ok := s.A.Elems[s.Off+i].(*bitdom.BV); ok {
								x, _ := bv.Const()
								sb.WriteByte(byte(x))
							}
						}
						entries = append(entries, sb.String())
					}
				}
			}
		}
		seen := map[string]bool{}
		good := len(entries) >= 1
		for _, e := range entries {
			if seen[e] || e == "" || strings.ToLower(e) != e {
				good = false
			}
			for i := 0; i < len(e); i++ {
				if e[i] < 33 || e[i] > 126 {
					good = false
				}
			}
			seen[e] = true
		}
		_, w, _ := c.globalInit("pkg/bech32/address", "hrpStrings")
		r.Check(good && w <= 1, "C19.prefix-table.entries", c.P.Pos(g.Pos()), "prefix table %q: distinct, lower-case, valid HRP characters, no writer besides the initialiser (%d)", entries, w)
	}
}

func fmtAcc(m interface{}) string { return fmt.Sprint(m) }

func c19Migration(c *Ctx) {
	r := c.R
	f := c.fn("pkg/migration", "Decode")
	if f == nil {
		return
	}
	fn := f.Function
	b := ana.NewBuilder(c.P, fn)
	// positions are absolute in the argument: under the length, prefix and suffix gates the address trytes are s[8:72]
	// and the checksum trytes s[72:80], however the code cuts them out (TrimPrefix/TrimSuffix or plain slicing)
	const dt = "github.com/iotaledger/iota.go/encoding/b1t6.DecodeTrytes"
	var absRange func(t *ana.Term) (int64, int64, bool)
	var evalInt func(t *ana.Term) (int64, bool)
	evalInt = func(t *ana.Term) (int64, bool) {
		if k, ok := t.Int(); ok {
			return k, true
		}
		switch {
		case t.Is("len"):
			lo, hi, ok := absRange(t.Arg(0))
			return hi - lo, ok
		case t.Is("call", "github.com/iotaledger/iota.go/encoding/b1t6.EncodedLen"):
			k, ok := evalInt(t.Arg(0))
			return 6 * k, ok // one byte is six trits (C19.migration-gates.split-arithmetic evaluates the library routine)
		case t.Is("bin") && len(t.Args) == 2:
			x, ok1 := evalInt(t.Arg(0))
			y, ok2 := evalInt(t.Arg(1))
			if !ok1 || !ok2 {
				return 0, false
			}
			switch t.Name {
			case "+":
				return x + y, true
			case "-":
				return x - y, true
			case "*":
				return x * y, true
			case "/":
				if y > 0 && x >= 0 {
					return x / y, true
				}
			}
		}
		return 0, false
	}
	absRange = func(t *ana.Term) (int64, int64, bool) {
		t = stripObj(t)
		switch {
		case t.IsParam(0):
			return 0, 81, true
		case t.Is("call", "strings.TrimPrefix") && t.Arg(1).String() == `"TRANSFER"`:
			lo, hi, ok := absRange(t.Arg(0))
			return lo + 8, hi, ok && lo == 0
		case t.Is("call", "strings.TrimSuffix") && t.Arg(1).String() == `"9"`:
			lo, hi, ok := absRange(t.Arg(0))
			return lo, hi - 1, ok && hi == 81
		case t.Is("slice"):
			lo, hi, ok := absRange(t.Arg(0))
			if !ok {
				return 0, 0, false
			}
			a, okA := evalInt(t.Arg(1))
			bb := hi - lo
			okB := true
			if !t.Arg(2).Is("none") {
				bb, okB = evalInt(t.Arg(2))
			}
			if !okA || !okB || a < 0 || bb < a || lo+bb > hi {
				return 0, 0, false
			}
			return lo + a, lo + bb, true
		case t.Is("ext") || t.Is("call"):
			// a piece cut out by a repository helper: the value of its successful exit
			if x, ch := ana.ExpandCalls(c.P, t); ch && x.String() != t.String() {
				return absRange(x)
			}
		}
		return 0, 0, false
	}
	isRange := func(t *ana.Term, lo, hi int64) bool {
		l, h, ok := absRange(t)
		return ok && l == lo && h == hi
	}
	decOf := func(t *ana.Term, k int, lo, hi int64) bool { // ext#k(DecodeTrytes(s[lo:hi]))
		t = stripObj(t)
		return t.Is("ext") && t.Idx == k && t.Arg(0).Is("call", dt) && isRange(t.Arg(0).Arg(0), lo, hi)
	}
	classify := func(lit *ana.Term) (string, bool) { // gate name, accepting?
		pos := true
		if lit.Op == "un" && lit.Name == "!" {
			lit, pos = lit.Args[0], false
		}
		switch {
		case matches("call<github.com/iotaledger/iota.go/guards.IsTrytesOfExactLength>(p0, 81)", lit):
			return "exact-length-81-trytes", pos
		case matches(`call<strings.HasPrefix>(p0, "TRANSFER")`, lit):
			return "prefix", pos
		case lit.Is("call", "strings.HasSuffix") && lit.Arg(1).String() == `"9"`:
			if _, hi, ok := absRange(lit.Arg(0)); ok && hi == 81 {
				return "suffix", pos
			}
		case lit.Is("bin") && (lit.Name == "==" || lit.Name == "!=") && lit.Arg(1).Is("nil") && pos:
			if decOf(lit.Arg(0), 1, 8, 72) {
				return "address-b1t6", lit.Name == "=="
			}
			if decOf(lit.Arg(0), 1, 72, 80) {
				return "checksum-b1t6", lit.Name == "=="
			}
		case lit.Is("call", "bytes.Equal"):
			for _, pr := range [][2]*ana.Term{{lit.Arg(0), lit.Arg(1)}, {lit.Arg(1), lit.Arg(0)}} {
				if !decOf(pr[0], 0, 72, 80) {
					continue
				}
				h := pr[1]
				if !h.Is("slice") || !h.Arg(1).IsInt(0) {
					continue
				}
				n, okN := h.Arg(2).Int()
				if !okN && h.Arg(2).Is("len") && decOf(h.Arg(2).Arg(0), 0, 72, 80) {
					n, okN = 4, true // eight trytes decode to four bytes (split-arithmetic)
				}
				hb, okH := ana.Match("obj(alloc<[32]byte>, store(self, call<golang.org/x/crypto/blake2b.Sum256>($a)))", h.Arg(0))
				if okN && n == 4 && okH && decOf(hb["$a"], 0, 8, 72) {
					return "checksum-equal", pos
				}
			}
		}
		return "", false
	}
	gateNames := []string{"exact-length-81-trytes", "prefix", "suffix", "address-b1t6", "checksum-b1t6", "checksum-equal"}
	// gates of a function; a test of a helper's error result stands for the gates every successful exit of the helper has
	// passed (and, as a reject reason, is legitimate when every failing exit is reachable only through reject edges)
	var gather func(gb *ana.Builder, depth int) (map[string][]ana.Edge, []ana.Edge)
	gather = func(gb *ana.Builder, depth int) (map[string][]ana.Edge, []ana.Edge) {
		acc := map[string][]ana.Edge{}
		var rej []ana.Edge
		for _, ce := range gb.CondEdges() {
			name, isAcc := classify(ce.Lit)
			if name == "" {
				// a single-exit helper (e.g. a shared checksum routine) in its place
				if x, ch := ana.ExpandCalls(c.P, ce.Lit); ch {
					name, isAcc = classify(x)
				}
			}
			if name != "" {
				if isAcc {
					acc[name] = append(acc[name], ce.Edge)
				} else {
					rej = append(rej, ce.Edge)
				}
				continue
			}
			o, ok := helperOutcome(ce.Lit)
			if !ok || depth >= 2 || (o.kind != "nil" && o.kind != "nonnil") {
				continue
			}
			hb := c.boundBuilder(o.call)
			xs := exitsWith(hb, o)
			if len(xs) == 0 {
				continue
			}
			hacc, hrej := gather(hb, depth+1)
			if o.kind == "nil" {
				for _, name := range gateNames {
					all := true
					for _, x := range xs {
						all = all && exitMustPass(hb.Fn, x, hacc[name])
					}
					if all {
						acc[name] = append(acc[name], ce.Edge)
					}
				}
			} else {
				avoid := ana.ReachableAvoiding(hb.Fn, hrej)
				all := true
				for _, x := range xs {
					all = all && !avoid[x.Instr.Block()]
				}
				if all {
					rej = append(rej, ce.Edge)
				}
			}
		}
		return acc, rej
	}
	accEdges, rejects := gather(b, 0)
	var succ, errs []ana.Exit
	for _, e := range ana.Exits(fn) {
		if e.Panic {
			r.Viol("C19.migration-gates.no-panic", c.ipos(e.Instr), "explicit panic in migration.Decode")
			continue
		}
		if b.Of(e.Results[1], e.Instr).Is("nil") {
			succ = append(succ, e)
		} else {
			errs = append(errs, e)
		}
	}
	r.Floor("C19.floor.migration-success", len(succ), 1, "success returns of migration.Decode")
	r.Floor("C19.floor.migration-errors", len(errs), 1, "error returns of migration.Decode")
	for _, name := range gateNames {
		for _, e := range succ {
			r.Check(exitMustPass(fn, e, accEdges[name]), "C19.migration-gates."+name, c.ipos(e.Instr), "success return passes the %s gate", name)
		}
	}
	avoid := ana.ReachableAvoiding(fn, rejects)
	for _, e := range errs {
		r.Check(!avoid[e.Instr.Block()], "C19.migration-gates.reject-closed", c.ipos(e.Instr), "error return reachable only through the negation of a listed gate (%d reject edges)", len(rejects))
	}
	for _, e := range succ {
		t := b.Of(e.Results[0], e.Instr)
		cp, cb := ana.Find("call<builtin.copy>(slice(self, 0, 32), $d)", t)
		if cp != nil && !decOf(cb["$d"], 0, 8, 72) {
			cp = nil
		}
		r.Check(cp != nil, "C19.migration-gates.returned-address", c.ipos(e.Instr), "returned address = the 32 bytes decoded from the first 64 trytes after the prefix")
	}
	// layout arithmetic: 81 = len(prefix) + 64 + 8 + len(suffix); 8 trytes = 4 bytes
	encLen := c.P.SSA.ImportedPackage("github.com/iotaledger/iota.go/encoding/b1t6")
	okArith := false
	detail := ""
	if encLen != nil {
		in := bitdom.New(c.P.SSA, c.wordBits())
		bitdom.ExtraInterpreted["github.com/iotaledger/iota.go/encoding/b1t6"] = true
		ex, err := in.Call(encLen.Func("EncodedLen"), []bitdom.Val{bitdom.ConstBV(32, c.wordBits(), true)})
		if err == nil && !ex.Panic {
			trits, _ := ex.Results[0].(*bitdom.BV).Int()
			addrTrytes := trits / 3
			rest := 81 - int64(len("TRANSFER")) - int64(len("9")) - addrTrytes
			okArith = trits == 192 && addrTrytes == 64 && rest == 8 && rest*3%6 == 0 && rest*3/6 == 4
			detail = fmt.Sprintf("EncodedLen(32)=%d trits → %d trytes; 81-8-1-%d = %d trytes = %d checksum bytes", trits, addrTrytes, addrTrytes, rest, rest*3/6)
		} else {
			detail = fmt.Sprint(err)
		}
	}
	r.Check(okArith, "C19.migration-gates.split-arithmetic", c.P.Pos(fn.Pos()), "split point and checksum width: %s (want 64 trytes, 4 bytes)", detail)

	// Encode layout
	if ef := c.fn("pkg/migration", "Encode"); ef != nil {
		eb := ana.NewBuilder(c.P, ef.Function)
		for _, e := range ana.Exits(ef.Function) {
			if e.Panic {
				continue
			}
			t := eb.Of(e.Results[0], e.Instr)
			a := "slice(obj(alloc<[32]byte>, store(self, p0)), 0, none)"
			want := `bin<+>(bin<+>("TRANSFER", call<github.com/iotaledger/iota.go/encoding/b1t6.EncodeToTrytes>(concat(` + a + `, slice(obj(alloc<[32]byte>, store(self, call<golang.org/x/crypto/blake2b.Sum256>(` + a + `))), 0, 4)))), "9")`
			_, ok := ana.Match(want, t)
			r.Check(ok, "C19.migration-layout.encode", c.ipos(e.Instr), "Encode = \"TRANSFER\" ‖ b1t6(addr ‖ blake2b256(addr)[0:4]) ‖ \"9\": %s", ana.Explain(want, t))
		}
	}
}
