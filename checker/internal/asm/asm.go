// Package asm is engine A: a reader for the subset of Go (Plan 9) amd64
// assembly used by pkg/curl/transform_amd64.s and an abstract interpreter over
// registers holding parameter-relative pointers, concrete counters or
// lane-generic 1-bit ANF data. Any mnemonic or operand form outside the
// subset is an error (UNDECIDED), never a guess.
package asm

import (
	"fmt"
	"os"
	"regexp"
	"strconv"
	"strings"

	"verif/checker/internal/bitdom"
)

// Operand of an instruction.
type Operand struct {
	Kind  string // "imm" | "reg" | "mem" | "fp" | "label"
	Imm   int64
	Reg   string
	Base  string // mem
	Index string // mem, scaled by Scale
	Scale int64
	Disp  int64
	Name  string // fp: parameter name; label
}

// Instr is one instruction.
type Instr struct {
	Line int
	Op   string
	Args []Operand
	Text string
}

// Func is a parsed TEXT block.
type Func struct {
	Name      string
	FrameSize int64
	ArgSize   int64
	Flags     string
	Instrs    []Instr
	Labels    map[string]int // label -> index of next instruction
	Build     string         // //go:build line
	File      string
}

var (
	reText = regexp.MustCompile(`^TEXT\s+·(\w+)\(SB\),\s*(\w+),\s*\$(-?\d+)-(\d+)`)
	reMem  = regexp.MustCompile(`^(-?(?:0x)?[0-9a-fA-F]*)\((\w+)\)(?:\((\w+)\*(\d)\))?$`)
	reFP   = regexp.MustCompile(`^(\w+)\+(\d+)\(FP\)$`)
)

// ParseFile reads the first TEXT block of an assembly file.
func ParseFile(path string) (*Func, error) {
	data, err := os.ReadFile(path)
	if err != nil {
		return nil, err
	}
	f := &Func{Labels: map[string]int{}, File: path}
	inText := false
	for ln, raw := range strings.Split(string(data), "\n") {
		line := raw
		if strings.HasPrefix(strings.TrimSpace(line), "//go:build") {
			f.Build = strings.TrimSpace(strings.TrimPrefix(strings.TrimSpace(line), "//go:build"))
		}
		if i := strings.Index(line, "//"); i >= 0 {
			line = line[:i]
		}
		line = strings.TrimSpace(line)
		if line == "" || strings.HasPrefix(line, "#include") {
			continue
		}
		if m := reText.FindStringSubmatch(line); m != nil {
			if inText {
				return nil, fmt.Errorf("%s:%d: more than one TEXT block", path, ln+1)
			}
			inText = true
			f.Name, f.Flags = m[1], m[2]
			f.FrameSize, _ = strconv.ParseInt(m[3], 10, 64)
			f.ArgSize, _ = strconv.ParseInt(m[4], 10, 64)
			continue
		}
		if !inText {
			return nil, fmt.Errorf("%s:%d: text outside TEXT block: %q", path, ln+1, line)
		}
		if strings.HasSuffix(line, ":") {
			f.Labels[strings.TrimSuffix(line, ":")] = len(f.Instrs)
			continue
		}
		fields := strings.Fields(line)
		ins := Instr{Line: ln + 1, Op: fields[0], Text: line}
		rest := strings.TrimSpace(strings.TrimPrefix(line, fields[0]))
		if rest != "" {
			for _, a := range splitArgs(rest) {
				op, err := parseOperand(strings.TrimSpace(a))
				if err != nil {
					return nil, fmt.Errorf("%s:%d: %v", path, ln+1, err)
				}
				ins.Args = append(ins.Args, op)
			}
		}
		f.Instrs = append(f.Instrs, ins)
	}
	if !inText {
		return nil, fmt.Errorf("%s: no TEXT block", path)
	}
	return f, nil
}

func splitArgs(s string) []string {
	var out []string
	depth, start := 0, 0
	for i, c := range s {
		switch c {
		case '(':
			depth++
		case ')':
			depth--
		case ',':
			if depth == 0 {
				out = append(out, s[start:i])
				start = i + 1
			}
		}
	}
	return append(out, s[start:])
}

var regs = map[string]bool{"AX": true, "BX": true, "CX": true, "DX": true, "SI": true, "DI": true, "BP": true, "SP": true,
	"R8": true, "R9": true, "R10": true, "R11": true, "R12": true, "R13": true, "R14": true, "R15": true}

func parseOperand(s string) (Operand, error) {
	if strings.HasPrefix(s, "$") {
		v, err := strconv.ParseInt(strings.TrimPrefix(s, "$"), 0, 64)
		if err != nil {
			return Operand{}, fmt.Errorf("immediate %q: %v", s, err)
		}
		return Operand{Kind: "imm", Imm: v}, nil
	}
	if regs[s] {
		return Operand{Kind: "reg", Reg: s}, nil
	}
	if m := reFP.FindStringSubmatch(s); m != nil {
		d, _ := strconv.ParseInt(m[2], 10, 64)
		return Operand{Kind: "fp", Name: m[1], Disp: d}, nil
	}
	if m := reMem.FindStringSubmatch(s); m != nil && regs[m[2]] {
		var d int64
		if m[1] != "" && m[1] != "-" {
			var err error
			d, err = strconv.ParseInt(m[1], 0, 64)
			if err != nil {
				return Operand{}, fmt.Errorf("displacement %q: %v", m[1], err)
			}
		}
		op := Operand{Kind: "mem", Base: m[2], Disp: d}
		if m[3] != "" {
			if !regs[m[3]] {
				return Operand{}, fmt.Errorf("index register %q", m[3])
			}
			op.Index = m[3]
			op.Scale, _ = strconv.ParseInt(m[4], 10, 64)
		}
		return op, nil
	}
	if regexp.MustCompile(`^\w+$`).MatchString(s) {
		return Operand{Kind: "label", Name: s}, nil
	}
	return Operand{}, fmt.Errorf("unsupported operand %q", s)
}

// Value held in a register.
type Value struct {
	Kind  string // "undef" | "ptr" | "int" | "data"
	Param int    // ptr: parameter index
	Off   int64  // ptr: byte offset
	Int   int64
	Data  bitdom.Poly
}

// MemAccess records one memory operand evaluation.
type MemAccess struct {
	Line  int
	Store bool
	Param int
	Word  int64
	Round int
}

// Machine is the abstract machine.
type Machine struct {
	F        *Func
	Regs     map[string]Value
	Params   []string                 // parameter names in frame order (8 bytes each)
	Words    int64                    // words per buffer
	Loaded   map[[2]int64]bitdom.Poly // (param, word) -> variable (per round)
	Stored   map[[2]int64]bitdom.Poly // (param, word) -> value stored this round
	StoreCnt map[[2]int64]int
	VarName  []string
	Accesses []MemAccess
	Round    int
	Steps    int
	zf, lt   bool
	flagsOK  bool
}

func NewMachine(f *Func, params []string, words int64) *Machine {
	m := &Machine{F: f, Regs: map[string]Value{}, Params: params, Words: words}
	m.ResetRound()
	return m
}

// ResetRound forgets the symbolic memory of the previous round (new input variables).
func (m *Machine) ResetRound() {
	m.Loaded = map[[2]int64]bitdom.Poly{}
	m.Stored = map[[2]int64]bitdom.Poly{}
	m.StoreCnt = map[[2]int64]int{}
	m.VarName = nil
}

func (m *Machine) newVar(name string) bitdom.Poly {
	m.VarName = append(m.VarName, name)
	return bitdom.Var(len(m.VarName) - 1)
}

func (m *Machine) Name(id int) string {
	if id < len(m.VarName) {
		return m.VarName[id]
	}
	return fmt.Sprint("v", id)
}

func (m *Machine) addr(ins Instr, op Operand) (int, int64, error) {
	b := m.Regs[op.Base]
	if b.Kind != "ptr" {
		return 0, 0, fmt.Errorf("line %d: base register %s does not hold a parameter pointer (%s)", ins.Line, op.Base, b.Kind)
	}
	off := b.Off + op.Disp
	if op.Index != "" {
		ix := m.Regs[op.Index]
		if ix.Kind != "int" {
			return 0, 0, fmt.Errorf("line %d: index register %s is not a counter (%s)", ins.Line, op.Index, ix.Kind)
		}
		off += ix.Int * op.Scale
	}
	if off%8 != 0 {
		return 0, 0, fmt.Errorf("line %d: unaligned access at byte offset %d of %s", ins.Line, off, m.Params[b.Param])
	}
	w := off / 8
	if w < 0 || w >= m.Words {
		return 0, 0, fmt.Errorf("line %d: access to word %d of %s is outside [0,%d)", ins.Line, w, m.Params[b.Param], m.Words)
	}
	return b.Param, w, nil
}

func (m *Machine) load(ins Instr, op Operand) (Value, error) {
	p, w, err := m.addr(ins, op)
	if err != nil {
		return Value{}, err
	}
	m.Accesses = append(m.Accesses, MemAccess{ins.Line, false, p, w, m.Round})
	k := [2]int64{int64(p), w}
	if _, st := m.Stored[k]; st {
		return Value{}, fmt.Errorf("line %d: load from %s[%d], which was stored earlier in the same round", ins.Line, m.Params[p], w)
	}
	v, ok := m.Loaded[k]
	if !ok {
		v = m.newVar(fmt.Sprintf("%s[%d]", m.Params[p], w))
		m.Loaded[k] = v
	}
	return Value{Kind: "data", Data: v}, nil
}

func (m *Machine) store(ins Instr, op Operand, v Value) error {
	p, w, err := m.addr(ins, op)
	if err != nil {
		return err
	}
	if v.Kind != "data" {
		return fmt.Errorf("line %d: store of a non-data value (%s)", ins.Line, v.Kind)
	}
	m.Accesses = append(m.Accesses, MemAccess{ins.Line, true, p, w, m.Round})
	k := [2]int64{int64(p), w}
	if _, ld := m.Loaded[k]; ld {
		return fmt.Errorf("line %d: store to %s[%d], which was loaded earlier in the same round", ins.Line, m.Params[p], w)
	}
	m.Stored[k] = v.Data
	m.StoreCnt[k]++
	return nil
}

// Run interprets from instruction index pc until stop(pc) reports true before executing pc, or RET.
// It returns the pc at which it stopped (len(Instrs) after RET).
func (m *Machine) Run(pc int, maxSteps int, stop func(pc int) bool) (int, error) {
	for {
		if pc >= len(m.F.Instrs) {
			return pc, fmt.Errorf("fell off the end of the TEXT block")
		}
		if stop != nil && stop(pc) {
			return pc, nil
		}
		m.Steps++
		if m.Steps > maxSteps {
			return pc, fmt.Errorf("step budget exceeded")
		}
		ins := m.F.Instrs[pc]
		a := ins.Args
		need := func(n int) error {
			if len(a) != n {
				return fmt.Errorf("line %d: %s expects %d operands", ins.Line, ins.Op, n)
			}
			return nil
		}
		switch ins.Op {
		case "MOVQ":
			if err := need(2); err != nil {
				return pc, err
			}
			var v Value
			switch a[0].Kind {
			case "imm":
				v = Value{Kind: "int", Int: a[0].Imm}
			case "reg":
				v = m.Regs[a[0].Reg]
				if v.Kind == "" || v.Kind == "undef" {
					return pc, fmt.Errorf("line %d: read of undefined register %s", ins.Line, a[0].Reg)
				}
			case "fp":
				idx := -1
				for i, n := range m.Params {
					if n == a[0].Name {
						idx = i
					}
				}
				if idx < 0 || a[0].Disp != int64(idx)*8 {
					return pc, fmt.Errorf("line %d: argument %s+%d(FP) does not match the Go signature (parameters %v, 8 bytes each)", ins.Line, a[0].Name, a[0].Disp, m.Params)
				}
				v = Value{Kind: "ptr", Param: idx}
			case "mem":
				var err error
				if v, err = m.load(ins, a[0]); err != nil {
					return pc, err
				}
			default:
				return pc, fmt.Errorf("line %d: unsupported source operand", ins.Line)
			}
			switch a[1].Kind {
			case "reg":
				m.Regs[a[1].Reg] = v
			case "mem":
				if err := m.store(ins, a[1], v); err != nil {
					return pc, err
				}
			default:
				return pc, fmt.Errorf("line %d: unsupported destination operand", ins.Line)
			}
		case "XORQ", "ANDQ", "ORQ":
			if err := need(2); err != nil {
				return pc, err
			}
			if a[0].Kind != "reg" || a[1].Kind != "reg" {
				return pc, fmt.Errorf("line %d: %s is modelled for register operands only", ins.Line, ins.Op)
			}
			x, y := m.Regs[a[0].Reg], m.Regs[a[1].Reg]
			if ins.Op == "XORQ" && a[0].Reg == a[1].Reg && x.Kind != "data" {
				// XORQ r, r: the zeroing idiom; r becomes the counter 0 whatever it held
				m.Regs[a[1].Reg] = Value{Kind: "int", Int: 0}
				m.zf, m.lt, m.flagsOK = true, false, true
				break
			}
			if x.Kind != "data" || y.Kind != "data" {
				return pc, fmt.Errorf("line %d: %s on non-data registers (%s:%s, %s:%s) — pointers and counters must not be combined bitwise", ins.Line, ins.Op, a[0].Reg, x.Kind, a[1].Reg, y.Kind)
			}
			var r bitdom.Poly
			switch ins.Op {
			case "XORQ":
				r = bitdom.Xor(y.Data, x.Data)
			case "ANDQ":
				r = bitdom.And(y.Data, x.Data)
			case "ORQ":
				r = bitdom.Or(y.Data, x.Data)
			}
			m.Regs[a[1].Reg] = Value{Kind: "data", Data: r}
		case "NOTQ":
			if err := need(1); err != nil {
				return pc, err
			}
			x := m.Regs[a[0].Reg]
			if a[0].Kind != "reg" || x.Kind != "data" {
				return pc, fmt.Errorf("line %d: NOTQ on a non-data register", ins.Line)
			}
			m.Regs[a[0].Reg] = Value{Kind: "data", Data: bitdom.Not(x.Data)}
		case "ADDQ", "SUBQ":
			if err := need(2); err != nil {
				return pc, err
			}
			x := m.Regs[a[1].Reg]
			if a[0].Kind != "imm" || a[1].Kind != "reg" || x.Kind != "int" {
				return pc, fmt.Errorf("line %d: %s is modelled as counter += immediate only", ins.Line, ins.Op)
			}
			if ins.Op == "ADDQ" {
				x.Int += a[0].Imm
			} else {
				x.Int -= a[0].Imm
			}
			m.Regs[a[1].Reg] = x
			// flags of the (small, signed) counter result: ZF, and SF≠OF as "result < 0"
			m.zf, m.lt, m.flagsOK = x.Int == 0, x.Int < 0, true
		case "DECQ", "INCQ":
			x := m.Regs[a[0].Reg]
			if len(a) != 1 || x.Kind != "int" {
				return pc, fmt.Errorf("line %d: %s on a non-counter", ins.Line, ins.Op)
			}
			if ins.Op == "DECQ" {
				x.Int--
			} else {
				x.Int++
			}
			m.Regs[a[0].Reg] = x
			m.zf, m.lt, m.flagsOK = x.Int == 0, x.Int < 0, true
		case "CMPQ":
			if err := need(2); err != nil {
				return pc, err
			}
			x := m.Regs[a[0].Reg]
			if a[0].Kind != "reg" || a[1].Kind != "imm" || x.Kind != "int" {
				return pc, fmt.Errorf("line %d: CMPQ is modelled as counter vs immediate only", ins.Line)
			}
			m.zf, m.lt, m.flagsOK = x.Int == a[1].Imm, x.Int < a[1].Imm, true
		case "JL", "JLT", "JLE", "JG", "JGT", "JGE", "JE", "JEQ", "JZ", "JNE", "JNZ":
			if len(a) != 1 || a[0].Kind != "label" {
				return pc, fmt.Errorf("line %d: jump without label", ins.Line)
			}
			if !m.flagsOK {
				return pc, fmt.Errorf("line %d: conditional jump on flags not set by CMPQ/DECQ", ins.Line)
			}
			tgt, ok := m.F.Labels[a[0].Name]
			if !ok {
				return pc, fmt.Errorf("line %d: unknown label %s", ins.Line, a[0].Name)
			}
			var taken bool
			switch ins.Op {
			case "JL", "JLT":
				taken = m.lt
			case "JLE":
				taken = m.lt || m.zf
			case "JG", "JGT":
				taken = !m.lt && !m.zf
			case "JGE":
				taken = !m.lt
			case "JE", "JEQ", "JZ":
				taken = m.zf
			default: // JNE, JNZ
				taken = !m.zf
			}
			if taken {
				pc = tgt
				continue
			}
		case "XCHGQ":
			if err := need(2); err != nil {
				return pc, err
			}
			if a[0].Kind != "reg" || a[1].Kind != "reg" {
				return pc, fmt.Errorf("line %d: XCHGQ on non-registers", ins.Line)
			}
			m.Regs[a[0].Reg], m.Regs[a[1].Reg] = m.Regs[a[1].Reg], m.Regs[a[0].Reg]
		case "RET":
			return len(m.F.Instrs), nil
		default:
			return pc, fmt.Errorf("line %d: mnemonic %s is outside the modelled subset", ins.Line, ins.Op)
		}
		pc++
	}
}

// InvalidateData marks every data register undefined (used at a round boundary to show that no data is carried over).
func (m *Machine) InvalidateData() {
	for r, v := range m.Regs {
		if v.Kind == "data" {
			m.Regs[r] = Value{Kind: "undef"}
		}
	}
}
