// Package bitdom is engine B: an abstract domain of bit-vectors whose bits are
// polynomials over GF(2) in algebraic normal form (XOR of AND-monomials) over
// named input bits, and an abstract interpreter of go/ssa over that domain.
// ANF is canonical, so two bit functions are equal iff their forms are equal.
package bitdom

import (
	"fmt"
	"sort"
	"strings"
)

// Mono is a monomial: the sorted, duplicate-free list of variable ids, encoded
// as a string (3 bytes per variable, big endian). The empty string is the constant 1.
type Mono string

// Poly is a set of monomials (XOR of them). The empty set is 0.
type Poly map[Mono]struct{}

// MaxMonomials caps a single bit's polynomial; beyond it the interpreter gives up (⊤).
const MaxMonomials = 4096

func monoOf(ids ...int) Mono {
	sort.Ints(ids)
	var sb strings.Builder
	prev := -1
	for _, id := range ids {
		if id == prev {
			continue
		}
		prev = id
		sb.WriteByte(byte(id >> 16))
		sb.WriteByte(byte(id >> 8))
		sb.WriteByte(byte(id))
	}
	return Mono(sb.String())
}

// Vars of the monomial.
func (m Mono) Vars() []int {
	out := make([]int, 0, len(m)/3)
	for i := 0; i+2 < len(m); i += 3 {
		out = append(out, int(m[i])<<16|int(m[i+1])<<8|int(m[i+2]))
	}
	return out
}

func mulMono(a, b Mono) Mono {
	if a == "" {
		return b
	}
	if b == "" {
		return a
	}
	return monoOf(append(a.Vars(), b.Vars()...)...)
}

func Zero() Poly { return Poly{} }
func One() Poly  { return Poly{"": {}} }
func Var(id int) Poly {
	return Poly{monoOf(id): {}}
}

func (p Poly) IsZero() bool { return len(p) == 0 }
func (p Poly) IsOne() bool {
	if len(p) != 1 {
		return false
	}
	_, ok := p[""]
	return ok
}
func (p Poly) IsConst() bool { return p.IsZero() || p.IsOne() }

func Xor(a, b Poly) Poly {
	if len(a) == 0 {
		return b
	}
	if len(b) == 0 {
		return a
	}
	out := make(Poly, len(a)+len(b))
	for m := range a {
		out[m] = struct{}{}
	}
	for m := range b {
		if _, ok := out[m]; ok {
			delete(out, m)
		} else {
			out[m] = struct{}{}
		}
	}
	return out
}

// MaxProduct bounds the number of monomial products of one And; beyond it the
// interpretation is abandoned (the caller reports the obligation undecided).
var MaxProduct = 1 << 22

func And(a, b Poly) Poly {
	if a.IsZero() || b.IsZero() {
		return Poly{}
	}
	if a.IsOne() {
		return b
	}
	if b.IsOne() {
		return a
	}
	if len(a)*len(b) > MaxProduct {
		// the algebraic normal form of this condition is too large to decide here (e.g. an OR over dozens of free bits)
		panic(abort{fmt.Errorf("ANF product of %d x %d monomials exceeds the budget", len(a), len(b))})
	}
	out := Poly{}
	for ma := range a {
		for mb := range b {
			m := mulMono(ma, mb)
			if _, ok := out[m]; ok {
				delete(out, m)
			} else {
				out[m] = struct{}{}
			}
		}
	}
	return out
}

func Not(a Poly) Poly { return Xor(a, One()) }
func Or(a, b Poly) Poly {
	switch {
	case a.IsZero():
		return b
	case b.IsZero():
		return a
	case a.IsOne() || b.IsOne():
		return One()
	}
	return Xor(Xor(a, b), And(a, b))
}

// Mux returns c ? a : b.
func Mux(c, a, b Poly) Poly {
	if c.IsOne() {
		return a
	}
	if c.IsZero() {
		return b
	}
	return Xor(b, And(c, Xor(a, b)))
}

func Equal(a, b Poly) bool {
	if len(a) != len(b) {
		return false
	}
	for m := range a {
		if _, ok := b[m]; !ok {
			return false
		}
	}
	return true
}

// Degree is the largest monomial size.
func (p Poly) Degree() int {
	d := 0
	for m := range p {
		if len(m)/3 > d {
			d = len(m) / 3
		}
	}
	return d
}

// Support returns the sorted ids of variables occurring in p.
func (p Poly) Support() []int {
	seen := map[int]bool{}
	for m := range p {
		for _, v := range m.Vars() {
			seen[v] = true
		}
	}
	var out []int
	for v := range seen {
		out = append(out, v)
	}
	sort.Ints(out)
	return out
}

// Format prints p with variable names.
func (p Poly) Format(names func(int) string) string {
	if p.IsZero() {
		return "0"
	}
	var ms []string
	for m := range p {
		if m == "" {
			ms = append(ms, "1")
			continue
		}
		var vs []string
		for _, v := range m.Vars() {
			vs = append(vs, names(v))
		}
		ms = append(ms, strings.Join(vs, "·"))
	}
	sort.Strings(ms)
	return strings.Join(ms, " ⊕ ")
}

// Eval evaluates p under an assignment.
func (p Poly) Eval(val func(int) bool) bool {
	r := false
	for m := range p {
		t := true
		for _, v := range m.Vars() {
			if !val(v) {
				t = false
				break
			}
		}
		if t {
			r = !r
		}
	}
	return r
}

// BV is a bit-vector, least significant bit first.
type BV struct {
	Bits   []Poly
	Signed bool
}

func ConstBV(x uint64, w int, signed bool) *BV {
	b := &BV{Bits: make([]Poly, w), Signed: signed}
	for i := 0; i < w; i++ {
		if i < 64 && x>>uint(i)&1 == 1 {
			b.Bits[i] = One()
		} else if i >= 64 && signed && x>>63 == 1 {
			b.Bits[i] = One()
		} else {
			b.Bits[i] = Zero()
		}
	}
	return b
}

func (b *BV) W() int { return len(b.Bits) }

// Const returns the value if every bit is constant.
func (b *BV) Const() (uint64, bool) {
	var x uint64
	for i, p := range b.Bits {
		if !p.IsConst() {
			return 0, false
		}
		if p.IsOne() && i < 64 {
			x |= 1 << uint(i)
		}
	}
	return x, true
}

// Int returns the constant value as a signed integer according to Signed.
func (b *BV) Int() (int64, bool) {
	x, ok := b.Const()
	if !ok {
		return 0, false
	}
	w := b.W()
	if b.Signed && w < 64 && w > 0 && x>>(uint(w)-1)&1 == 1 {
		x |= ^uint64(0) << uint(w)
	}
	return int64(x), true
}

func (b *BV) Resize(w int, signed bool) *BV {
	out := &BV{Bits: make([]Poly, w), Signed: signed}
	for i := 0; i < w; i++ {
		switch {
		case i < b.W():
			out.Bits[i] = b.Bits[i]
		case b.Signed && b.W() > 0:
			out.Bits[i] = b.Bits[b.W()-1]
		default:
			out.Bits[i] = Zero()
		}
	}
	return out
}

func bitwise(a, b *BV, f func(x, y Poly) Poly) *BV {
	out := &BV{Bits: make([]Poly, a.W()), Signed: a.Signed}
	for i := range a.Bits {
		out.Bits[i] = f(a.Bits[i], b.Bits[i])
	}
	return out
}

func BVAnd(a, b *BV) *BV    { return bitwise(a, b, And) }
func BVOr(a, b *BV) *BV     { return bitwise(a, b, Or) }
func BVXor(a, b *BV) *BV    { return bitwise(a, b, Xor) }
func BVAndNot(a, b *BV) *BV { return bitwise(a, b, func(x, y Poly) Poly { return And(x, Not(y)) }) }
func BVNot(a *BV) *BV {
	out := &BV{Bits: make([]Poly, a.W()), Signed: a.Signed}
	for i := range a.Bits {
		out.Bits[i] = Not(a.Bits[i])
	}
	return out
}

func BVShl(a *BV, n int) *BV {
	out := &BV{Bits: make([]Poly, a.W()), Signed: a.Signed}
	for i := range out.Bits {
		if i-n >= 0 && i-n < a.W() {
			out.Bits[i] = a.Bits[i-n]
		} else {
			out.Bits[i] = Zero()
		}
	}
	return out
}

func BVShr(a *BV, n int) *BV {
	out := &BV{Bits: make([]Poly, a.W()), Signed: a.Signed}
	for i := range out.Bits {
		switch {
		case i+n < a.W():
			out.Bits[i] = a.Bits[i+n]
		case a.Signed && a.W() > 0:
			out.Bits[i] = a.Bits[a.W()-1]
		default:
			out.Bits[i] = Zero()
		}
	}
	return out
}

// BVAdd is ripple-carry addition in ANF; ok is false if a polynomial exceeds the cap.
func BVAdd(a, b *BV, carryIn Poly) (*BV, bool) {
	out := &BV{Bits: make([]Poly, a.W()), Signed: a.Signed}
	c := carryIn
	for i := range a.Bits {
		x, y := a.Bits[i], b.Bits[i]
		out.Bits[i] = Xor(Xor(x, y), c)
		c = Xor(Xor(And(x, y), And(x, c)), And(y, c))
		if len(c) > MaxMonomials || len(out.Bits[i]) > MaxMonomials {
			return nil, false
		}
	}
	return out, true
}

// OrReduce is 1 iff any bit is 1.
func (b *BV) OrReduce() Poly {
	r := Zero()
	for _, p := range b.Bits {
		r = Or(r, p)
	}
	return r
}

// Restrict sets the given variables to 0.
func Restrict(p Poly, zero map[int]bool) Poly {
	out := Poly{}
	for m := range p {
		keep := true
		for _, v := range m.Vars() {
			if zero[v] {
				keep = false
				break
			}
		}
		if keep {
			out[m] = struct{}{}
		}
	}
	return out
}
