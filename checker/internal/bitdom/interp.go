package bitdom

import (
	"fmt"
	"go/constant"
	"go/token"
	"go/types"
	"math/bits"

	"golang.org/x/tools/go/ssa"
)

// Values of the abstract interpreter.
type (
	Val interface{}
	// Top is an unknown value.
	Top struct{ Why string }
	// Opaque is a reference-like value of which only nil-ness is known.
	Opaque struct {
		Tag    string
		NonNil bool
	}
	NilVal struct{}
	// Array is a mutable array object (also the backing store of slices and strings).
	Array struct {
		Elems []Val
		Name  string
	}
	Slice struct {
		A             *Array
		Off, Len, Cap int
		IsString      bool
	}
	Struct struct{ Fields []Val }
	Tuple  []Val
	// Ptr points to a cell, an array element or a struct field.
	Ptr struct {
		Cell  *Cell
		Arr   *Array
		Idx   int
		Strct *Struct
		Field int
	}
	Cell struct{ V Val }
	Func struct{ F *ssa.Function }
)

// Constraint: polynomial P must equal Want on the continuing path.
type Constraint struct {
	P    Poly
	Want bool
	Pos  token.Pos
	// Exit describes the rejecting alternative
	Exit string
}

// Exit is how an interpreted call ended.
type Exit struct {
	Panic   bool
	Results []Val
	Instr   ssa.Instruction
}

// Interp interprets go/ssa over the bit-level domain. Control flow must be
// decided by concrete values; a branch on a symbolic condition is accepted
// only as a guard (one side can only reject) or as a gate (both sides rejoin
// without side effects); anything else aborts with an error (UNDECIDED).
type Interp struct {
	Prog      *ssa.Program
	WordBits  int
	VarNames  []string
	Globals   map[*ssa.Global]*Cell
	Cons      []Constraint
	Steps     int
	MaxSteps  int
	inited    map[*ssa.Package]bool
	PhiHook   func(phi *ssa.Phi, visit int) (Val, bool) // override a phi's value; stop=true ends the run of that function returning the incoming values
	Captured  map[*ssa.Phi][]Val                        // incoming values seen by the hook when it stopped
	phiVisits map[*ssa.Phi]int
	// Models of library functions: name -> implementation.
	Models map[string]func(in *Interp, args []Val) (Val, error)
	depth  int
	// BothReject counts data-dependent branches whose two sides can only reject.
	BothReject int
}

func New(prog *ssa.Program, wordBits int) *Interp {
	in := &Interp{Prog: prog, WordBits: wordBits, Globals: map[*ssa.Global]*Cell{}, MaxSteps: 5_000_000,
		inited: map[*ssa.Package]bool{}, Captured: map[*ssa.Phi][]Val{}, phiVisits: map[*ssa.Phi]int{}}
	in.Models = defaultModels()
	return in
}

// NewVar allocates a fresh input bit.
func (in *Interp) NewVar(name string) Poly {
	in.VarNames = append(in.VarNames, name)
	return Var(len(in.VarNames) - 1)
}

func (in *Interp) Name(id int) string {
	if id < len(in.VarNames) {
		return in.VarNames[id]
	}
	return fmt.Sprintf("v%d", id)
}

// SymBV makes a fresh symbolic bit-vector; bits >= symBits are constant zero.
func (in *Interp) SymBV(name string, w, symBits int, signed bool) *BV {
	b := &BV{Bits: make([]Poly, w), Signed: signed}
	for i := 0; i < w; i++ {
		if i < symBits {
			b.Bits[i] = in.NewVar(fmt.Sprintf("%s.b%d", name, i))
		} else {
			b.Bits[i] = Zero()
		}
	}
	return b
}

// SymBytes makes a slice of n fresh symbolic elements of the given width.
func (in *Interp) SymSlice(name string, n, w, symBits int, isString bool) *Slice {
	a := &Array{Name: name}
	for i := 0; i < n; i++ {
		a.Elems = append(a.Elems, in.SymBV(fmt.Sprintf("%s[%d]", name, i), w, symBits, false))
	}
	return &Slice{A: a, Len: n, Cap: n, IsString: isString}
}

func ConstSlice(vals []uint64, w int) *Slice {
	a := &Array{}
	for _, v := range vals {
		a.Elems = append(a.Elems, ConstBV(v, w, false))
	}
	return &Slice{A: a, Len: len(vals), Cap: len(vals)}
}

type abort struct{ err error }

func (in *Interp) fail(format string, a ...interface{}) {
	panic(abort{fmt.Errorf(format, a...)})
}

func (in *Interp) width(t types.Type) (int, bool, bool) {
	b, ok := t.Underlying().(*types.Basic)
	if !ok {
		return 0, false, false
	}
	signed := b.Info()&types.IsUnsigned == 0
	switch b.Kind() {
	case types.Bool, types.UntypedBool:
		return 1, false, true
	case types.Int8, types.Uint8:
		return 8, signed, true
	case types.Int16, types.Uint16:
		return 16, signed, true
	case types.Int32, types.Uint32, types.UntypedRune:
		return 32, signed, true
	case types.Int64, types.Uint64, types.UntypedInt:
		return 64, signed, true
	case types.Int, types.Uint, types.Uintptr:
		return in.WordBits, signed, true
	}
	return 0, false, false
}

func (in *Interp) zero(t types.Type) Val {
	if w, s, ok := in.width(t); ok {
		return ConstBV(0, w, s)
	}
	switch u := t.Underlying().(type) {
	case *types.Array:
		a := &Array{}
		for i := int64(0); i < u.Len(); i++ {
			a.Elems = append(a.Elems, in.zero(u.Elem()))
		}
		return a
	case *types.Struct:
		s := &Struct{}
		for i := 0; i < u.NumFields(); i++ {
			s.Fields = append(s.Fields, in.zero(u.Field(i).Type()))
		}
		return s
	case *types.Slice:
		return &Slice{}
	case *types.Basic:
		if u.Info()&types.IsString != 0 {
			return &Slice{IsString: true, A: &Array{}}
		}
	}
	return NilVal{}
}

func deepCopy(v Val) Val {
	switch x := v.(type) {
	case *Array:
		a := &Array{Name: x.Name, Elems: make([]Val, len(x.Elems))}
		for i, e := range x.Elems {
			a.Elems[i] = deepCopy(e)
		}
		return a
	case *Struct:
		s := &Struct{Fields: make([]Val, len(x.Fields))}
		for i, e := range x.Fields {
			s.Fields[i] = deepCopy(e)
		}
		return s
	}
	return v
}

func (p *Ptr) load() Val {
	switch {
	case p.Cell != nil:
		return p.Cell.V
	case p.Arr != nil:
		return p.Arr.Elems[p.Idx]
	case p.Strct != nil:
		return p.Strct.Fields[p.Field]
	}
	return Top{"load of nil pointer"}
}

func (p *Ptr) store(v Val) {
	switch {
	case p.Cell != nil:
		p.Cell.V = v
	case p.Arr != nil:
		p.Arr.Elems[p.Idx] = v
	case p.Strct != nil:
		p.Strct.Fields[p.Field] = v
	}
}

type frame struct {
	fn   *ssa.Function
	vals map[ssa.Value]Val
	// early returns taken under a data-dependent condition: when the frame finally returns R, the result is
	// Mux(cond_k, early_k, …) applied from the last to the first
	early []earlyRet
}

type earlyRet struct {
	cond Poly
	res  []Val
}

// Call interprets fn on args. err != nil means the domain could not decide (⊤).
func (in *Interp) Call(fn *ssa.Function, args []Val) (ex *Exit, err error) {
	defer func() {
		if r := recover(); r != nil {
			if a, ok := r.(abort); ok {
				err = a.err
				return
			}
			panic(r)
		}
	}()
	return in.call(fn, args), nil
}

func (in *Interp) call(fn *ssa.Function, args []Val) *Exit {
	if fn.Blocks == nil {
		in.fail("call of function without body: %s", fn)
	}
	in.depth++
	defer func() { in.depth-- }()
	if in.depth > 40 {
		in.fail("call depth exceeded at %s", fn)
	}
	fr := &frame{fn: fn, vals: map[ssa.Value]Val{}}
	for i, p := range fn.Params {
		if i < len(args) {
			fr.vals[p] = args[i]
		}
	}
	blk := fn.Blocks[0]
	var pred *ssa.BasicBlock
	for {
		next, ex := in.runBlock(fr, blk, pred, 0)
		if ex != nil {
			if len(fr.early) > 0 {
				if ex.Panic {
					in.fail("explicit panic after a data-dependent early return in %s", fn)
				}
				for k := len(fr.early) - 1; k >= 0; k-- {
					er := fr.early[k]
					if len(er.res) != len(ex.Results) {
						in.fail("early return arity mismatch in %s", fn)
					}
					var res []Val
					for i := range er.res {
						a, ok1 := er.res[i].(*BV)
						b, ok2 := ex.Results[i].(*BV)
						if !ok1 || !ok2 || a.W() != b.W() {
							in.fail("data-dependent early return of non-scalar values in %s", fn)
						}
						m := &BV{Bits: make([]Poly, a.W()), Signed: a.Signed}
						for j := range m.Bits {
							m.Bits[j] = Mux(er.cond, a.Bits[j], b.Bits[j])
						}
						res = append(res, m)
					}
					ex = &Exit{Results: res, Instr: ex.Instr}
				}
			}
			return ex
		}
		pred, blk = blk, next
	}
}

func (in *Interp) get(fr *frame, v ssa.Value) Val {
	switch x := v.(type) {
	case *ssa.Const:
		return in.constVal(x)
	case *ssa.Global:
		return &Ptr{Cell: in.global(x)}
	case *ssa.Function:
		return &Func{x}
	case *ssa.Builtin:
		return Opaque{Tag: "builtin " + x.Name(), NonNil: true}
	}
	if val, ok := fr.vals[v]; ok {
		return val
	}
	in.fail("value %s (%T) used before definition in %s", v.Name(), v, fr.fn)
	return nil
}

func (in *Interp) constVal(c *ssa.Const) Val {
	if c.Value == nil {
		if w, s, ok := in.width(c.Type()); ok {
			return ConstBV(0, w, s)
		}
		return in.zeroOrNil(c.Type())
	}
	switch c.Value.Kind() {
	case constant.Bool:
		if constant.BoolVal(c.Value) {
			return ConstBV(1, 1, false)
		}
		return ConstBV(0, 1, false)
	case constant.Int:
		w, s, ok := in.width(c.Type())
		if !ok {
			return Top{"non-integer typed int constant"}
		}
		if x, ok := constant.Uint64Val(c.Value); ok {
			return ConstBV(x, w, s)
		}
		if x, ok := constant.Int64Val(c.Value); ok {
			return ConstBV(uint64(x), w, s)
		}
		return Top{"big constant"}
	case constant.String:
		s := constant.StringVal(c.Value)
		a := &Array{}
		for i := 0; i < len(s); i++ {
			a.Elems = append(a.Elems, ConstBV(uint64(s[i]), 8, false))
		}
		return &Slice{A: a, Len: len(s), Cap: len(s), IsString: true}
	}
	return Top{"constant kind " + c.Value.Kind().String()}
}

func (in *Interp) zeroOrNil(t types.Type) Val {
	switch t.Underlying().(type) {
	case *types.Pointer, *types.Interface, *types.Map, *types.Chan, *types.Signature:
		return NilVal{}
	case *types.Slice:
		return &Slice{}
	}
	return in.zero(t)
}

func (in *Interp) global(g *ssa.Global) *Cell {
	if c, ok := in.Globals[g]; ok {
		return c
	}
	// run the package initialiser once to obtain initial values (constant tables)
	pkg := g.Pkg
	if !in.inited[pkg] {
		in.inited[pkg] = true
		for _, m := range pkg.Members {
			if gg, ok := m.(*ssa.Global); ok {
				if _, have := in.Globals[gg]; !have {
					in.Globals[gg] = &Cell{V: in.zero(gg.Type().(*types.Pointer).Elem())}
				}
			}
		}
		if init := pkg.Func("init"); init != nil {
			in.runInit(init)
		}
	}
	if c, ok := in.Globals[g]; ok {
		return c
	}
	c := &Cell{V: Top{"global " + g.Name()}}
	in.Globals[g] = c
	return c
}

// runInit interprets a package initialiser, skipping the initialisers of imported packages.
func (in *Interp) runInit(init *ssa.Function) {
	saveCons := in.Cons
	defer func() {
		in.Cons = saveCons
		if r := recover(); r != nil {
			if _, ok := r.(abort); ok {
				return // partially initialised: remaining globals stay zero/Top
			}
			panic(r)
		}
	}()
	in.call(init, nil)
}

func isTop(v Val) bool { _, ok := v.(Top); return ok }

func (in *Interp) runBlock(fr *frame, blk, pred *ssa.BasicBlock, from int) (*ssa.BasicBlock, *Exit) {
	// phis first (parallel assignment)
	if from == 0 {
		var phiVals []Val
		var phis []*ssa.Phi
		for _, ins := range blk.Instrs {
			phi, ok := ins.(*ssa.Phi)
			if !ok {
				break
			}
			idx := -1
			for i, p := range blk.Preds {
				if p == pred {
					idx = i
				}
			}
			if idx < 0 {
				in.fail("phi without matching predecessor in %s", fr.fn)
			}
			v := in.get(fr, phi.Edges[idx])
			phis = append(phis, phi)
			phiVals = append(phiVals, v)
		}
		if in.PhiHook != nil && len(phis) > 0 {
			stopAll := false
			for i, phi := range phis {
				in.phiVisits[phi]++
				if ov, stop := in.PhiHook(phi, in.phiVisits[phi]); stop {
					in.Captured[phi] = append(in.Captured[phi], phiVals[i])
					stopAll = true
				} else if ov != nil {
					phiVals[i] = ov
				}
			}
			if stopAll {
				return nil, &Exit{Instr: phis[0], Results: nil}
			}
		}
		for i, phi := range phis {
			fr.vals[phi] = phiVals[i]
		}
		from = len(phis)
	}
	for i := from; i < len(blk.Instrs); i++ {
		in.Steps++
		if in.Steps > in.MaxSteps {
			in.fail("step budget exceeded in %s", fr.fn)
		}
		ins := blk.Instrs[i]
		switch x := ins.(type) {
		case *ssa.Phi:
			in.fail("phi in the middle of a block")
		case *ssa.Jump:
			return blk.Succs[0], nil
		case *ssa.Return:
			var res []Val
			for _, r := range x.Results {
				res = append(res, in.get(fr, r))
			}
			return nil, &Exit{Results: res, Instr: x}
		case *ssa.Panic:
			return nil, &Exit{Panic: true, Instr: x}
		case *ssa.If:
			c := in.get(fr, x.Cond)
			bv, ok := c.(*BV)
			if !ok {
				in.fail("branch on unknown condition at %s in %s: %v", in.pos(x.Cond.Pos()), fr.fn.Name(), c)
			}
			p := bv.Bits[0]
			if p.IsOne() {
				return blk.Succs[0], nil
			}
			if p.IsZero() {
				return blk.Succs[1], nil
			}
			return in.symbolicBranch(fr, blk, x, p)
		case *ssa.Store:
			ptr, ok := in.get(fr, x.Addr).(*Ptr)
			if !ok {
				in.fail("store through unknown pointer at %s", in.pos(x.Pos()))
			}
			ptr.store(deepCopy(in.get(fr, x.Val)))
		case *ssa.DebugRef:
		case *ssa.RunDefers:
		case *ssa.Defer, *ssa.Go, *ssa.Send, *ssa.Select:
			in.fail("unsupported instruction %T in %s", ins, fr.fn)
		case *ssa.MapUpdate:
			in.fail("map update in %s", fr.fn)
		case ssa.Value:
			fr.vals[x] = in.eval(fr, x)
		default:
			in.fail("unsupported instruction %T", ins)
		}
	}
	in.fail("block without terminator")
	return nil, nil
}

func (in *Interp) pos(p token.Pos) string {
	if !p.IsValid() {
		return "-"
	}
	ps := in.Prog.Fset.Position(p)
	return fmt.Sprintf("%s:%d", ps.Filename, ps.Line)
}

// rejectOnly reports whether every path from blk ends in a panic or a return
// whose last result is a non-nil error expression, without loops.
func rejectOnly(blk *ssa.BasicBlock, seen map[*ssa.BasicBlock]bool) bool {
	if seen[blk] {
		return false
	}
	seen[blk] = true
	defer delete(seen, blk)
	last := blk.Instrs[len(blk.Instrs)-1]
	switch x := last.(type) {
	case *ssa.Panic:
		return true
	case *ssa.Return:
		if len(x.Results) == 0 {
			return false
		}
		r := x.Results[len(x.Results)-1]
		if !types.Identical(r.Type(), types.Universe.Lookup("error").Type()) {
			// boolean "ok" results: reject = constant false
			if c, ok := r.(*ssa.Const); ok && c.Value != nil && c.Value.Kind() == constant.Bool {
				return !constant.BoolVal(c.Value)
			}
			return false
		}
		if c, ok := r.(*ssa.Const); ok && c.Value == nil {
			return false
		}
		if _, isPhi := r.(*ssa.Phi); isPhi {
			return false
		}
		return true
	}
	if len(blk.Succs) == 0 {
		return false
	}
	for _, s := range blk.Succs {
		if !rejectOnly(s, seen) {
			return false
		}
	}
	return true
}

func (in *Interp) symbolicBranch(fr *frame, blk *ssa.BasicBlock, ifi *ssa.If, p Poly) (*ssa.BasicBlock, *Exit) {
	r0 := rejectOnly(blk.Succs[0], map[*ssa.BasicBlock]bool{})
	r1 := rejectOnly(blk.Succs[1], map[*ssa.BasicBlock]bool{})
	switch {
	case r0 && !r1:
		in.Cons = append(in.Cons, Constraint{P: p, Want: false, Pos: ifi.Cond.Pos(), Exit: describeExit(blk.Succs[0])})
		return blk.Succs[1], nil
	case r1 && !r0:
		in.Cons = append(in.Cons, Constraint{P: p, Want: true, Pos: ifi.Cond.Pos(), Exit: describeExit(blk.Succs[1])})
		return blk.Succs[0], nil
	case r0 && r1:
		// the whole continuation rejects: follow either side, nothing to record
		in.BothReject++
		return blk.Succs[1], nil
	}
	// return-gate: both sides are effect-free blocks ending in a return: the results are muxed
	if ra, rb := pureReturnBlock(blk.Succs[0]), pureReturnBlock(blk.Succs[1]); ra != nil && rb != nil && len(ra.Results) == len(rb.Results) {
		for _, sb := range []*ssa.BasicBlock{blk.Succs[0], blk.Succs[1]} {
			for _, ins := range sb.Instrs {
				if v, ok := ins.(ssa.Value); ok {
					if _, isCall := ins.(*ssa.Call); isCall {
						in.fail("call inside a data-dependent return at %s", in.pos(ins.Pos()))
					}
					fr.vals[v] = in.eval(fr, v)
				}
			}
		}
		var res []Val
		for i := range ra.Results {
			a, ok1 := in.get(fr, ra.Results[i]).(*BV)
			b, ok2 := in.get(fr, rb.Results[i]).(*BV)
			if !ok1 || !ok2 || a.W() != b.W() {
				in.fail("data-dependent return of non-scalar values at %s", in.pos(ifi.Cond.Pos()))
			}
			m := &BV{Bits: make([]Poly, a.W()), Signed: a.Signed}
			for k := range m.Bits {
				m.Bits[k] = Mux(p, a.Bits[k], b.Bits[k])
			}
			res = append(res, m)
		}
		return nil, &Exit{Results: res, Instr: ra}
	}
	// early return: one side is an effect-free block ending in a return of scalars, the other side goes on. The
	// returned values are kept and muxed into whatever the function finally returns.
	for side := 0; side < 2; side++ {
		ra := pureReturnBlock(blk.Succs[side])
		if ra == nil || pureReturnBlock(blk.Succs[1-side]) != nil {
			continue
		}
		for _, ins := range blk.Succs[side].Instrs {
			if v, ok := ins.(ssa.Value); ok {
				fr.vals[v] = in.eval(fr, v)
			}
		}
		var res []Val
		for _, rv := range ra.Results {
			res = append(res, in.get(fr, rv))
		}
		cond := p
		if side == 1 {
			cond = Not(p)
		}
		fr.early = append(fr.early, earlyRet{cond: cond, res: res})
		return blk.Succs[1-side], nil
	}
	// gate: both sides rejoin at a common block through straight-line, effect-free code
	chain := func(s *ssa.BasicBlock) ([]*ssa.BasicBlock, *ssa.BasicBlock) {
		var bs []*ssa.BasicBlock
		for n := 0; n < 8; n++ {
			if len(s.Preds) > 1 {
				return bs, s
			}
			bs = append(bs, s)
			if _, ok := s.Instrs[len(s.Instrs)-1].(*ssa.Jump); !ok {
				return nil, nil
			}
			s = s.Succs[0]
		}
		return nil, nil
	}
	c0, j0 := chain(blk.Succs[0])
	c1, j1 := chain(blk.Succs[1])
	if j0 == nil || j1 == nil || j0 != j1 {
		in.fail("data-dependent branch at %s is neither a guard nor a gate", in.pos(ifi.Cond.Pos()))
	}
	join := j0
	lastOf := func(c []*ssa.BasicBlock) *ssa.BasicBlock {
		if len(c) == 0 {
			return blk
		}
		return c[len(c)-1]
	}
	for _, c := range [][]*ssa.BasicBlock{c0, c1} {
		for _, b := range c {
			for _, ins := range b.Instrs {
				switch x := ins.(type) {
				case *ssa.Jump, *ssa.DebugRef:
				case *ssa.Store, *ssa.MapUpdate, *ssa.Call, *ssa.Phi:
					_ = x
					if call, ok := ins.(*ssa.Call); ok && isPureBuiltin(call) {
						fr.vals[call] = in.eval(fr, call)
						continue
					}
					in.fail("side effect inside a data-dependent gate at %s", in.pos(ins.Pos()))
				case ssa.Value:
					fr.vals[x] = in.eval(fr, x)
				default:
					in.fail("unsupported instruction in gate: %T", ins)
				}
			}
		}
	}
	p0, p1 := lastOf(c0), lastOf(c1)
	var phis []*ssa.Phi
	var vals []Val
	for _, ins := range join.Instrs {
		phi, ok := ins.(*ssa.Phi)
		if !ok {
			break
		}
		var a, b Val
		for i, pr := range join.Preds {
			if pr == p0 {
				a = in.get(fr, phi.Edges[i])
			}
			if pr == p1 {
				b = in.get(fr, phi.Edges[i])
			}
		}
		av, ok1 := a.(*BV)
		bv, ok2 := b.(*BV)
		if !ok1 || !ok2 || av.W() != bv.W() {
			in.fail("gate merges non-scalar values at %s", in.pos(phi.Pos()))
		}
		m := &BV{Bits: make([]Poly, av.W()), Signed: av.Signed}
		for i := range m.Bits {
			m.Bits[i] = Mux(p, av.Bits[i], bv.Bits[i])
			if len(m.Bits[i]) > MaxMonomials {
				in.fail("polynomial too large at gate %s", in.pos(phi.Pos()))
			}
		}
		phis = append(phis, phi)
		vals = append(vals, m)
	}
	for i, phi := range phis {
		fr.vals[phi] = vals[i]
	}
	next, ex := in.runBlock(fr, join, nil, len(phis))
	if ex != nil {
		return nil, ex
	}
	// continue the outer loop from the join's successor: emulate by returning a jump
	return in.continueFrom(fr, join, next)
}

// continueFrom lets the caller's loop proceed with (pred=join, blk=next).
func (in *Interp) continueFrom(fr *frame, join, next *ssa.BasicBlock) (*ssa.BasicBlock, *Exit) {
	pred, blk := join, next
	for {
		n, ex := in.runBlock(fr, blk, pred, 0)
		if ex != nil {
			return nil, ex
		}
		pred, blk = blk, n
	}
}

// pureReturnBlock: a block with a single predecessor that only computes values and returns.
func pureReturnBlock(b *ssa.BasicBlock) *ssa.Return {
	if len(b.Preds) != 1 {
		return nil
	}
	ret, ok := b.Instrs[len(b.Instrs)-1].(*ssa.Return)
	if !ok {
		return nil
	}
	for _, ins := range b.Instrs[:len(b.Instrs)-1] {
		switch ins.(type) {
		case *ssa.Store, *ssa.MapUpdate, *ssa.Call, *ssa.Phi, *ssa.Send, *ssa.Go, *ssa.Defer, *ssa.RunDefers:
			return nil
		}
	}
	return ret
}

func isPureBuiltin(c *ssa.Call) bool {
	b, ok := c.Call.Value.(*ssa.Builtin)
	return ok && (b.Name() == "len" || b.Name() == "cap")
}

func describeExit(b *ssa.BasicBlock) string {
	last := b.Instrs[len(b.Instrs)-1]
	switch last.(type) {
	case *ssa.Panic:
		return "panic"
	case *ssa.Return:
		return "error return"
	}
	return "reject"
}

func (in *Interp) eval(fr *frame, v ssa.Value) Val {
	switch x := v.(type) {
	case *ssa.Alloc:
		return &Ptr{Cell: &Cell{V: in.zero(x.Type().(*types.Pointer).Elem())}}
	case *ssa.BinOp:
		return in.binop(x, in.get(fr, x.X), in.get(fr, x.Y))
	case *ssa.UnOp:
		o := in.get(fr, x.X)
		switch x.Op {
		case token.MUL:
			p, ok := o.(*Ptr)
			if !ok {
				return Top{"load through unknown pointer"}
			}
			return deepCopy(p.load())
		case token.NOT:
			if b, ok := o.(*BV); ok {
				return BVNot(b)
			}
		case token.XOR:
			if b, ok := o.(*BV); ok {
				return BVNot(b)
			}
		case token.SUB:
			if b, ok := o.(*BV); ok {
				r, ok := BVAdd(BVNot(b), ConstBV(0, b.W(), b.Signed), One())
				if ok {
					return r
				}
			}
		}
		return Top{"unop " + x.Op.String()}
	case *ssa.Convert:
		o := in.get(fr, x.X)
		if w, s, ok := in.width(x.Type()); ok {
			if b, ok := o.(*BV); ok {
				return b.Resize(w, s)
			}
			return Top{"convert of non-integer"}
		}
		if sl, ok := o.(*Slice); ok {
			// string <-> []byte: copy
			a := &Array{Elems: make([]Val, sl.Len)}
			for i := 0; i < sl.Len; i++ {
				a.Elems[i] = sl.A.Elems[sl.Off+i]
			}
			_, toString := x.Type().Underlying().(*types.Basic)
			return &Slice{A: a, Len: sl.Len, Cap: sl.Len, IsString: toString}
		}
		if b, ok := o.(*BV); ok {
			// string(rune/byte)
			if bt, isB := x.Type().Underlying().(*types.Basic); isB && bt.Info()&types.IsString != 0 {
				if c, ok := b.Const(); ok && c < 0x80 {
					return &Slice{A: &Array{Elems: []Val{ConstBV(c, 8, false)}}, Len: 1, Cap: 1, IsString: true}
				}
			}
		}
		return Top{"convert"}
	case *ssa.ChangeType:
		return in.get(fr, x.X)
	case *ssa.MakeInterface:
		o := in.get(fr, x.X)
		switch o.(type) {
		case NilVal:
			return Opaque{Tag: "iface(nil ptr)", NonNil: true}
		}
		return Opaque{Tag: "iface", NonNil: true}
	case *ssa.ChangeInterface:
		return in.get(fr, x.X)
	case *ssa.Phi:
		in.fail("phi evaluated out of order")
	case *ssa.IndexAddr:
		base := in.get(fr, x.X)
		idx, ok := in.concreteInt(in.get(fr, x.Index))
		if !ok {
			in.fail("data-dependent index at %s", in.pos(x.Pos()))
		}
		switch b := base.(type) {
		case *Slice:
			if idx < 0 || int(idx) >= b.Len {
				in.fail("index %d out of range [0,%d) at %s", idx, b.Len, in.pos(x.Pos()))
			}
			return &Ptr{Arr: b.A, Idx: b.Off + int(idx)}
		case *Ptr:
			arr, ok := b.load().(*Array)
			if !ok {
				in.fail("index of non-array pointer at %s", in.pos(x.Pos()))
			}
			if idx < 0 || int(idx) >= len(arr.Elems) {
				in.fail("index %d out of range [0,%d) at %s", idx, len(arr.Elems), in.pos(x.Pos()))
			}
			return &Ptr{Arr: arr, Idx: int(idx)}
		}
		return Top{"indexaddr"}
	case *ssa.Index:
		base := in.get(fr, x.X)
		idx, ok := in.concreteInt(in.get(fr, x.Index))
		if !ok {
			in.fail("data-dependent index at %s", in.pos(x.Pos()))
		}
		if a, ok := base.(*Array); ok {
			if idx < 0 || int(idx) >= len(a.Elems) {
				in.fail("index out of range at %s", in.pos(x.Pos()))
			}
			return a.Elems[idx]
		}
		if s, ok := base.(*Slice); ok { // string index
			if idx < 0 || int(idx) >= s.Len {
				in.fail("index %d out of range [0,%d) at %s", idx, s.Len, in.pos(x.Pos()))
			}
			return s.A.Elems[s.Off+int(idx)]
		}
		return Top{"index"}
	case *ssa.Lookup:
		base := in.get(fr, x.X)
		if s, ok := base.(*Slice); ok {
			idx, ok := in.concreteInt(in.get(fr, x.Index))
			if !ok {
				in.fail("data-dependent string index at %s", in.pos(x.Pos()))
			}
			if idx < 0 || int(idx) >= s.Len {
				in.fail("index %d out of range [0,%d) at %s", idx, s.Len, in.pos(x.Pos()))
			}
			return s.A.Elems[s.Off+int(idx)]
		}
		return Top{"map lookup"}
	case *ssa.FieldAddr:
		base, ok := in.get(fr, x.X).(*Ptr)
		if !ok {
			return Top{"fieldaddr of unknown"}
		}
		s, ok := base.load().(*Struct)
		if !ok {
			return Top{"fieldaddr of non-struct"}
		}
		return &Ptr{Strct: s, Field: x.Field}
	case *ssa.Field:
		if s, ok := in.get(fr, x.X).(*Struct); ok {
			return s.Fields[x.Field]
		}
		return Top{"field"}
	case *ssa.Slice:
		return in.slice(fr, x)
	case *ssa.MakeSlice:
		n, ok1 := in.concreteInt(in.get(fr, x.Len))
		cp, ok2 := in.concreteInt(in.get(fr, x.Cap))
		if !ok1 || !ok2 || n < 0 || cp < n || cp > 1<<20 {
			in.fail("make with data-dependent or invalid size at %s", in.pos(x.Pos()))
		}
		a := &Array{}
		et := x.Type().Underlying().(*types.Slice).Elem()
		for i := int64(0); i < cp; i++ {
			a.Elems = append(a.Elems, in.zero(et))
		}
		return &Slice{A: a, Len: int(n), Cap: int(cp)}
	case *ssa.Extract:
		t := in.get(fr, x.Tuple)
		if tp, ok := t.(Tuple); ok && x.Index < len(tp) {
			return tp[x.Index]
		}
		return Top{"extract"}
	case *ssa.Call:
		return in.callInstr(fr, x)
	case *ssa.TypeAssert, *ssa.MakeMap, *ssa.MakeChan, *ssa.MakeClosure, *ssa.Range, *ssa.Next, *ssa.Select:
		return Top{fmt.Sprintf("%T", v)}
	}
	return Top{fmt.Sprintf("unsupported %T", v)}
}

func (in *Interp) concreteInt(v Val) (int64, bool) {
	b, ok := v.(*BV)
	if !ok {
		return 0, false
	}
	return b.Int()
}

func (in *Interp) slice(fr *frame, x *ssa.Slice) Val {
	base := in.get(fr, x.X)
	var arr *Array
	off, ln, cp := 0, 0, 0
	isStr := false
	switch b := base.(type) {
	case *Slice:
		arr, off, ln, cp, isStr = b.A, b.Off, b.Len, b.Cap, b.IsString
		if isStr {
			cp = ln
		}
	case *Ptr:
		a, ok := b.load().(*Array)
		if !ok {
			in.fail("slice of non-array pointer at %s", in.pos(x.Pos()))
		}
		arr, ln, cp = a, len(a.Elems), len(a.Elems)
	default:
		in.fail("slice of unknown value at %s", in.pos(x.Pos()))
	}
	lo, hi, mx := int64(0), int64(ln), int64(cp)
	var ok bool
	if x.Low != nil {
		if lo, ok = in.concreteInt(in.get(fr, x.Low)); !ok {
			in.fail("data-dependent slice bound at %s", in.pos(x.Pos()))
		}
	}
	if x.High != nil {
		if hi, ok = in.concreteInt(in.get(fr, x.High)); !ok {
			in.fail("data-dependent slice bound at %s", in.pos(x.Pos()))
		}
	}
	if x.Max != nil {
		if mx, ok = in.concreteInt(in.get(fr, x.Max)); !ok {
			in.fail("data-dependent slice bound at %s", in.pos(x.Pos()))
		}
	}
	if lo < 0 || hi < lo || hi > int64(cp) || mx > int64(cp) || hi > mx {
		in.fail("slice bounds out of range [%d:%d:%d] with capacity %d at %s", lo, hi, mx, cp, in.pos(x.Pos()))
	}
	if arr == nil {
		arr = &Array{}
	}
	return &Slice{A: arr, Off: off + int(lo), Len: int(hi - lo), Cap: int(mx - lo), IsString: isStr}
}

func (in *Interp) binop(x *ssa.BinOp, l, r Val) Val {
	// nil / opaque comparisons
	if x.Op == token.EQL || x.Op == token.NEQ {
		ln, lk := nilness(l)
		rn, rk := nilness(r)
		if lk && rk && (ln || rn) {
			eq := ln == rn
			if !ln && !rn {
				return Top{"comparison of two non-nil references"}
			}
			if (x.Op == token.EQL) == eq {
				return ConstBV(1, 1, false)
			}
			return ConstBV(0, 1, false)
		}
	}
	a, ok1 := l.(*BV)
	b, ok2 := r.(*BV)
	if !ok1 || !ok2 {
		if sa, ok := l.(*Slice); ok && sa.IsString {
			if sb, ok := r.(*Slice); ok && sb.IsString && (x.Op == token.EQL || x.Op == token.NEQ) {
				return in.strEq(sa, sb, x.Op == token.EQL)
			}
			if sb, ok := r.(*Slice); ok && sb.IsString && x.Op == token.ADD {
				arr := &Array{}
				for i := 0; i < sa.Len; i++ {
					arr.Elems = append(arr.Elems, sa.A.Elems[sa.Off+i])
				}
				for i := 0; i < sb.Len; i++ {
					arr.Elems = append(arr.Elems, sb.A.Elems[sb.Off+i])
				}
				return &Slice{A: arr, Len: len(arr.Elems), Cap: len(arr.Elems), IsString: true}
			}
		}
		return Top{"binop on non-integers"}
	}
	if isShift(x.Op) {
		n, ok := b.Const()
		if !ok {
			return Top{"data-dependent shift amount"}
		}
		if n > uint64(a.W()) {
			n = uint64(a.W())
		}
		if x.Op == token.SHL {
			return BVShl(a, int(n))
		}
		return BVShr(a, int(n))
	}
	if a.W() != b.W() {
		return Top{"width mismatch"}
	}
	bool1 := func(p Poly) Val { return &BV{Bits: []Poly{p}} }
	switch x.Op {
	case token.AND:
		return BVAnd(a, b)
	case token.OR:
		return BVOr(a, b)
	case token.XOR:
		return BVXor(a, b)
	case token.AND_NOT:
		return BVAndNot(a, b)
	case token.EQL:
		return bool1(Not(BVXor(a, b).OrReduce()))
	case token.NEQ:
		return bool1(BVXor(a, b).OrReduce())
	case token.ADD:
		if res, ok := BVAdd(a, b, Zero()); ok {
			return res
		}
		return Top{"addition too large"}
	case token.SUB:
		if res, ok := BVAdd(a, BVNot(b), One()); ok {
			return res
		}
		return Top{"subtraction too large"}
	}
	// division, remainder and multiplication by a constant power of two are shifts / masks
	if cb, okb := b.Const(); okb && cb != 0 && cb&(cb-1) == 0 {
		n := 0
		for (cb>>uint(n))&1 == 0 {
			n++
		}
		nonNeg := !a.Signed || (len(a.Bits) > 0 && a.Bits[len(a.Bits)-1].IsZero())
		switch {
		case x.Op == token.QUO && nonNeg:
			return BVShr(a, n)
		case x.Op == token.REM && nonNeg:
			return BVAnd(a, ConstBV(cb-1, a.W(), a.Signed))
		case x.Op == token.MUL:
			return BVShl(a, n)
		}
	}
	if ca, oka := a.Const(); oka && ca != 0 && ca&(ca-1) == 0 && x.Op == token.MUL {
		n := 0
		for (ca>>uint(n))&1 == 0 {
			n++
		}
		return BVShl(b, n)
	}
	// remaining operators need concrete operands
	ca, oka := a.Int()
	cb, okb := b.Int()
	if !oka || !okb {
		// comparisons of a symbolic value against a constant bound that its constant-zero high bits already decide
		if res, ok := symbolicCompare(x.Op, a, b); ok {
			return res
		}
		return Top{"arithmetic " + x.Op.String() + " on symbolic operands"}
	}
	ua, _ := a.Const()
	ub, _ := b.Const()
	b2 := func(c bool) Val {
		if c {
			return ConstBV(1, 1, false)
		}
		return ConstBV(0, 1, false)
	}
	switch x.Op {
	case token.MUL:
		return ConstBV(uint64(ca*cb), a.W(), a.Signed)
	case token.QUO:
		if cb == 0 {
			in.fail("division by zero at %s", in.pos(x.Pos()))
		}
		if a.Signed {
			return ConstBV(uint64(ca/cb), a.W(), true)
		}
		return ConstBV(ua/ub, a.W(), false)
	case token.REM:
		if cb == 0 {
			in.fail("division by zero at %s", in.pos(x.Pos()))
		}
		if a.Signed {
			return ConstBV(uint64(ca%cb), a.W(), true)
		}
		return ConstBV(ua%ub, a.W(), false)
	case token.LSS:
		if a.Signed {
			return b2(ca < cb)
		}
		return b2(ua < ub)
	case token.LEQ:
		if a.Signed {
			return b2(ca <= cb)
		}
		return b2(ua <= ub)
	case token.GTR:
		if a.Signed {
			return b2(ca > cb)
		}
		return b2(ua > ub)
	case token.GEQ:
		if a.Signed {
			return b2(ca >= cb)
		}
		return b2(ua >= ub)
	}
	return Top{"binop " + x.Op.String()}
}

// symbolicCompare decides x < c / x >= c … when the symbolic operand's
// possible range (from its constant-zero high bits) lies on one side of the constant.
func symbolicCompare(op token.Token, a, b *BV) (Val, bool) {
	rng := func(v *BV) (lo, hi uint64, ok bool) {
		if v.Signed && !v.Bits[v.W()-1].IsZero() {
			return 0, 0, false
		}
		for i, p := range v.Bits {
			if i >= 64 {
				break
			}
			if p.IsOne() {
				lo |= 1 << uint(i)
				hi |= 1 << uint(i)
			} else if !p.IsZero() {
				hi |= 1 << uint(i)
			}
		}
		return lo, hi, true
	}
	// signed comparison with a constant: flip the sign bits and compare unsigned
	if a.Signed && b.Signed && a.W() == b.W() && a.W() > 0 {
		if _, ok := b.Const(); ok {
			fa := &BV{Bits: append([]Poly{}, a.Bits...)}
			fb := &BV{Bits: append([]Poly{}, b.Bits...)}
			fa.Bits[a.W()-1] = Not(fa.Bits[a.W()-1])
			fb.Bits[b.W()-1] = Not(fb.Bits[b.W()-1])
			return symbolicCompare(op, fa, fb)
		}
	}
	// exact comparator circuit when one side is constant and the comparison is unsigned
	if !a.Signed && !b.Signed {
		if cb, ok := b.Const(); ok {
			gt, ge := ugtConst(a, cb), ugeConst(a, cb)
			switch op {
			case token.GTR:
				return &BV{Bits: []Poly{gt}}, true
			case token.GEQ:
				return &BV{Bits: []Poly{ge}}, true
			case token.LSS:
				return &BV{Bits: []Poly{Not(ge)}}, true
			case token.LEQ:
				return &BV{Bits: []Poly{Not(gt)}}, true
			}
		}
	}
	alo, ahi, ok1 := rng(a)
	blo, bhi, ok2 := rng(b)
	if !ok1 || !ok2 {
		return nil, false
	}
	t, f := ConstBV(1, 1, false), ConstBV(0, 1, false)
	switch op {
	case token.LSS:
		if ahi < blo {
			return t, true
		}
		if alo >= bhi {
			return f, true
		}
	case token.LEQ:
		if ahi <= blo {
			return t, true
		}
		if alo > bhi {
			return f, true
		}
	case token.GTR:
		if alo > bhi {
			return t, true
		}
		if ahi <= blo {
			return f, true
		}
	case token.GEQ:
		if alo >= bhi {
			return t, true
		}
		if ahi < blo {
			return f, true
		}
	}
	return nil, false
}

// ugtConst is the ANF of (x > c) for unsigned x.
func ugtConst(x *BV, c uint64) Poly {
	gt := Zero()
	for i := 0; i < x.W(); i++ {
		ci := i < 64 && c>>uint(i)&1 == 1
		if ci {
			gt = And(x.Bits[i], gt)
		} else {
			gt = Or(x.Bits[i], gt)
		}
	}
	return gt
}

// ugeConst is the ANF of (x >= c) for unsigned x.
func ugeConst(x *BV, c uint64) Poly {
	ge := One()
	for i := 0; i < x.W(); i++ {
		ci := i < 64 && c>>uint(i)&1 == 1
		if ci {
			ge = And(x.Bits[i], ge)
		} else {
			ge = Or(x.Bits[i], ge)
		}
	}
	return ge
}

func isShift(op token.Token) bool { return op == token.SHL || op == token.SHR }

func nilness(v Val) (isNil, known bool) {
	switch x := v.(type) {
	case NilVal:
		return true, true
	case Opaque:
		return !x.NonNil, true
	case *Ptr:
		return false, true
	case *Slice:
		return x.A == nil && x.Len == 0, true
	}
	return false, false
}

func (in *Interp) strEq(a, b *Slice, wantEq bool) Val {
	if a.Len != b.Len {
		if wantEq {
			return ConstBV(0, 1, false)
		}
		return ConstBV(1, 1, false)
	}
	diff := Zero()
	for i := 0; i < a.Len; i++ {
		x, ok1 := a.A.Elems[a.Off+i].(*BV)
		y, ok2 := b.A.Elems[b.Off+i].(*BV)
		if !ok1 || !ok2 {
			return Top{"string compare"}
		}
		diff = Or(diff, BVXor(x, y).OrReduce())
	}
	if wantEq {
		return &BV{Bits: []Poly{Not(diff)}}
	}
	return &BV{Bits: []Poly{diff}}
}

func (in *Interp) callInstr(fr *frame, c *ssa.Call) Val {
	cc := &c.Call
	var args []Val
	for _, a := range cc.Args {
		args = append(args, in.get(fr, a))
	}
	if b, ok := cc.Value.(*ssa.Builtin); ok {
		return in.builtin(c, b.Name(), args)
	}
	if cc.IsInvoke() {
		return Top{"interface call " + cc.Method.Name()}
	}
	callee := cc.StaticCallee()
	if callee == nil {
		return Top{"dynamic call"}
	}
	name := callee.String()
	if m, ok := in.Models[name]; ok {
		v, err := m(in, args)
		if err != nil {
			in.fail("%s at %s: %v", name, in.pos(c.Pos()), err)
		}
		return v
	}
	if callee.Synthetic == "package initializer" {
		return Tuple{}
	}
	if callee.Blocks == nil || !inModule(callee) {
		return in.opaqueResult(callee)
	}
	ex := in.call(callee, args)
	if ex.Panic {
		in.fail("callee %s panics on the analysed path (at %s)", callee.Name(), in.pos(ex.Instr.Pos()))
	}
	if ex.Results == nil && ex.Instr != nil {
		if _, isPhi := ex.Instr.(*ssa.Phi); isPhi {
			panic(abort{errStopped})
		}
	}
	switch len(ex.Results) {
	case 0:
		return Tuple{}
	case 1:
		return ex.Results[0]
	}
	return Tuple(ex.Results)
}

var errStopped = fmt.Errorf("stopped at phi hook")

// IsStopped reports whether err is the phi-hook stop.
func IsStopped(err error) bool { return err == errStopped }

// ModulePrefix restricts which functions are interpreted (others are opaque).
var ModulePrefix = "github.com/wollac/iota-crypto-demo"

// ExtraInterpreted lists additional package paths whose functions are interpreted (dependencies analysed read-only).
var ExtraInterpreted = map[string]bool{}

func inModule(f *ssa.Function) bool {
	if f.Pkg == nil {
		return false
	}
	p := f.Pkg.Pkg.Path()
	if ExtraInterpreted[p] {
		return true
	}
	return p == ModulePrefix || len(p) > len(ModulePrefix) && p[:len(ModulePrefix)+1] == ModulePrefix+"/"
}

func (in *Interp) opaqueResult(callee *ssa.Function) Val {
	res := callee.Signature.Results()
	mk := func(t types.Type) Val {
		if types.Identical(t, types.Universe.Lookup("error").Type()) {
			switch callee.String() {
			case "fmt.Errorf", "errors.New":
				return Opaque{Tag: callee.String(), NonNil: true}
			}
			return Top{"error result of " + callee.String()}
		}
		return Top{"result of " + callee.String()}
	}
	switch res.Len() {
	case 0:
		return Tuple{}
	case 1:
		return mk(res.At(0).Type())
	}
	var t Tuple
	for i := 0; i < res.Len(); i++ {
		t = append(t, mk(res.At(i).Type()))
	}
	return t
}

func (in *Interp) builtin(c *ssa.Call, name string, args []Val) Val {
	mkInt := func(n int) Val { return ConstBV(uint64(n), in.WordBits, true) }
	switch name {
	case "len":
		switch x := args[0].(type) {
		case *Slice:
			return mkInt(x.Len)
		case *Array:
			return mkInt(len(x.Elems))
		case *Ptr:
			if a, ok := x.load().(*Array); ok {
				return mkInt(len(a.Elems))
			}
		}
	case "cap":
		if x, ok := args[0].(*Slice); ok {
			return mkInt(x.Cap)
		}
	case "copy":
		dst, ok1 := args[0].(*Slice)
		src, ok2 := args[1].(*Slice)
		if ok1 && ok2 {
			n := dst.Len
			if src.Len < n {
				n = src.Len
			}
			tmp := make([]Val, n)
			for i := 0; i < n; i++ {
				tmp[i] = src.A.Elems[src.Off+i]
			}
			for i := 0; i < n; i++ {
				dst.A.Elems[dst.Off+i] = tmp[i]
			}
			return mkInt(n)
		}
	case "append":
		dst, ok1 := args[0].(*Slice)
		src, ok2 := args[1].(*Slice)
		if ok1 && ok2 {
			if dst.Len+src.Len <= dst.Cap && dst.A != nil {
				for i := 0; i < src.Len; i++ {
					dst.A.Elems[dst.Off+dst.Len+i] = src.A.Elems[src.Off+i]
				}
				return &Slice{A: dst.A, Off: dst.Off, Len: dst.Len + src.Len, Cap: dst.Cap}
			}
			a := &Array{}
			for i := 0; i < dst.Len; i++ {
				a.Elems = append(a.Elems, dst.A.Elems[dst.Off+i])
			}
			for i := 0; i < src.Len; i++ {
				a.Elems = append(a.Elems, src.A.Elems[src.Off+i])
			}
			return &Slice{A: a, Len: len(a.Elems), Cap: len(a.Elems)}
		}
	}
	return Top{"builtin " + name}
}

func defaultModels() map[string]func(in *Interp, args []Val) (Val, error) {
	conc := func(v Val) (uint64, int, bool) {
		b, ok := v.(*BV)
		if !ok {
			return 0, 0, false
		}
		c, ok := b.Const()
		return c, b.W(), ok
	}
	return map[string]func(in *Interp, args []Val) (Val, error){
		"math/bits.Len": func(in *Interp, a []Val) (Val, error) {
			c, _, ok := conc(a[0])
			if !ok {
				return Top{"bits.Len of symbolic"}, nil
			}
			return ConstBV(uint64(bits.Len64(c)), in.WordBits, true), nil
		},
		"(*strings.Builder).Grow": func(in *Interp, a []Val) (Val, error) { return Tuple{}, nil },
		"(*strings.Builder).WriteByte": func(in *Interp, a []Val) (Val, error) {
			p, ok := a[0].(*Ptr)
			if !ok {
				return Top{"builder"}, nil
			}
			st, _ := p.load().(*Struct)
			if st == nil {
				return Top{"builder"}, nil
			}
			sl, _ := st.Fields[len(st.Fields)-1].(*Slice)
			if sl == nil || sl.A == nil {
				sl = &Slice{A: &Array{}}
			}
			arr := &Array{Elems: append(append([]Val{}, sl.A.Elems[sl.Off:sl.Off+sl.Len]...), a[1])}
			st.Fields[len(st.Fields)-1] = &Slice{A: arr, Len: len(arr.Elems), Cap: len(arr.Elems)}
			return NilVal{}, nil
		},
		"(*strings.Builder).String": func(in *Interp, a []Val) (Val, error) {
			p, ok := a[0].(*Ptr)
			if !ok {
				return Top{"builder"}, nil
			}
			st, _ := p.load().(*Struct)
			if st == nil {
				return Top{"builder"}, nil
			}
			sl, _ := st.Fields[len(st.Fields)-1].(*Slice)
			if sl == nil || sl.A == nil {
				return &Slice{A: &Array{}, IsString: true}, nil
			}
			return &Slice{A: sl.A, Off: sl.Off, Len: sl.Len, Cap: sl.Len, IsString: true}, nil
		},
	}
}
