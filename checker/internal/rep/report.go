// Package rep collects obligations and writes evidence, replay files and the
// VIOLATION / KNOWN-FINDING lines of the interface.
package rep

import (
	"encoding/json"
	"fmt"
	"os"
	"path/filepath"
	"sort"
	"strings"
	"time"
)

type Status string

const (
	OK        Status = "OK"
	Violation Status = "VIOLATION"
	Undecided Status = "UNDECIDED"
)

// Obligation is one decided (or undecided) rule instance.
type Obligation struct {
	Key    string `json:"key"`    // Cnn.<rule>.<construct>
	Status Status `json:"status"` //
	Pos    string `json:"pos,omitempty"`
	Detail string `json:"detail,omitempty"`
	Config string `json:"config,omitempty"`
}

// Report accumulates the result of one property on one or more configurations.
type Report struct {
	Prop        string
	Tier        string
	Level       string
	Config      string // current configuration label
	Obls        []Obligation
	Rules       map[string]string // rule key prefix -> rule text
	Functions   map[string]bool
	CallSites   int
	Assumptions []string
	NotDecided  []string
	Explanation string
	Extra       map[string]interface{}
	start       time.Time
}

func New(prop, tier, level string) *Report {
	return &Report{Prop: prop, Tier: tier, Level: level, Rules: map[string]string{}, Functions: map[string]bool{}, Extra: map[string]interface{}{}, start: time.Now()}
}

// Rule registers the text of a rule (shown in the evidence).
func (r *Report) Rule(prefix, text string) { r.Rules[prefix] = text }

func (r *Report) add(st Status, key, pos, format string, a ...interface{}) {
	r.Obls = append(r.Obls, Obligation{Key: key, Status: st, Pos: pos, Detail: fmt.Sprintf(format, a...), Config: r.Config})
}

func (r *Report) OK(key, pos, format string, a ...interface{}) { r.add(OK, key, pos, format, a...) }
func (r *Report) Viol(key, pos, format string, a ...interface{}) {
	r.add(Violation, key, pos, format, a...)
}
func (r *Report) Undec(key, pos, format string, a ...interface{}) {
	r.add(Undecided, key, pos, format, a...)
}

// Check records OK when cond holds and a violation otherwise.
func (r *Report) Check(cond bool, key, pos, format string, a ...interface{}) bool {
	if cond {
		r.add(OK, key, pos, format, a...)
	} else {
		r.add(Violation, key, pos, format, a...)
	}
	return cond
}

// Floor fails closed when a rule matched fewer instances than confirmed by hand.
func (r *Report) Floor(key string, got, min int, what string) {
	if got < min {
		r.Undec(key, "", "instance count below floor: found %d %s, confirmed floor is %d — the rule would pass vacuously", got, what, min)
	} else {
		r.OK(key, "", "instance floor: %d %s (floor %d)", got, what, min)
	}
}

func (r *Report) Fn(name string)  { r.Functions[name] = true }
func (r *Report) Assume(s string) { r.Assumptions = appendUniq(r.Assumptions, s) }
func (r *Report) NotDec(s string) { r.NotDecided = appendUniq(r.NotDecided, s) }
func (r *Report) Sites(n int)     { r.CallSites += n }

func appendUniq(xs []string, s string) []string {
	for _, x := range xs {
		if x == s {
			return xs
		}
	}
	return append(xs, s)
}

// Finding is an entry of known_findings.json.
type Finding struct {
	Property string `json:"property"`
	Key      string `json:"key"`    // obligation key
	Status   string `json:"status"` // "known" | "fixed"
	What     string `json:"what"`
	Commit   string `json:"commit,omitempty"`
}

type findingsFile struct {
	Findings []Finding `json:"findings"`
}

func LoadFindings(path string) ([]Finding, error) {
	data, err := os.ReadFile(path)
	if err != nil {
		if os.IsNotExist(err) {
			return nil, nil
		}
		return nil, err
	}
	var f findingsFile
	if err := json.Unmarshal(data, &f); err != nil {
		return nil, err
	}
	return f.Findings, nil
}

// Finish prints the obligation list, writes evidence and replay files and
// returns the process exit code.
func (r *Report) Finish(verifDir string, seed int64, findings []Finding) int {
	known := map[string]Finding{}
	for _, f := range findings {
		if f.Property == r.Prop && f.Status == "known" {
			known[f.Key] = f
		}
	}
	sort.SliceStable(r.Obls, func(i, j int) bool {
		if r.Obls[i].Config != r.Obls[j].Config {
			return r.Obls[i].Config < r.Obls[j].Config
		}
		return r.Obls[i].Key < r.Obls[j].Key
	})
	nOK, nViol, nUnd, nKnown := 0, 0, 0, 0
	var bad []Obligation
	knownSeen := map[string]bool{}
	for _, o := range r.Obls {
		line := fmt.Sprintf("%-9s %s", o.Status, o.Key)
		if o.Config != "" {
			line += " [" + o.Config + "]"
		}
		if o.Pos != "" {
			line += " @ " + o.Pos
		}
		if o.Detail != "" {
			line += " — " + o.Detail
		}
		switch o.Status {
		case OK:
			nOK++
			if os.Getenv("VERIF_VERBOSE") != "" {
				fmt.Println(line)
			}
		case Violation:
			if f, ok := known[o.Key]; ok {
				nKnown++
				if !knownSeen[o.Key] {
					knownSeen[o.Key] = true
					fmt.Printf("KNOWN-FINDING: property=%s %s: %s\n", r.Prop, o.Key, f.What)
				}
				continue
			}
			nViol++
			bad = append(bad, o)
			fmt.Println(line)
		case Undecided:
			nUnd++
			bad = append(bad, o)
			fmt.Println(line)
		}
	}
	total := len(r.Obls)
	fmt.Printf("property=%s tier=%s obligations=%d ok=%d violations=%d undecided=%d known=%d functions=%d\n",
		r.Prop, r.Tier, total, nOK, nViol, nUnd, nKnown, len(r.Functions))

	evDir := filepath.Join(verifDir, "evidence")
	os.MkdirAll(filepath.Join(evDir, "replay"), 0o755)
	replayPath := ""
	if len(bad) > 0 {
		replayPath = filepath.Join(evDir, "replay", r.Prop+".json")
		data, _ := json.MarshalIndent(map[string]interface{}{
			"property": r.Prop, "tier": r.Tier, "failed_obligations": bad, "rules": r.Rules,
			"how_to_replay": fmt.Sprintf("cd /verif && ./run.sh %s %s   # static: re-inspects /repo's current source; each entry names rule key, file:line and the construct found", r.Prop, r.Tier),
		}, "", " ")
		os.WriteFile(replayPath, data, 0o644)
	}

	var fns []string
	for f := range r.Functions {
		fns = append(fns, f)
	}
	sort.Strings(fns)
	var samples []interface{}
	for i, o := range r.Obls {
		if i%maxInt(1, len(r.Obls)/12) == 0 && len(samples) < 14 {
			samples = append(samples, o)
		}
	}
	if len(samples) == 0 {
		samples = append(samples, "no obligations")
	}
	var keys []string
	seenKey := map[string]bool{}
	for _, o := range r.Obls {
		if !seenKey[o.Key] {
			seenKey[o.Key] = true
			keys = append(keys, o.Key)
		}
	}
	cov := map[string]interface{}{
		"obligations":          total,
		"discharged":           nOK,
		"known_findings":       nKnown,
		"undecided":            nUnd,
		"evaluations":          total,
		"distinct_nontrivial":  len(keys),
		"rule":                 "one evaluation = one obligation (rule instance keyed Cnn.<rule>.<construct>) decided on /repo's current source; distinct = distinct obligation keys (the same key may be decided on several build configurations)",
		"samples":              samples,
		"obligation_keys":      keys,
		"rules":                r.Rules,
		"functions_analysed":   fns,
		"call_sites_inspected": r.CallSites,
		"explanation":          r.Explanation,
		"not_decided":          r.NotDecided,
		"checker_cmd":          fmt.Sprintf("/verif/run.sh %s %s", r.Prop, r.Tier),
		"trusted_base":         []string{"go/types + go/ssa (golang.org/x/tools v0.29.0)", "the checker's own analysers under /verif/checker", "documented semantics of the libraries the repository calls"},
		"exhaustive":           false,
	}
	for k, v := range r.Extra {
		cov[k] = v
	}
	if r.Assumptions == nil {
		r.Assumptions = []string{"go/types and go/ssa (x/tools v0.29.0) model the program faithfully"}
	}
	if r.NotDecided == nil {
		r.NotDecided = []string{}
	}
	ev := map[string]interface{}{
		"property_id": r.Prop,
		"tier":        r.Tier,
		"seed":        seed,
		"level":       r.Level,
		"coverage":    cov,
		"assumptions": r.Assumptions,
		"wall_s":      time.Since(r.start).Seconds(),
		"violations":  nViol + nUnd,
	}
	data, _ := json.MarshalIndent(ev, "", " ")
	if err := os.WriteFile(filepath.Join(evDir, r.Prop+".json"), data, 0o644); err != nil {
		fmt.Println("cannot write evidence:", err)
		return 2
	}
	if len(bad) > 0 {
		var ks []string
		for _, o := range bad {
			ks = append(ks, o.Key)
		}
		fmt.Printf("failed: %s\n", strings.Join(ks, " "))
		fmt.Printf("VIOLATION property=%s replay=%s\n", r.Prop, replayPath)
		return 1
	}
	return 0
}

func maxInt(a, b int) int {
	if a > b {
		return a
	}
	return b
}
