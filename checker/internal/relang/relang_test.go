package relang

import "testing"

func TestEquiv(t *testing.T) {
	cases := []struct {
		a, b string
		eq   bool
	}{
		{`(\d+)([H']?)`, `[0-9]+[H']?`, true},
		{`(\d+)([H']?)`, `[0-9]+[Hh']?`, false},
		{`(\d+)([H']?)`, `[0-9]*[H']?`, false},
		{`(\d+)([H']?)`, `[0-9]+[H']*`, false},
		{`(\d+)([H']?)`, `\pN+[H']?`, false},
		{`[0-9][0-9]*`, `\d+`, true},
		{`(?i)h`, `[Hh]`, true},
		{`^a$`, `a`, true},
		{`.`, `[^\n]`, true},
	}
	for _, c := range cases {
		r, err := Equiv(c.a, c.b)
		if err != nil {
			t.Fatal(err)
		}
		if r.Equal != c.eq {
			t.Errorf("%q vs %q: got %v (cex %q)", c.a, c.b, r.Equal, r.Counterexample)
		}
	}
}
