// Package relang decides equality of the languages of two regular expressions
// (whole-string match) by exploring the product of the subset automata of
// their regexp/syntax programs over a partition of the alphabet that both
// respect. It is a decision procedure, not sampling.
package relang

import (
	"fmt"
	"regexp/syntax"
	"sort"
	"strings"
)

type nfa struct{ p *syntax.Prog }

func compile(src string) (*nfa, *syntax.Regexp, error) {
	re, err := syntax.Parse(src, syntax.Perl)
	if err != nil {
		return nil, nil, err
	}
	p, err := syntax.Compile(re.Simplify())
	if err != nil {
		return nil, nil, err
	}
	for _, in := range p.Inst {
		if in.Op == syntax.InstEmptyWidth && syntax.EmptyOp(in.Arg)&(syntax.EmptyWordBoundary|syntax.EmptyNoWordBoundary) != 0 {
			return nil, nil, fmt.Errorf("word-boundary assertions are outside the procedure")
		}
	}
	return &nfa{p}, re, nil
}

// closure follows epsilon moves from pcs; atStart/atEnd decide empty-width assertions.
func (n *nfa) closure(pcs []int, atStart, atEnd bool) []int {
	seen := map[int]bool{}
	var out []int
	var visit func(pc int)
	visit = func(pc int) {
		if seen[pc] {
			return
		}
		seen[pc] = true
		in := &n.p.Inst[pc]
		switch in.Op {
		case syntax.InstAlt, syntax.InstAltMatch:
			visit(int(in.Out))
			visit(int(in.Arg))
		case syntax.InstCapture, syntax.InstNop:
			visit(int(in.Out))
		case syntax.InstEmptyWidth:
			op := syntax.EmptyOp(in.Arg)
			ok := true
			if op&(syntax.EmptyBeginText|syntax.EmptyBeginLine) != 0 && !atStart {
				ok = false
			}
			if op&(syntax.EmptyEndText|syntax.EmptyEndLine) != 0 && !atEnd {
				ok = false
			}
			if ok {
				visit(int(in.Out))
			}
		case syntax.InstFail:
		default:
			out = append(out, pc)
		}
	}
	for _, pc := range pcs {
		visit(pc)
	}
	sort.Ints(out)
	return out
}

func (n *nfa) accepts(pcs []int, atStart bool) bool {
	for _, pc := range n.closure(pcs, atStart, true) {
		if n.p.Inst[pc].Op == syntax.InstMatch {
			return true
		}
	}
	return false
}

func (n *nfa) step(pcs []int, atStart bool, r rune) []int {
	set := map[int]bool{}
	for _, pc := range n.closure(pcs, atStart, false) {
		in := &n.p.Inst[pc]
		switch in.Op {
		case syntax.InstRune, syntax.InstRune1, syntax.InstRuneAny, syntax.InstRuneAnyNotNL:
			if in.MatchRune(r) {
				set[int(in.Out)] = true
			}
		}
	}
	var out []int
	for pc := range set {
		out = append(out, pc)
	}
	sort.Ints(out)
	return out
}

func (n *nfa) boundaries(b map[rune]bool) {
	for _, in := range n.p.Inst {
		switch in.Op {
		case syntax.InstRune, syntax.InstRune1:
			rs := in.Rune
			if len(rs) == 1 {
				b[rs[0]] = true
				b[rs[0]+1] = true
				if syntax.Flags(in.Arg)&syntax.FoldCase != 0 {
					for _, f := range foldOrbit(rs[0]) {
						b[f] = true
						b[f+1] = true
					}
				}
				continue
			}
			for i := 0; i+1 < len(rs); i += 2 {
				b[rs[i]] = true
				b[rs[i+1]+1] = true
			}
		case syntax.InstRuneAnyNotNL:
			b['\n'] = true
			b['\n'+1] = true
		}
	}
}

func foldOrbit(r rune) []rune {
	var out []rune
	for f := simpleFold(r); f != r; f = simpleFold(f) {
		out = append(out, f)
	}
	return out
}

// Result of an equivalence query.
type Result struct {
	Equal          bool
	Counterexample string // a string in exactly one of the two languages
	InFirst        bool
	States         int
	Classes        int
}

// Equiv decides L(a) == L(b) for whole-string matching.
func Equiv(a, b string) (Result, error) {
	na, _, err := compile(a)
	if err != nil {
		return Result{}, fmt.Errorf("%q: %w", a, err)
	}
	nb, _, err := compile(b)
	if err != nil {
		return Result{}, fmt.Errorf("%q: %w", b, err)
	}
	bs := map[rune]bool{0: true}
	na.boundaries(bs)
	nb.boundaries(bs)
	var cuts []rune
	for r := range bs {
		if r >= 0 && r <= 0x10FFFF {
			cuts = append(cuts, r)
		}
	}
	sort.Slice(cuts, func(i, j int) bool { return cuts[i] < cuts[j] })
	// one representative per cell [cuts[i], cuts[i+1])
	reps := cuts
	type st struct {
		a, b  []int
		start bool
		word  string
	}
	key := func(s st) string { return fmt.Sprint(s.a, "|", s.b, "|", s.start) }
	init := st{[]int{na.p.Start}, []int{nb.p.Start}, true, ""}
	seen := map[string]bool{key(init): true}
	queue := []st{init}
	for len(queue) > 0 {
		s := queue[0]
		queue = queue[1:]
		aa, ab := na.accepts(s.a, s.start), nb.accepts(s.b, s.start)
		if aa != ab {
			return Result{false, s.word, aa, len(seen), len(reps)}, nil
		}
		for _, r := range reps {
			t := st{na.step(s.a, s.start, r), nb.step(s.b, s.start, r), false, s.word + string(r)}
			if len(t.a) == 0 && len(t.b) == 0 {
				continue
			}
			k := key(t)
			if !seen[k] {
				seen[k] = true
				queue = append(queue, t)
			}
		}
		if len(seen) > 200000 {
			return Result{}, fmt.Errorf("state space too large")
		}
	}
	return Result{Equal: true, States: len(seen), Classes: len(reps)}, nil
}

// Captures describes the capture structure of a pattern: it must be a
// concatenation of capturing groups only; the source text of each group's
// body is returned.
func Captures(src string) ([]string, error) {
	re, err := syntax.Parse(src, syntax.Perl)
	if err != nil {
		return nil, err
	}
	var subs []*syntax.Regexp
	if re.Op == syntax.OpConcat {
		subs = re.Sub
	} else {
		subs = []*syntax.Regexp{re}
	}
	var out []string
	for _, s := range subs {
		if s.Op == syntax.OpBeginText || s.Op == syntax.OpEndText {
			continue // text anchors around the groups (see Anchored)
		}
		if s.Op != syntax.OpCapture {
			return nil, fmt.Errorf("top-level element %q is not a capturing group", s.String())
		}
		out = append(out, s.Sub[0].String())
	}
	if re.MaxCap() != len(out) {
		return nil, fmt.Errorf("nested capture groups (%d groups, %d top-level)", re.MaxCap(), len(out))
	}
	return out, nil
}

var _ = strings.Join

// Anchored reports whether a match of the pattern found by an unanchored
// search is necessarily the whole text: the pattern is a concatenation that
// begins with \A / ^ and ends with \z / $ (no multi-line flag).
func Anchored(src string) bool {
	re, err := syntax.Parse(src, syntax.Perl)
	if err != nil || re.Op != syntax.OpConcat || len(re.Sub) < 2 {
		return false
	}
	return re.Sub[0].Op == syntax.OpBeginText && re.Sub[len(re.Sub)-1].Op == syntax.OpEndText
}
