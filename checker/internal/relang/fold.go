package relang

import "unicode"

func simpleFold(r rune) rune { return unicode.SimpleFold(r) }
