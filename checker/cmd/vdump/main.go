// vdump prints the engine-S view of one function (development aid).
package main

import (
	"fmt"
	"os"
	"strings"

	"golang.org/x/tools/go/ssa"
	"verif/checker/internal/ana"
)

func main() {
	p, err := ana.Load(ana.Config{Dir: repoDir()})
	if err != nil {
		panic(err)
	}
	fn := p.Func(os.Args[1], os.Args[2])
	if fn == nil {
		fmt.Println("not found")
		os.Exit(1)
	}
	b := ana.NewBuilder(p, fn)
	fmt.Println("FUNC", fn)
	for _, ce := range b.CondEdges() {
		fmt.Printf("EDGE b%d->b%d  %s\n", ce.From.Index, ce.To.Index, ce.Lit)
	}
	for _, ci := range ana.Calls(fn) {
		fmt.Printf("CALL b%d %s: %s\n", ci.Block().Index, p.Pos(ci.Pos()), b.CallTermAt(ci))
	}
	for _, e := range ana.Exits(fn) {
		if e.Panic {
			fmt.Printf("PANIC b%d\n", e.Instr.Block().Index)
			continue
		}
		fmt.Printf("RET b%d:", e.Instr.Block().Index)
		for _, r := range e.Results {
			fmt.Printf("  %s", b.Of(r, e.Instr))
		}
		fmt.Println()
	}
	for _, blk := range fn.Blocks {
		for _, ins := range blk.Instrs {
			if s, ok := ins.(*ssa.Store); ok {
				fmt.Printf("STORE b%d %s <- %s\n", blk.Index, b.Of(s.Addr, s), b.Of(s.Val, s))
			}
		}
	}
	if len(os.Args) > 3 && strings.HasPrefix(os.Args[3], "bound:") {
		// edges and exits of a callee with its parameters bound to the argument terms of its call in fn
		for _, ci := range ana.Calls(fn) {
			h := ci.Common().StaticCallee()
			if h == nil || h.Name() != strings.TrimPrefix(os.Args[3], "bound:") {
				continue
			}
			hb := ana.NewBuilder(p, h)
			hb.Bind = map[*ssa.Parameter]*ana.Term{}
			for i, prm := range h.Params {
				hb.Bind[prm] = b.Of(ci.Common().Args[i], ci)
			}
			for _, ce := range hb.CondEdges() {
				fmt.Printf("BEDGE b%d->b%d  %s\n", ce.From.Index, ce.To.Index, ce.Lit)
			}
			for _, e := range ana.Exits(h) {
				if e.Panic {
					continue
				}
				fmt.Printf("BRET b%d:", e.Instr.Block().Index)
				for _, r := range e.Results {
					fmt.Printf("  %s", hb.Of(r, e.Instr))
				}
				fmt.Println()
			}
		}
	} else if len(os.Args) > 3 {
		fn.WriteTo(os.Stdout)
	}
}

func repoDir() string {
	if d := os.Getenv("VDUMP_REPO"); d != "" {
		return d
	}
	return "/repo"
}
