// vbit: development aid for engine B.
package main

import (
	"fmt"

	"verif/checker/internal/ana"
	"verif/checker/internal/bitdom"
)

func main() {
	p, err := ana.Load(ana.Config{Dir: "/repo"})
	if err != nil {
		panic(err)
	}
	fn := p.Func("pkg/bech32/internal/base32", "Decode")
	for _, n := range []int{0, 1, 2, 3, 4, 5, 6, 7, 8, 10, 13} {
		in := bitdom.New(p.SSA, 64)
		src := in.SymSlice("src", n, 8, 5, false)
		dst := bitdom.ConstSlice(make([]uint64, n*5/8), 8)
		ex, err := in.Call(fn, []bitdom.Val{dst, src})
		fmt.Println("n =", n, "err:", err)
		if err != nil {
			continue
		}
		fmt.Printf("  panic=%v results=%v constraints=%d\n", ex.Panic, ex.Results, len(in.Cons))
		for _, c := range in.Cons {
			fmt.Printf("  constraint %s == %v (%s)\n", c.P.Format(in.Name), c.Want, c.Exit)
		}
		for i := 0; i < dst.Len; i++ {
			b := dst.A.Elems[i].(*bitdom.BV)
			for j := 7; j >= 0; j-- {
				fmt.Printf("  dst[%d].b%d = %s\n", i, j, b.Bits[j].Format(in.Name))
			}
		}
	}
}
