// vcheck decides the properties of /verif/properties.jsonl on /repo's current
// source by static analysis. It never executes code of the repository.
package main

import (
	"flag"
	"fmt"
	"os"
	"os/exec"
	"runtime/debug"
	"strconv"
	"strings"

	"verif/checker/internal/ana"
	"verif/checker/internal/props"
	"verif/checker/internal/rep"
)

func main() {
	prop := flag.String("prop", "", "property id (C01..C20)")
	tier := flag.String("tier", "quick", "quick|thorough")
	repo := flag.String("repo", "/repo", "repository root")
	verif := flag.String("verif", "/verif", "verif root (evidence, known findings)")
	list := flag.Bool("list", false, "list implemented properties")
	flag.Parse()
	if *list {
		fmt.Println(strings.Join(props.IDs(), " "))
		return
	}
	if t := os.Getenv("VERIF_TIER"); t != "" && *tier == "" {
		*tier = t
	}
	seed := int64(0)
	if s := os.Getenv("VERIF_SEED"); s != "" {
		seed, _ = strconv.ParseInt(s, 10, 64)
	}
	p := props.Get(*prop)
	if p == nil {
		fmt.Fprintf(os.Stderr, "unknown property %q (have: %s)\n", *prop, strings.Join(props.IDs(), " "))
		os.Exit(2)
	}
	r := rep.New(p.ID, *tier, p.Level)
	r.Explanation = p.Explanation
	code := run(p, r, *tier, *repo, *verif, seed)
	os.Exit(code)
}

func gitStatus(repo string) string {
	out, _ := exec.Command("git", "-C", repo, "status", "--porcelain").Output()
	return string(out)
}

func run(p *props.Prop, r *rep.Report, tier, repo, verif string, seed int64) (code int) {
	findings, ferr := rep.LoadFindings(verif + "/known_findings.json")
	defer func() {
		if e := recover(); e != nil {
			r.Config = ""
			r.Undec(p.ID+".checker-panic", "", "checker panicked: %v\n%s", e, debug.Stack())
			code = r.Finish(verif, seed, findings)
		}
	}()
	if ferr != nil {
		r.Undec(p.ID+".known-findings", "", "cannot read known_findings.json: %v", ferr)
	}
	before := gitStatus(repo)
	cfgs := []ana.Config{{Dir: repo}}
	if p.Configs != nil {
		for _, c := range p.Configs(tier) {
			c.Dir = repo
			cfgs = append(cfgs, c)
		}
	} else if tier == "thorough" {
		// every property is also decided on a 32-bit configuration (int/uint width, MaxBatchSize) in the thorough tier
		cfgs = append(cfgs, ana.Config{Dir: repo, GOARCH: "386"})
	}
	var loaded []string
	var last *props.Ctx
	for _, cfg := range cfgs {
		prog, err := ana.Load(cfg)
		if err != nil {
			r.Undec(p.ID+".load", "", "%s: %v", cfg, err)
			continue
		}
		if len(prog.Pkgs) < ana.ExpectedPackages {
			r.Undec(p.ID+".load.package-count", "", "%s: ./... yields %d packages, expected at least %d — part of the build is not covered", cfg, len(prog.Pkgs), ana.ExpectedPackages)
		}
		loaded = append(loaded, fmt.Sprintf("%s: %d packages (%d incl. dependencies), 0 type errors", cfg, len(prog.Pkgs), len(prog.ByPath)))
		if len(cfgs) > 1 {
			r.Config = cfg.String()
		}
		ana.DefaultProg = prog
		ctx := &props.Ctx{P: prog, R: r, Tier: tier, Repo: repo, Verif: verif, Load: ana.Load}
		props.ResolveAnchors(ctx)
		p.Run(ctx)
		last = ctx
	}
	r.Config = ""
	if p.Once != nil && last != nil {
		p.Once(last)
	}
	r.Extra["configurations"] = loaded
	if after := gitStatus(repo); after != before {
		r.Undec(p.ID+".repo-untouched", "", "git status of %s changed during the check", repo)
	}
	return r.Finish(verif, seed, findings)
}
