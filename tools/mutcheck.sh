#!/bin/bash
# usage: tools/mutcheck.sh <patch> <prop> [tier]  — applies patch to /repo, runs the check, undoes it; prints DETECTED/MISSED
p=$(realpath "$1"); prop=$2; tier=${3:-quick}
[ -z "$(git -C /repo status --porcelain --untracked-files=no)" ] || { echo "/repo dirty"; exit 2; }
git -C /repo apply "$p" || exit 2
out=$(/verif/run.sh $prop $tier 2>&1); rc=$?
git -C /repo checkout -- .
git -C /verif checkout -- evidence 2>/dev/null
echo "$out" | grep -E "^(VIOLATION C|UNDECIDED)" | cut -c1-250 | head -5
if [ $rc -eq 1 ]; then echo "$(basename $p) $prop: DETECTED"; else echo "$(basename $p) $prop: MISSED (exit $rc)"; fi
