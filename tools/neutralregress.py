#!/usr/bin/env python3
"""Re-run the checks against every kept behaviour-preserving change (/verif/neutral/*).

usage: tools/neutralregress.py [-j N] [--only PREFIX] [--all-props] [-v]
For each neutral change the patch is applied in a scratch worktree under /tmp/vneureg and the property checks
(its own property and those that ever alarmed on it; --all-props: all 20) run with vcheck -repo.  A non-zero exit is
an ALARM.  Result table: /verif/neutral/REGRESSION.json.  (Development aid; registered checks never read it.)
"""
import json, os, subprocess, sys, glob, shutil, argparse, re, time, queue, threading
from concurrent.futures import ThreadPoolExecutor
ENV = dict(os.environ, GOFLAGS="-mod=mod", GOPROXY="off", GOSUMDB="off", GOTOOLCHAIN="local", CGO_ENABLED="0"); ENV.pop("GOWORK", None)
BIN = "/verif/checker/bin/vcheck"
def sh(cmd, **kw): return subprocess.run(cmd, shell=isinstance(cmd, str), stdout=subprocess.PIPE, stderr=subprocess.STDOUT, text=True, errors="replace", env=ENV, **kw)
def main():
    ap = argparse.ArgumentParser(); ap.add_argument("-j", type=int, default=12); ap.add_argument("--only", default=""); ap.add_argument("--all-props", action="store_true"); ap.add_argument("-v", action="store_true")
    a = ap.parse_args()
    r = sh("cd /verif/checker && go build -o bin/vcheck ./cmd/vcheck")
    if r.returncode: print(r.stdout); sys.exit(2)
    prev = {}
    if os.path.exists("/verif/neutral/REGRESSION.json"): prev = json.load(open("/verif/neutral/REGRESSION.json")).get("results", {})
    jobs = []
    for d in sorted(glob.glob("/verif/neutral/*/")):
        nid = os.path.basename(d.rstrip("/"))
        if not nid.startswith(a.only) or not os.path.exists(d + "patch.diff"): continue
        meta = json.load(open(d + "meta.json"))
        props = {meta.get("property", nid[:3])} | set(meta.get("result", {}).get("alarms", {}).keys()) | set(prev.get(nid, {}).get("ever_alarmed", []))
        if a.all_props: props = {"C%02d" % i for i in range(1, 21)}
        for p in sorted(props): jobs.append((nid, p, d + "patch.diff"))
    root = "/tmp/vneureg"; shutil.rmtree(root, ignore_errors=True); os.makedirs(root)
    pool = queue.Queue()
    for i in range(a.j):
        wt = "%s/w%d" % (root, i); r = sh(["git", "-C", "/repo", "worktree", "add", "--detach", wt, "HEAD"])
        if r.returncode: print(r.stdout); sys.exit(2)
        vd = "%s/v%d" % (root, i); os.makedirs(vd + "/evidence"); shutil.copy("/verif/known_findings.json", vd); pool.put((wt, vd))
    def run(job):
        nid, prop, patch = job; wt, vd = pool.get()
        try:
            r = sh(["git", "-C", wt, "apply", patch])
            if r.returncode: return nid, prop, {"exit": -1, "failed": ["PATCH-DOES-NOT-APPLY"], "lines": []}
            r = sh([BIN, "-prop", prop, "-tier", "quick", "-repo", wt, "-verif", vd], cwd="/verif")
            failed = sorted(set(re.findall(r"^(?:VIOLATION|UNDECIDED) (C\d\d\.[^\s:]+)", r.stdout, re.M)))
            lines = [l[:400] for l in r.stdout.splitlines() if re.match(r"^(VIOLATION C|UNDECIDED)", l)][:10]
            return nid, prop, {"exit": r.returncode, "failed": failed, "lines": lines}
        finally:
            sh(["git", "-C", wt, "checkout", "--", "."]); sh(["git", "-C", wt, "clean", "-fdq"]); pool.put((wt, vd))
    t0 = time.time(); results = {}
    with ThreadPoolExecutor(a.j) as ex:
        for nid, prop, res in ex.map(run, jobs):
            e = results.setdefault(nid, {"alarms": {}, "checked": []}); e["checked"].append(prop)
            if res["exit"] != 0: e["alarms"][prop] = res
    for i in range(a.j): sh(["git", "-C", "/repo", "worktree", "remove", "--force", "%s/w%d" % (root, i)])
    sh(["git", "-C", "/repo", "worktree", "prune"]); shutil.rmtree(root, ignore_errors=True)
    silent = 0
    for nid in sorted(results):
        e = results[nid]; e["ever_alarmed"] = sorted(set(prev.get(nid, {}).get("ever_alarmed", [])) | set(e["alarms"]))
        e["verdict"] = "SILENT" if not e["alarms"] else "ALARM"
        silent += not e["alarms"]
        if e["alarms"]:
            print(nid, "ALARM", {p: v["failed"][:5] for p, v in e["alarms"].items()})
            if a.v:
                for p, v in e["alarms"].items():
                    for l in v["lines"][:6]: print("     ", l[:300])
    print("neutral regression: %d/%d silent in %.0fs" % (silent, len(results), time.time() - t0))
    if not a.only:
        json.dump({"results": results, "silent": silent, "total": len(results)}, open("/verif/neutral/REGRESSION.json", "w"), indent=1, sort_keys=True)
if __name__ == "__main__": main()
