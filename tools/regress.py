#!/usr/bin/env python3
"""Regression of the checker against every kept seeded change and mutant.

usage: tools/regress.py [-j N] [--tier quick] [--only PREFIX]

For every /verif/seeded/<id>/patch.diff and /verif/mutants/*.patch the change is
applied in a scratch worktree of /repo under /tmp/vreg (never in /repo), the
property's check is run against that worktree (vcheck -repo), and the verdict
DETECTED (exit 1 + VIOLATION line) / MISSED is recorded.  The clean worktree is
also checked for all 20 properties and must be silent.  Worktrees are removed at
the end.  Result: /verif/seeded/REGRESSION.json (development aid; the registered
checks never read it).
"""
import json, os, subprocess, sys, glob, shutil, argparse, re, time
from concurrent.futures import ThreadPoolExecutor
import threading, queue

ENV = dict(os.environ, GOFLAGS="-mod=mod", GOPROXY="off", GOSUMDB="off", GOTOOLCHAIN="local", CGO_ENABLED="0")
ENV.pop("GOWORK", None)
VERIF = "/verif"
BIN = VERIF + "/checker/bin/vcheck"


def sh(cmd, **kw):
    return subprocess.run(cmd, shell=isinstance(cmd, str), stdout=subprocess.PIPE, stderr=subprocess.STDOUT, text=True, errors="replace", env=ENV, **kw)


def main():
    ap = argparse.ArgumentParser()
    ap.add_argument("-j", type=int, default=8)
    ap.add_argument("--tier", default="quick")
    ap.add_argument("--only", default="")
    a = ap.parse_args()
    r = sh("cd %s/checker && go build -o bin/vcheck ./cmd/vcheck" % VERIF)
    if r.returncode:
        print(r.stdout)
        sys.exit(2)
    jobs = []
    for d in sorted(glob.glob(VERIF + "/seeded/*/")):
        sid = os.path.basename(d.rstrip("/"))
        if not os.path.exists(d + "patch.diff") or not sid.startswith(a.only):
            continue
        meta = json.load(open(d + "meta.json")) if os.path.exists(d + "meta.json") else {}
        prop = meta.get("property") or sid[:3]
        jobs.append((sid, prop, d + "patch.diff", False))
    for p in sorted(glob.glob(VERIF + "/mutants/*.patch")):
        name = os.path.basename(p)
        m = re.search(r"\.(C\d\d)\.", name)
        props = json.load(open(VERIF + "/mutants/props.json")) if os.path.exists(VERIF + "/mutants/props.json") else {}
        prop = props.get(name) or (m.group(1) if m else None)
        if prop and name.startswith(a.only or name):
            jobs.append(("mutant:" + name, prop, p, False))
    if not a.only:
        for i in range(1, 21):
            jobs.append(("clean:C%02d" % i, "C%02d" % i, None, True))

    root = "/tmp/vreg"
    shutil.rmtree(root, ignore_errors=True)
    os.makedirs(root)
    pool = queue.Queue()
    for i in range(a.j):
        wt = "%s/w%d" % (root, i)
        r = sh(["git", "-C", "/repo", "worktree", "add", "--detach", wt, "HEAD"])
        if r.returncode:
            print(r.stdout)
            sys.exit(2)
        vd = "%s/v%d" % (root, i)
        os.makedirs(vd + "/evidence")
        shutil.copy(VERIF + "/known_findings.json", vd)
        pool.put((wt, vd))
    results = {}
    lock = threading.Lock()

    def run(job):
        sid, prop, patch, clean = job
        wt, vd = pool.get()
        try:
            if patch:
                r = sh(["git", "-C", wt, "apply", patch])
                if r.returncode:
                    return sid, {"property": prop, "verdict": "PATCH-DOES-NOT-APPLY", "out": r.stdout[-300:]}
            r = sh([BIN, "-prop", prop, "-tier", a.tier, "-repo", wt, "-verif", vd], cwd=VERIF)
            viol = "VIOLATION property=%s" % prop in r.stdout
            failed = sorted(set(re.findall(r"^(?:VIOLATION|UNDECIDED) (C\d\d\.[^\s:]+)", r.stdout, re.M)))
            if clean:
                verdict = "SILENT" if r.returncode == 0 and not viol else "FALSE-ALARM"
            else:
                verdict = "DETECTED" if r.returncode == 1 and viol else "MISSED"
            return sid, {"property": prop, "verdict": verdict, "exit": r.returncode, "failed_obligations": failed[:12]}
        finally:
            sh(["git", "-C", wt, "checkout", "--", "."])
            sh(["git", "-C", wt, "clean", "-fdq"])
            pool.put((wt, vd))

    t0 = time.time()
    with ThreadPoolExecutor(a.j) as ex:
        for sid, res in ex.map(run, jobs):
            results[sid] = res
            if res["verdict"] not in ("DETECTED", "SILENT"):
                print(sid, res)
    for i in range(a.j):
        sh(["git", "-C", "/repo", "worktree", "remove", "--force", "%s/w%d" % (root, i)])
    sh(["git", "-C", "/repo", "worktree", "prune"])
    shutil.rmtree(root, ignore_errors=True)
    tally = {}
    for v in results.values():
        tally[v["verdict"]] = tally.get(v["verdict"], 0) + 1
    print("regression:", tally, "in %.0fs" % (time.time() - t0))
    if not a.only:
        head = sh(["git", "-C", "/repo", "rev-parse", "HEAD"]).stdout.strip()
        json.dump({"repo_head": head, "tier": a.tier, "tally": tally, "results": results}, open(VERIF + "/seeded/REGRESSION.json", "w"), indent=1, sort_keys=True)
    bad = [k for k, v in results.items() if v["verdict"] not in ("DETECTED", "SILENT")]
    sys.exit(1 if bad else 0)


if __name__ == "__main__":
    main()
