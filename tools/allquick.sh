#!/bin/bash
# runs all 20 quick checks on /repo in parallel; prints only failures and a summary
cd /verif
(cd checker && GOFLAGS=-mod=mod GOPROXY=off GOSUMDB=off GOTOOLCHAIN=local go build -o bin/vcheck ./cmd/vcheck) || exit 2
mkdir -p /tmp/allq
seq -w 1 20 | xargs -P 10 -I{} bash -c 'mkdir -p /tmp/allq/v{}/evidence; cp known_findings.json /tmp/allq/v{}/; GOFLAGS=-mod=mod GOPROXY=off GOSUMDB=off GOTOOLCHAIN=local CGO_ENABLED=0 ./checker/bin/vcheck -prop C{} -tier ${1:-quick} -repo /repo -verif /tmp/allq/v{} > /tmp/allq/C{}.log 2>&1; echo "C{} exit=$?" >> /tmp/allq/C{}.log' _ $1
grep -hE "^(VIOLATION C|UNDECIDED)" /tmp/allq/C*.log | cut -c1-300
grep -h "exit=" /tmp/allq/C*.log | grep -v "exit=0" ; echo "clean-tree: $(grep -h 'exit=0' /tmp/allq/C*.log | wc -l)/20 pass"
rm -rf /tmp/allq
