#!/usr/bin/env python3
"""Confirm a seeded change and run the checks against it.

usage: seedcheck.py <src dir with patch.diff, demo_test.go, meta.json> <seed id> [--keep] [--props C01,C07] [--tier quick] [--no-check]

1. in a scratch worktree of /repo (outside /repo and /verif): patch applies, builds, the existing tests pass,
   the demonstration fails with the patch and passes without it;
2. applies the patch to /repo, runs the listed property checks, undoes it (git checkout -- .);
3. with --keep copies the seed to /verif/seeded/<seed id>/ with the confirmation record in meta.json.
"""
import json, os, shutil, subprocess, sys, tempfile, time

ENV = dict(os.environ, GOFLAGS="-mod=mod", GOPROXY="off", GOSUMDB="off", GOTOOLCHAIN="local")
ENV.pop("GOWORK", None)

def sh(cmd, cwd=None, timeout=900):
    p = subprocess.run(cmd, shell=True, cwd=cwd, env=ENV, capture_output=True, text=True, timeout=timeout)
    return p.returncode, p.stdout + p.stderr

def main():
    src, sid = sys.argv[1], sys.argv[2]
    keep = "--keep" in sys.argv
    tier = "quick"
    props = None
    for i, a in enumerate(sys.argv):
        if a == "--props": props = sys.argv[i+1].split(",")
        if a == "--tier": tier = sys.argv[i+1]
    meta = json.load(open(os.path.join(src, "meta.json")))
    prop = meta.get("property", sid[:3])
    props = props or [prop]
    demo_dir = meta.get("demo_dir", "").strip("/")
    patch = os.path.abspath(os.path.join(src, "patch.diff"))
    demos = [f for f in os.listdir(src) if f.endswith("_test.go")]
    rec = {"seed": sid, "property": prop, "confirmed_at": time.strftime("%Y-%m-%dT%H:%M:%SZ", time.gmtime())}
    wt = tempfile.mkdtemp(prefix="seedwt-", dir="/tmp")
    os.rmdir(wt)
    try:
        rc, out = sh(f"git -C /repo worktree add -q --detach {wt} HEAD")
        assert rc == 0, out
        rc, out = sh(f"git apply --check {patch} && git apply {patch}", cwd=wt)
        rec["applies"] = rc == 0
        if rc != 0:
            print("PATCH DOES NOT APPLY:", out[-500:]); rec["error"] = out[-500:]; return finish(rec, src, sid, False)
        rc, out = sh("go build ./... && go vet ./pkg/... >/dev/null 2>&1; go build ./...", cwd=wt)
        rec["builds"] = rc == 0
        if rc != 0:
            print("DOES NOT BUILD", out[-800:]); return finish(rec, src, sid, False)
        rc, out = sh("go test -count=1 ./... 2>&1 | grep -v 'no test files'", cwd=wt)
        fails = [l for l in out.splitlines() if l.startswith("--- FAIL") or l.startswith("FAIL\t") or l.startswith("panic:")]
        real = [l for l in fails if "TestEnglish" not in l and "TestJapanese" not in l and "internal/wordlists" not in l]
        rec["existing_tests_pass_with_change"] = len(real) == 0
        if real:
            print("EXISTING TESTS FAIL WITH CHANGE:", real[:5])
        # demo with change
        ddir = os.path.join(wt, demo_dir)
        for d in demos:
            shutil.copy(os.path.join(src, d), os.path.join(ddir, "zz_seed_" + d))
        cmds = " ".join(meta.get("commands", []))
        race = "-race" if meta.get("race") or "-race" in cmds else ""
        import re as _re
        mt = _re.search(r"-tags[ =](\w+)", cmds)
        if mt: race += " -tags " + mt.group(1)
        mr = _re.search(r"-run[ =]'?\"?([\w^$|]+)", cmds)
        if mr and race.startswith("-race"):
            # under the race detector only the demonstration is run: an existing test of the package may race in its own test code
            race += " -run '" + mr.group(1) + "'"
        rc1, out1 = sh(f"go test {race} -count=1 ./{demo_dir}/ 2>&1 | tail -40", cwd=wt, timeout=1200)
        failed_with = ("FAIL" in out1) or ("panic:" in out1)
        rec["demo_fails_with_change"] = failed_with
        rc, out = sh(f"git apply -R {patch}", cwd=wt)
        assert rc == 0, out
        rc2, out2 = sh(f"go test {race} -count=1 ./{demo_dir}/ 2>&1 | tail -20", cwd=wt, timeout=1200)
        passed_without = "FAIL" not in out2 and "panic:" not in out2 and ("ok " in out2 or "ok\t" in out2)
        rec["demo_passes_without_change"] = passed_without
        if not failed_with: print("DEMO DOES NOT FAIL WITH CHANGE:\n", out1[-600:])
        if not passed_without: print("DEMO DOES NOT PASS WITHOUT CHANGE:\n", out2[-600:])
        rec["demo_output_with_change"] = out1[-700:]
    finally:
        sh(f"git -C /repo worktree remove --force {wt}")
        shutil.rmtree(wt, ignore_errors=True)
    confirmed = all(rec.get(k) for k in ["applies", "builds", "existing_tests_pass_with_change", "demo_fails_with_change", "demo_passes_without_change"])
    rec["confirmed"] = confirmed
    if "--no-check" in sys.argv:
        # confirmation only; detection is recorded by tools/regress.py (scratch worktrees)
        return finish(rec, src, sid, keep and confirmed)
    # run checks against /repo with the patch applied
    rc, st = sh("git -C /repo status --porcelain --untracked-files=no")
    assert st.strip() == "", "/repo has uncommitted tracked changes: " + st
    rc, out = sh(f"git -C /repo apply {patch}")
    assert rc == 0, out
    rec["checks"] = {}
    try:
        for p in props:
            rc, out = sh(f"/verif/run.sh {p} {tier}", timeout=1800)
            lines = [l for l in out.splitlines() if l.startswith(("VIOLATION ", "UNDECIDED ", "failed:"))]
            rec["checks"][p] = {"exit": rc, "tier": tier, "reported": [l[:300] for l in lines[:8]]}
            print(f"check {p} {tier}: exit={rc}", "DETECTED" if rc == 1 else "MISSED")
            for l in lines[:6]: print("   ", l[:260])
    finally:
        sh("git -C /repo checkout -- .")
        # evidence files were rewritten by the run on the mutated tree: restore them
        sh("git -C /verif checkout -- evidence 2>/dev/null")
    return finish(rec, src, sid, keep and confirmed)

def finish(rec, src, sid, keep):
    print(json.dumps({k: v for k, v in rec.items() if k not in ("demo_output_with_change", "checks")}))
    if keep:
        dst = f"/verif/seeded/{sid}"
        os.makedirs(dst, exist_ok=True)
        for f in os.listdir(src):
            if f in ("patch.diff", "meta.json") or f.endswith("_test.go"):
                shutil.copy(os.path.join(src, f), os.path.join(dst, f))
        meta = json.load(open(os.path.join(dst, "meta.json")))
        meta["breaks_property"] = rec["property"]
        meta["confirmation"] = {k: rec[k] for k in rec if k not in ("checks",)}
        meta["what_i_ran"] = ["scratch worktree of /repo HEAD: git apply patch.diff; go build ./...; go test -count=1 ./... (all pass except the two network tests); demo test copied into demo_dir fails; git apply -R; demo passes",
                              "then: git -C /repo apply patch.diff; /verif/run.sh <property> <tier>; git -C /repo checkout -- ."]
        meta["check_results"] = rec.get("checks", {})
        json.dump(meta, open(os.path.join(dst, "meta.json"), "w"), indent=1)
    return 0

if __name__ == "__main__":
    sys.exit(main())
