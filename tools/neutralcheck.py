#!/usr/bin/env python3
"""Run the checks against a behaviour-preserving change (false-alarm test).

usage: neutralcheck.py <src dir with patch.diff, meta.json[, equiv_test.go]> <id> [--keep] [--props C01,C07] [--tier quick]

In a scratch worktree of /repo under /tmp (never in /repo): the patch applies, gofmt-clean, builds, vets,
the existing tests pass (and the optional equivalence test passes).  Then every listed property check (default: all 20)
is run against the worktree (vcheck -repo); any non-zero exit is an ALARM.  With --keep the change is stored in
/verif/neutral/<id>/ with the record (meta.json: result.alarms must be empty for the regression to pass).
"""
import json, os, shutil, subprocess, sys, tempfile, time, re
from concurrent.futures import ThreadPoolExecutor

ENV = dict(os.environ, GOFLAGS="-mod=mod", GOPROXY="off", GOSUMDB="off", GOTOOLCHAIN="local", CGO_ENABLED="0")
ENV.pop("GOWORK", None)
BIN = "/verif/checker/bin/vcheck"
ALL = ["C%02d" % i for i in range(1, 21)]


def sh(cmd, cwd=None, timeout=1800):
    p = subprocess.run(cmd, shell=True, cwd=cwd, env=ENV, capture_output=True, text=True, timeout=timeout)
    return p.returncode, p.stdout + p.stderr


def run_checks(wt, props, tier, jobs=10):
    def one(p):
        vd = tempfile.mkdtemp(prefix="vneu-v-", dir="/tmp")
        os.makedirs(vd + "/evidence")
        shutil.copy("/verif/known_findings.json", vd)
        try:
            r = subprocess.run([BIN, "-prop", p, "-tier", tier, "-repo", wt, "-verif", vd], cwd="/verif", env=ENV, capture_output=True, text=True)
            failed = sorted(set(re.findall(r"^(?:VIOLATION|UNDECIDED) (C\d\d\.[^\s:]+)", r.stdout, re.M)))
            lines = [l[:300] for l in r.stdout.splitlines() if re.match(r"^(VIOLATION C|UNDECIDED)", l)][:8]
            return p, r.returncode, failed, lines
        finally:
            shutil.rmtree(vd, ignore_errors=True)
    with ThreadPoolExecutor(jobs) as ex:
        return list(ex.map(one, props))


def main():
    src, nid = sys.argv[1], sys.argv[2]
    keep = "--keep" in sys.argv
    tier, props = "quick", ALL
    for i, a in enumerate(sys.argv):
        if a == "--props": props = sys.argv[i + 1].split(",")
        if a == "--tier": tier = sys.argv[i + 1]
    meta = json.load(open(os.path.join(src, "meta.json")))
    patch = os.path.abspath(os.path.join(src, "patch.diff"))
    rec = {"id": nid, "checked_at": time.strftime("%Y-%m-%dT%H:%M:%SZ", time.gmtime()), "tier": tier}
    rc, out = sh("cd /verif/checker && go build -o bin/vcheck ./cmd/vcheck")
    assert rc == 0, out
    wt = tempfile.mkdtemp(prefix="vneu-", dir="/tmp")
    os.rmdir(wt)
    try:
        rc, out = sh(f"git -C /repo worktree add -q --detach {wt} HEAD")
        assert rc == 0, out
        rc, out = sh(f"git apply --check {patch} && git apply {patch}", cwd=wt)
        rec["applies"] = rc == 0
        if rc != 0:
            print("PATCH DOES NOT APPLY:", out[-400:])
            return
        rc, out = sh("go build ./... && go vet ./pkg/... ./internal/...", cwd=wt)
        rec["builds_and_vets"] = rc == 0
        if rc != 0:
            print("BUILD/VET FAILS:", out[-600:])
        rc, out = sh("go test -count=1 ./... 2>&1 | grep -v 'no test files'", cwd=wt)
        fails = [l for l in out.splitlines() if l.startswith("--- FAIL") or l.startswith("FAIL\t") or l.startswith("panic:")]
        real = [l for l in fails if "TestEnglish" not in l and "TestJapanese" not in l and "internal/wordlists" not in l]
        rec["existing_tests_pass"] = not real
        if real:
            print("EXISTING TESTS FAIL:", real[:5])
        et = os.path.join(src, "equiv_test.go")
        if os.path.exists(et) and meta.get("test_dir"):
            td = meta["test_dir"].strip("/")
            shutil.copy(et, os.path.join(wt, td, "zz_equiv_test.go"))
            rc, out = sh(f"go test -count=1 ./{td}/ 2>&1 | tail -15", cwd=wt)
            rec["equiv_test_passes"] = "FAIL" not in out and "panic:" not in out
            if not rec["equiv_test_passes"]:
                print("EQUIV TEST FAILS:", out[-500:])
            os.remove(os.path.join(wt, td, "zz_equiv_test.go"))
        res = run_checks(wt, props, tier)
        alarms = {p: {"exit": rc_, "failed": f, "lines": ls} for p, rc_, f, ls in res if rc_ != 0}
        rec["properties_checked"] = props
        rec["alarms"] = alarms
        for p, a in sorted(alarms.items()):
            print(f"  ALARM {p} exit={a['exit']}: {' '.join(a['failed'][:6])}")
            for l in a["lines"][:4]:
                print("      " + l[:260])
        print(f"{nid}: {'SILENT' if not alarms else 'ALARMS ' + ','.join(sorted(alarms))}  (build={rec.get('builds_and_vets')} tests={rec.get('existing_tests_pass')})")
    finally:
        sh(f"git -C /repo worktree remove --force {wt}")
        shutil.rmtree(wt, ignore_errors=True)
        if keep and rec.get("applies"):
            dst = f"/verif/neutral/{nid}"
            os.makedirs(dst, exist_ok=True)
            shutil.copy(patch, dst + "/patch.diff")
            if os.path.exists(os.path.join(src, "equiv_test.go")):
                shutil.copy(os.path.join(src, "equiv_test.go"), dst + "/equiv_test.go")
            meta["result"] = rec
            json.dump(meta, open(dst + "/meta.json", "w"), indent=1)


if __name__ == "__main__":
    main()
