#!/bin/bash
# usage: tools/dbg.sh <neutral-or-seed dir name> <prop> — applies the patch in the scratch worktree /tmp/dbg and runs the check there
export GOFLAGS=-mod=mod GOPROXY=off GOSUMDB=off GOTOOLCHAIN=local CGO_ENABLED=0; unset GOWORK
[ -d /tmp/dbg ] || git -C /repo worktree add -q --detach /tmp/dbg HEAD
git -C /tmp/dbg checkout -q -- . && git -C /tmp/dbg clean -fdq
d=/verif/neutral/$1; [ -d $d ] || d=/verif/seeded/$1
git -C /tmp/dbg apply $d/patch.diff || exit 2
mkdir -p /tmp/dbgv/evidence; cp /verif/known_findings.json /tmp/dbgv/
(cd /verif/checker && go build -o bin/vcheck ./cmd/vcheck && go build -o bin/vdump ./cmd/vdump) || exit 2
/verif/checker/bin/vcheck -prop $2 -tier quick -repo /tmp/dbg -verif /tmp/dbgv 2>&1 | grep -E "^(VIOLATION C|UNDECIDED|property=)" | cut -c1-${3:-420}
