#!/usr/bin/env python3
"""Regenerates MANIFEST.json from props_table.json and the list of implemented checks."""
import json, subprocess, os
here = os.path.dirname(os.path.abspath(__file__))
table = json.load(open(os.path.join(here, 'props_table.json')))
impl = subprocess.run([os.path.join(here, 'checker/bin/vcheck'), '-list'], capture_output=True, text=True).stdout.split()
ids = [json.loads(l)['id'] for l in open(os.path.join(here, 'properties.jsonl'))]
checks, na = [], []
for pid in ids:
    t = table.get(pid, {})
    if pid in impl and not t.get('not_applicable'):
        checks.append({
            "property_id": pid,
            "quick_cmd": f"./run.sh {pid} quick",
            "thorough_cmd": f"./run.sh {pid} thorough",
            "evidence_file": f"/verif/evidence/{pid}.json",
            "replay_cmd_template": f"./run.sh {pid} thorough  # static: re-inspects /repo; failed obligations are listed in {{path}}",
            "engine": "vcheck",
            "level_claimed": {"category": t.get("level", "other"), "text": t["text"], "design_ref": f"DESIGN.md §5 {pid}"},
            "level_note": t["note"],
            "technique": t["technique"],
        })
    else:
        na.append({"property_id": pid, "reason": t.get("na_reason", "static check for this property is not built yet (work in progress; see DESIGN.md §5 for the planned obligations)")})
m = {
    "version": 1,
    "setup_cmd": "cd checker && GOFLAGS=-mod=mod GOPROXY=off GOSUMDB=off GOTOOLCHAIN=local GOWORK=off CGO_ENABLED=0 go build -o bin/vcheck ./cmd/vcheck",
    "hooks": {"guard": "verif", "enable": "none needed: the checks never build or run the repository, they type-check and inspect its source", "baseline_off_cmd": "cd /repo && go test -vet=off -count=1 ./... && (cd pkg/curl/asm && go test -mod=mod -vet=off -count=1 ./...)", "source_commits": [], "add_only": True},
    "engines": [{"name": "vcheck", "path": "checker/", "serves_properties": [c["property_id"] for c in checks],
                 "kind_free_text": "repository-specific static analyser over go/types + go/ssa (x/tools v0.29.0): provenance terms with object histories, CFG edge must-pass queries, constant/table extraction, bit-level ANF domain, Plan 9 asm abstract interpreter, concurrency skeleton"}],
    "checks": checks,
    "not_applicable": na,
    "notes": "All checks are static: they load /repo's current working tree with go/packages, lower to SSA and decide obligations keyed Cnn.<rule>.<construct>. Nothing of the repository is executed. Known findings: known_findings.json.",
}
json.dump(m, open(os.path.join(here, 'MANIFEST.json'), 'w'), indent=1)
print("checks:", [c["property_id"] for c in checks], "n/a:", len(na))
